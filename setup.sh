#!/bin/sh
# Offline setup: nothing to download or compile for the harness itself.
# Verifies that breezy imports from /repo and that the seam transport works.
cd "$(dirname "$0")" || exit 1
mkdir -p evidence replays
export PYTHONHASHSEED=0 PYTHONDONTWRITEBYTECODE=1
exec /venv/bin/python -m mc.selftest
