"""Working-tree helpers: real WorkingTree objects on /dev/shm (bzr dirstate and git index)."""
import os
import shutil
import stat

from . import boot

CONTROL = (".bzr", ".git")


def make_tree(kind="bzr", path=None, fmt=None):
    """Create a standalone branch + working tree.  kind: 'bzr' (2a) or 'git'."""
    from breezy import controldir
    from breezy.controldir import ControlDir
    if path is None:
        path = boot.scratch("wt")
    os.makedirs(path, exist_ok=True)
    if fmt is None:
        fmt = "git" if kind == "git" else "2a"
    f = controldir.format_registry.make_controldir(fmt)
    cd = ControlDir.create_standalone_workingtree(path, format=f)
    return cd


def open_tree(path):
    from breezy.workingtree import WorkingTree
    return WorkingTree.open(path)


def rmtree(path):
    shutil.rmtree(path, ignore_errors=True)


def dir_snapshot(root, skip=CONTROL):
    """{relpath: ('file', bytes, is_exec) | ('dir',) | ('link', target)} for everything under root."""
    out = {}
    for dp, dns, fns in os.walk(root):
        rel = os.path.relpath(dp, root)
        if rel == ".":
            rel = ""
            dns[:] = [d for d in dns if d not in skip]
        for d in list(dns):
            p = os.path.join(dp, d)
            r = os.path.join(rel, d) if rel else d
            if os.path.islink(p):
                out[r] = ("link", os.readlink(p))
                dns.remove(d)
            else:
                out[r] = ("dir",)
        for fn in fns:
            p = os.path.join(dp, fn)
            r = os.path.join(rel, fn) if rel else fn
            if os.path.islink(p):
                out[r] = ("link", os.readlink(p))
            else:
                st = os.lstat(p)
                with open(p, "rb") as f:
                    out[r] = ("file", f.read(), bool(st.st_mode & stat.S_IXUSR))
    return out


def wt_dump(tree, with_ids=False):
    """Versioned entries of a working/revision tree: sorted (path, kind, content, exec[, file_id])."""
    out = []
    with tree.lock_read():
        for path, ie in tree.iter_entries_by_dir():
            if path == "":
                continue
            kind = tree.kind(path) if hasattr(tree, "kind") else ie.kind
            try:
                if kind == "file":
                    c, x = tree.get_file_text(path), bool(tree.is_executable(path))
                elif kind == "symlink":
                    c, x = tree.get_symlink_target(path), False
                else:
                    c, x = None, False
            except Exception as e:  # missing on disk etc.
                c, x = "<%s>" % type(e).__name__, False
            row = (path, kind, c, x)
            if with_ids:
                row += (getattr(ie, "file_id", None),)
            out.append(row)
    return sorted(out)


def changes(tree, basis=None, **kw):
    """Sorted, hashable rendering of tree.iter_changes(basis)."""
    out = []
    with tree.lock_read():
        basis = basis or tree.basis_tree()
        with basis.lock_read():
            for c in tree.iter_changes(basis, **kw):
                out.append((c.path, c.changed_content, c.versioned, c.name, c.kind, c.executable))
    return sorted(out, key=repr)
