"""setup_cmd self-test: seam transport under a real repository, scheduler replay."""
import sys


def main():
    from . import boot  # noqa: F401
    from .vfs import new_store
    from breezy.branch import Branch
    from breezy.branchbuilder import BranchBuilder
    s = new_store()
    bb = BranchBuilder(s.transport("b"), format="2a")
    bb.start_series()
    bb.build_snapshot(None, [("add", ("", b"root-id", "directory", None)),
                             ("add", ("a", b"a-id", "file", b"x\n"))], revision_id=b"r1")
    bb.finish_series()
    b = Branch.open(s.url + "b")
    assert b.last_revision_info() == (1, b"r1")
    snap = s.walk()
    s2 = new_store()
    s2.load(snap)
    assert s2.digest() == s.digest()
    assert any(o.mutating for o in s.log)
    print("selftest ok: %d ops logged, %d paths" % (len(s.log), len(snap)))
    return 0


if __name__ == "__main__":
    sys.exit(main())
