"""Simulated processes (baton-passing OS threads) and the schedule explorer.

Each simulated process runs real breezy code with its own object graph on a
shared Store.  Exactly one thread runs at a time; control changes hands only
inside Store.on_op (before the operation is performed), so an execution is a
deterministic function of the sequence of scheduling choices.  The explorer
enumerates all such sequences up to a preemption bound (iterative context
bounding): switching away from a process that could have continued costs 1;
switching because it finished or blocked is free.
"""
import threading

from .evidence import HarnessError


class Point:
    __slots__ = ("order", "chosen", "cur_enabled")

    def __init__(self, order, chosen, cur_enabled):
        self.order = order              # enabled procs, current first if enabled
        self.chosen = chosen
        self.cur_enabled = cur_enabled  # the previously running proc could continue


class VirtualTime:
    """Stand-in for the `time` module inside breezy.lockdir: sleeping yields."""

    def __init__(self):
        self.now = 1_000_000.0
        self.sim = None

    def time(self):
        return self.now

    def sleep(self, secs):
        self.now += secs
        sim = self.sim
        if sim is not None:
            sim.wait_for_change()

    def __getattr__(self, name):
        import time as _t
        return getattr(_t, name)


VTIME = VirtualTime()


def install_virtual_time():
    import breezy.lockdir
    breezy.lockdir.time = VTIME


class Sim:
    def __init__(self, store, bodies, prefix=(), monitor=None, is_point=None, horizon=3000):
        self.store = store
        self.bodies = bodies
        self.prefix = list(prefix)
        self.monitor = monitor
        self.is_point = is_point
        self.horizon = horizon
        n = len(bodies)
        self.n = n
        self.sems = [threading.Semaphore(0) for _ in range(n)]
        self.ctrl = threading.Semaphore(0)
        self.done = [False] * n
        self.blocked = [False] * n
        self.errs = [None] * n
        self.results = [None] * n
        self.pending = [None] * n
        self.points = []
        self.trace = []       # (proc, op brief)
        self.ops = []         # executed Op objects in order
        self.violation = None
        self.livelock = False
        self.ticks = 0
        self.aborted = False

    # called in process threads ------------------------------------------
    def _hook(self, op):
        tid = op.proc
        if tid is None:
            return
        if self.aborted:
            raise SystemExit
        if self.is_point is not None and not self.is_point(op):
            self.ops.append(op)
            return
        self.pending[tid] = op
        self.ctrl.release()
        self.sems[tid].acquire()
        self.pending[tid] = None
        if self.aborted:
            raise SystemExit
        self.ops.append(op)

    def wait_for_change(self):
        tid = getattr(self.store.tl, "proc", None)
        if tid is None:
            return
        self.blocked[tid] = True
        self.pending[tid] = None
        self.ctrl.release()
        self.sems[tid].acquire()
        if self.aborted:
            raise SystemExit

    def _body(self, i):
        self.store.tl.proc = i
        self.sems[i].acquire()
        try:
            if not self.aborted:
                self.results[i] = self.bodies[i](i)
        except SystemExit:
            pass
        except BaseException as e:  # noqa
            self.errs[i] = e
        finally:
            self.done[i] = True
            self.store.tl.proc = None
            self.ctrl.release()

    # controller ---------------------------------------------------------
    def run(self):
        ths = []
        for i in range(self.n):
            th = threading.Thread(target=self._body, args=(i,), daemon=True)
            th.start()
            ths.append(th)
        old_hook = self.store.hook
        self.store.hook = self._hook
        VTIME.sim = self
        try:
            for i in range(self.n):     # bring every process to its first point
                self.sems[i].release()
                self.ctrl.acquire()
            cur = None
            step = 0
            while True:
                alive = [i for i in range(self.n) if not self.done[i]]
                if not alive:
                    break
                enabled = [i for i in alive if not self.blocked[i]]
                if not enabled:
                    # everybody is waiting for a change: time passes, pollers wake up
                    self.ticks += 1
                    for i in alive:
                        self.blocked[i] = False
                    enabled = alive
                cur_enabled = cur in enabled
                order = ([cur] if cur_enabled else []) + [i for i in enabled if i != cur]
                if step < len(self.prefix):
                    ch = self.prefix[step]
                    if ch not in enabled:
                        raise HarnessError("replay diverged at step %d: %r not in %r" % (step, ch, enabled))
                else:
                    ch = order[0]
                self.points.append(Point(order, ch, cur_enabled))
                op = self.pending[ch]
                self.trace.append((ch, op.brief() if op is not None else "(resume)"))
                if op is not None and op.mutating:
                    for i in alive:
                        if i != ch:
                            self.blocked[i] = False
                cur = ch
                step += 1
                self.blocked[ch] = False
                self.sems[ch].release()
                self.ctrl.acquire()
                if self.monitor is not None and self.violation is None:
                    v = self.monitor(self, ch, op)
                    if v:
                        self.violation = v
                if step > self.horizon:
                    self.livelock = True
                    self.aborted = True
                    for i in range(self.n):
                        if not self.done[i]:
                            self.sems[i].release()
                    for i in range(self.n):
                        if not self.done[i]:
                            self.ctrl.acquire()
                    break
        finally:
            self.store.hook = old_hook
            VTIME.sim = None
        for th in ths:
            th.join(10)
        return self

    # exploration helpers ------------------------------------------------
    def choices(self):
        return [p.chosen for p in self.points]

    def preemptions(self):
        return sum(1 for p in self.points if p.cur_enabled and p.chosen != p.order[0])

    def alternatives(self, bound):
        """Prefixes that differ from this execution at one point >= len(prefix)."""
        out = []
        c = 0
        for i, p in enumerate(self.points):
            if i >= len(self.prefix):
                cost = c + (1 if p.cur_enabled else 0)
                if bound is None or cost <= bound:
                    for alt in p.order[1:]:
                        out.append([q.chosen for q in self.points[:i]] + [alt])
            if p.cur_enabled and p.chosen != p.order[0]:
                c += 1
        return out


def explore(run_one, bound, roots=([],), max_exec=None, on_exec=None):
    """DFS over schedules.  run_one(prefix) -> Sim (already run).

    Returns (executions, capped).  on_exec(sim) is called for every execution.
    """
    stack = [list(r) for r in roots]
    n = 0
    while stack:
        prefix = stack.pop()
        sim = run_one(prefix)
        n += 1
        if on_exec is not None:
            on_exec(sim)
        stack.extend(sim.alternatives(bound))
        if max_exec is not None and n >= max_exec:
            return n, bool(stack)
    return n, False


def frontier(run_one, bound, want=64, on_exec=None):
    """Expand the choice tree breadth-first until >= want unexplored prefixes.

    Returns (prefixes, executions_done).  Every execution run here is complete
    and reported through on_exec, so nothing is explored twice or skipped.
    """
    todo = [[]]
    n = 0
    while todo and len(todo) < want:
        prefix = todo.pop(0)
        sim = run_one(prefix)
        n += 1
        if on_exec is not None:
            on_exec(sim)
        todo.extend(sim.alternatives(bound))
    return todo, n
