"""Observations on a repository used as recovery / consistency oracles."""


def full_read(repo, revids=None):
    """Read everything about every (listed) revision.  Returns {revid: digest-able dump};
    raises whatever the repository raises when data is missing."""
    out = {}
    with repo.lock_read():
        ids = sorted(repo.all_revision_ids()) if revids is None else list(revids)
        for rid in ids:
            rev = repo.get_revision(rid)
            tree = repo.revision_tree(rid)
            rows = []
            for path, ie in tree.iter_entries_by_dir():
                if ie.kind == "file":
                    rows.append((path, ie.kind, tree.get_file_text(path), ie.executable, ie.revision))
                elif ie.kind == "symlink":
                    rows.append((path, ie.kind, ie.symlink_target, False, ie.revision))
                else:
                    rows.append((path, ie.kind, None, False, ie.revision))
            out[rid] = (tuple(rev.parent_ids), rev.message, tuple(rows))
        # the graph index must agree with the revision texts
        pm = repo.get_parent_map(ids)
        for rid in ids:
            if tuple(pm[rid]) != tuple(out[rid][0]) and not (pm[rid] == (b"null:",) and not out[rid][0]):
                raise AssertionError("parent map of %r is %r, revision says %r" % (rid, pm[rid], out[rid][0]))
    return out


def check_problems(repo, revids=None):
    """Run the real consistency check; return a list of problem strings (empty = clean)."""
    res = repo.check(revids)
    probs = []
    if getattr(res, "missing_inventory_sha_cnt", 0):
        probs.append("missing_inventory_sha:%d" % res.missing_inventory_sha_cnt)
    if getattr(res, "missing_parent_links", None):
        probs.append("missing_parent_links:%d" % len(res.missing_parent_links))
    if getattr(res, "inconsistent_parents", None):
        probs.append("inconsistent_parents:%d" % len(res.inconsistent_parents))
    if getattr(res, "revs_with_bad_parents_in_index", None):
        probs.append("bad_parents_in_index:%d" % len(res.revs_with_bad_parents_in_index))
    if getattr(res, "_report_items", None):
        probs.append("report_items:%r" % (res._report_items[:3],))
    return probs


def break_all_locks(store):
    """What a user does after a crash: break every stale lock/held in the store."""
    from breezy.lockdir import LockDir
    n = 0
    for p in sorted(store.walk()):
        if p.endswith("/lock/held"):
            parent = p[: -len("/lock/held")].lstrip("/")
            ld = LockDir(store.transport(parent), "lock")
            try:
                info = ld.peek()
            except Exception:
                store.raw().delete_tree(p.lstrip("/"))
                n += 1
                continue
            if info is not None:
                ld.force_break(info)
                n += 1
            else:
                store.raw().delete_tree(p.lstrip("/"))
                n += 1
    return n
