"""The seam: a logging/hooking decorator over dromedary's real MemoryTransport.

URL form: ``vfs+memory+<id>:///path``.  Path resolution, error classes and
rename/rmdir rules are the real transport's.  Every primitive operation goes
through ``Store.on_op`` *before* it is delegated; the hook may hand control to
another simulated process (scheduling point) or raise (fault: the operation is
not performed).  State is always read from the real store (``Store.walk``):
there is no shadow model of the file system.
"""
import hashlib
import stat as _stat
import threading
from io import BytesIO

import dromedary
from dromedary import AppendBasedFileStream, _file_streams, errors as terrors, urlutils
from dromedary.decorator import TransportDecorator
from dromedary.memory import MemoryServer, MemoryTransport

MUTATING = frozenset(["put", "put_na", "append", "mkdir", "rename", "move", "delete", "rmdir",
                      "copy", "delete_tree"])
READING = frozenset(["has", "get", "readv", "stat", "list_dir", "iter_files"])

_STORES = {}


class Op:
    __slots__ = ("proc", "seq", "kind", "path", "path2", "data", "rel", "base", "failed")

    def __init__(self, proc, seq, kind, path, path2=None, data=None, rel=None, base=None):
        self.proc = proc
        self.seq = seq
        self.kind = kind
        self.path = path
        self.path2 = path2
        self.data = data
        self.rel = rel
        self.base = base
        self.failed = None      # exception class name if the real transport refused the op

    @property
    def mutating(self):
        return self.kind in MUTATING

    def brief(self):
        d = "" if self.data is None else " [%d bytes]" % len(self.data)
        p2 = "" if self.path2 is None else " -> %s" % self.path2
        return "%s %s%s%s" % (self.kind, self.path, p2, d)

    def __repr__(self):
        return "<Op p%s #%d %s>" % (self.proc, self.seq, self.brief())


class Store:
    """One in-memory file system + its operation log and hook."""

    def __init__(self):
        self.server = MemoryServer()
        self.server.start_server()
        self.scheme = self.server.get_url()            # memory+ID:///
        self.url = "vfs+" + self.scheme                # vfs+memory+ID:///
        _STORES[self.scheme] = self
        self.log = []
        self.hook = None          # callable(op) -> None; may block or raise
        self.logging = True
        self.tl = threading.local()
        self.seq = 0

    def close(self):
        _STORES.pop(self.scheme, None)
        try:
            self.server.stop_server()
        except Exception:
            pass

    # -- access to the real store, bypassing log and hook
    def raw(self, path=""):
        t = MemoryTransport(self.scheme, _shared_store=self.server._store)
        return t.clone(path) if path else t

    def transport(self, path=""):
        from breezy.transport import get_transport
        return get_transport(self.url + path)

    def on_op(self, kind, path, path2=None, data=None, rel=None, base=None):
        proc = getattr(self.tl, "proc", None)
        self.seq += 1
        op = Op(proc, self.seq, kind, path, path2, data, rel, base)
        if self.logging:
            self.log.append(op)
        h = self.hook
        if h is not None:
            try:
                h(op)
            except BaseException as e:
                op.failed = "hook:" + type(e).__name__
                raise
        return op

    # -- state
    def walk(self, root=""):
        """{abs path: bytes or None for a directory}, read from the real store."""
        t = self.raw()
        out = {}
        stack = [root.strip("/")]
        while stack:
            d = stack.pop()
            try:
                names = t.list_dir(d) if d else t.list_dir(".")
            except terrors.NoSuchFile:
                continue
            for n in names:
                n = urlutils.unescape(n)
                p = (d + "/" + n) if d else n
                ep = urlutils.escape(p)
                st = t.stat(ep)
                if _stat.S_ISDIR(st.st_mode):
                    out["/" + p] = None
                    stack.append(p)
                else:
                    out["/" + p] = t.get_bytes(ep)
        return out

    def restore(self, snap):
        """Replace the content of the store by the snapshot (same URL)."""
        t = self.raw()
        for n in t.list_dir("."):
            t.delete_tree(n)
        self.load(snap)

    def load(self, snap):
        t = self.raw()
        for p in sorted(snap):
            ep = urlutils.escape(p.lstrip("/"))
            if snap[p] is None:
                t.mkdir(ep)
            else:
                t.put_bytes(ep, snap[p])

    def digest(self, canon=None, root=""):
        w = self.walk(root)
        h = hashlib.sha1()
        for p in sorted(w):
            cp = canon(p) if canon else p
            if cp is None:
                continue
            h.update(cp.encode("utf-8", "surrogateescape"))
            h.update(b"\0D" if w[p] is None else b"\0F" + hashlib.sha1(w[p]).digest())
        return h.hexdigest()


def apply_op(t, op, data=None):
    """Re-apply a logged mutating operation through a (raw) root transport."""
    esc = urlutils.escape
    p = esc(op.path.lstrip("/"))
    d = op.data if data is None else data
    k = op.kind
    if k in ("put", "put_na"):
        t.put_bytes(p, d)
    elif k == "append":
        t.append_bytes(p, d)
    elif k == "mkdir":
        t.mkdir(p)
    elif k == "rename":
        t.rename(p, esc(op.path2.lstrip("/")))
    elif k == "move":
        t.move(p, esc(op.path2.lstrip("/")))
    elif k == "delete":
        t.delete(p)
    elif k == "rmdir":
        t.rmdir(p)
    elif k == "delete_tree":
        t.delete_tree(p)
    elif k == "copy":
        t.copy(p, esc(op.path2.lstrip("/")))
    else:
        raise ValueError(k)


class _VfsStream(AppendBasedFileStream):
    """open_write_stream result: every write is a separate logged append."""


class VfsTransport(TransportDecorator):

    @classmethod
    def _get_url_prefix(cls):
        return "vfs+"

    def __init__(self, url, _decorated=None, _from_transport=None):
        super().__init__(url, _decorated, _from_transport)
        scheme = self._decorated.base.split(":///", 1)[0] + ":///"
        self._store = _STORES[scheme]

    def _abs(self, relpath):
        u = self._decorated.abspath(relpath)
        return urlutils.unescape(u.split("://", 1)[1])

    def _op(self, kind, relpath, rel2=None, data=None):
        return self._store.on_op(kind, self._abs(relpath), None if rel2 is None else self._abs(rel2),
                                 data, rel=relpath, base=self._decorated.base)

    def _do(self, op, fn, *args):
        try:
            return fn(*args)
        except BaseException as e:
            op.failed = type(e).__name__
            raise

    # reads
    def has(self, relpath):
        self._op("has", relpath)
        return self._decorated.has(relpath)

    def get(self, relpath):
        self._op("get", relpath)
        return self._decorated.get(relpath)

    def get_bytes(self, relpath):
        self._op("get", relpath)
        return self._decorated.get_bytes(relpath)

    def _readv(self, relpath, offsets):
        self._op("readv", relpath)
        return self._decorated._readv(relpath, offsets)

    def readv(self, relpath, offsets, adjust_for_latency=False, upper_limit=None):
        self._op("readv", relpath)
        return self._decorated.readv(relpath, offsets, adjust_for_latency, upper_limit)

    def stat(self, relpath):
        self._op("stat", relpath)
        return self._decorated.stat(relpath)

    def list_dir(self, relpath):
        self._op("list_dir", relpath)
        return self._decorated.list_dir(relpath)

    def iter_files_recursive(self):
        self._op("iter_files", ".")
        return self._decorated.iter_files_recursive()

    # writes
    def put_file(self, relpath, f, mode=None):
        data = f.read()
        op = self._op("put", relpath, data=data)
        self._do(op, self._decorated.put_bytes, relpath, data, mode)
        return len(data)

    def put_bytes(self, relpath, raw_bytes, mode=None):
        if not isinstance(raw_bytes, bytes):
            raise TypeError("raw_bytes must be a plain string, not %s" % type(raw_bytes))
        op = self._op("put", relpath, data=raw_bytes)
        self._do(op, self._decorated.put_bytes, relpath, raw_bytes, mode)
        return len(raw_bytes)

    def put_file_non_atomic(self, relpath, f, mode=None, create_parent_dir=False, dir_mode=None):
        data = f.read()
        op = self._op("put_na", relpath, data=data)
        try:
            self._do(op, self._decorated.put_bytes, relpath, data, mode)
            return len(data)
        except terrors.NoSuchFile:
            if not create_parent_dir:
                raise
            import os
            parent_dir = os.path.dirname(relpath)
            if parent_dir:
                self.mkdir(parent_dir, mode=dir_mode)
                op = self._op("put_na", relpath, data=data)
                self._do(op, self._decorated.put_bytes, relpath, data, mode)
                return len(data)
            raise

    def put_bytes_non_atomic(self, relpath, raw_bytes, mode=None, create_parent_dir=False, dir_mode=None):
        if not isinstance(raw_bytes, bytes):
            raise TypeError("raw_bytes must be a plain string, not %s" % type(raw_bytes))
        return self.put_file_non_atomic(relpath, BytesIO(raw_bytes), mode, create_parent_dir, dir_mode)

    def append_file(self, relpath, f, mode=None):
        data = f.read()
        op = self._op("append", relpath, data=data)
        return self._do(op, self._decorated.append_bytes, relpath, data, mode)

    def append_bytes(self, relpath, data, mode=None):
        if not isinstance(data, bytes):
            raise TypeError("bytes must be a plain string, not %s" % type(data))
        op = self._op("append", relpath, data=data)
        return self._do(op, self._decorated.append_bytes, relpath, data, mode)

    def open_write_stream(self, relpath, mode=None):
        self.put_bytes(relpath, b"", mode)
        r = _VfsStream(self, relpath)
        _file_streams[self.abspath(relpath)] = r
        return r

    def mkdir(self, relpath, mode=None):
        op = self._op("mkdir", relpath)
        return self._do(op, self._decorated.mkdir, relpath, mode)

    def rename(self, rel_from, rel_to):
        op = self._op("rename", rel_from, rel_to)
        return self._do(op, self._decorated.rename, rel_from, rel_to)

    def move(self, rel_from, rel_to):
        op = self._op("move", rel_from, rel_to)
        return self._do(op, self._decorated.move, rel_from, rel_to)

    def copy(self, rel_from, rel_to):
        op = self._op("copy", rel_from, rel_to)
        return self._do(op, self._decorated.copy, rel_from, rel_to)

    def delete(self, relpath):
        op = self._op("delete", relpath)
        return self._do(op, self._decorated.delete, relpath)

    def rmdir(self, relpath):
        op = self._op("rmdir", relpath)
        return self._do(op, self._decorated.rmdir, relpath)

    def delete_tree(self, relpath):
        op = self._op("delete_tree", relpath)
        return self._do(op, self._decorated.delete_tree, relpath)

    def external_url(self):
        raise terrors.InProcessTransport(self)

    def lock_read(self, relpath):
        return self._decorated.lock_read(relpath)

    def lock_write(self, relpath):
        return self._decorated.lock_write(relpath)


dromedary.register_transport("vfs+", VfsTransport)


def new_store():
    return Store()


class InjectedFault(terrors.TransportError):
    """The transport error raised by fault injection."""

    def __init__(self, op):
        terrors.TransportError.__init__(self, "injected fault at %s" % op.brief())
        self.op = op
