"""Fork-based sharding over worker processes.

pmap(fn, items) splits items into chunks, runs fn(chunk) -> result in forked
workers (the parent has already imported breezy, so nothing is re-imported),
and returns the list of results in chunk order.  Workers are long lived (one
per core), never one per execution.
"""
import multiprocessing
import os
import random
import traceback

NCPU = int(os.environ.get("VERIF_JOBS", "0") or 0) or min(16, os.cpu_count() or 1)

_FN = None


def _call(args):
    idx, chunk = args
    try:
        return idx, _FN(chunk), None
    except BaseException:  # noqa
        return idx, None, traceback.format_exc()


def chunked(items, nchunks):
    items = list(items)
    n = max(1, min(len(items), nchunks))
    out = [[] for _ in range(n)]
    for i, it in enumerate(items):
        out[i % n].append(it)
    return [c for c in out if c]


def pmap(fn, items, seed=0, jobs=None, chunks_per_job=4):
    """Run fn over chunks of items in parallel; returns list of fn results."""
    global _FN
    jobs = jobs or NCPU
    items = list(items)
    if not items:
        return []
    # The seed only permutes which worker gets which item and in which order.
    rnd = random.Random(seed)
    order = list(range(len(items)))
    if seed:
        rnd.shuffle(order)
    items = [items[i] for i in order]
    chunks = chunked(items, jobs * chunks_per_job)
    if jobs == 1 or len(chunks) == 1:
        return [fn(c) for c in chunks]
    _FN = fn
    ctx = multiprocessing.get_context("fork")
    with ctx.Pool(min(jobs, len(chunks))) as pool:
        res = pool.map(_call, list(enumerate(chunks)), chunksize=1)
    out = []
    for idx, r, err in sorted(res, key=lambda x: x[0]):
        if err:
            from .evidence import HarnessError
            raise HarnessError("worker failed:\n" + err)
        out.append(r)
    return out


class Acc:
    """Mergeable result accumulator used by workers."""

    def __init__(self):
        self.n = 0                 # evaluations
        self.nontrivial = set()    # keys of distinct non-trivial cases (hashed)
        self.counters = {}
        self.violations = []
        self.samples = []
        self.outcomes = set()

    def count(self, key, k=1):
        self.counters[key] = self.counters.get(key, 0) + k

    def nt(self, key):
        self.nontrivial.add(hash(key) if not isinstance(key, int) else key)

    def sample(self, s, limit=3):
        if len(self.samples) < limit:
            self.samples.append(s)

    def violation(self, sig, detail):
        # keep a few occurrences PER SIGNATURE (a frequent known finding must never crowd out
        # a new signature found later in the same chunk)
        k = "violations_raw:" + sig
        if self.counters.get(k, 0) < 5:
            self.violations.append((sig, detail))
        self.count(k)
        self.count("violations_raw")

    def merge(self, other):
        self.n += other.n
        self.nontrivial |= other.nontrivial
        self.outcomes |= other.outcomes
        for k, v in other.counters.items():
            self.counters[k] = self.counters.get(k, 0) + v
        self.violations.extend(other.violations)
        for s in other.samples:
            if len(self.samples) < 6:
                self.samples.append(s)
        return self


def merge(accs):
    a = Acc()
    for x in accs:
        a.merge(x)
    return a
