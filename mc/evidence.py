"""Evidence files, violations, replay artefacts and known findings."""
import hashlib
import json
import os
import subprocess
import sys
import time

VERIF = os.path.dirname(os.path.dirname(os.path.abspath(__file__)))
EVIDENCE_DIR = os.path.join(VERIF, "evidence")
REPLAY_DIR = os.path.join(VERIF, "replays")
KNOWN = os.path.join(VERIF, "known_findings.json")
SCHEMA = "/root/.vp/EVIDENCE.schema.json"


class HarnessError(Exception):
    """A failure of the checking machinery itself (exit 2, never a violation)."""


def jsonable(x):
    if isinstance(x, bytes):
        try:
            return x.decode("utf-8")
        except UnicodeDecodeError:
            return "hex:" + x.hex()
    if isinstance(x, (list, tuple)):
        return [jsonable(i) for i in x]
    if isinstance(x, (set, frozenset)):
        return sorted((jsonable(i) for i in x), key=repr)
    if isinstance(x, dict):
        return {str(jsonable(k)): jsonable(v) for k, v in x.items()}
    if isinstance(x, (str, int, float, bool)) or x is None:
        return x
    return repr(x)


class Ctx:
    """Handed to a check's run(): tier, seed, counters, violation sink."""

    def __init__(self, pid, level, tier, seed):
        self.pid = pid
        self.level = level
        self.tier = tier
        self.seed = seed
        self.thorough = tier == "thorough"
        self.t0 = time.time()
        self.violations = []   # (sig, detail)
        self.cov = {}
        self.assumptions = []
        self.notes = []

    def q(self, quick, thorough):
        return thorough if self.thorough else quick

    def violation(self, sig, detail):
        """Record a violation.  sig identifies the failing call site/input class."""
        self.violations.append((sig, jsonable(detail)))

    def extend(self, vios):
        for sig, d in vios:
            self.violation(sig, d)


def load_known():
    out = []
    if os.path.exists(KNOWN):
        with open(KNOWN) as f:
            out.extend(json.load(f)["findings"])
    import glob
    for p in sorted(glob.glob(os.path.join(VERIF, "known_findings.d", "*.json"))):
        with open(p) as f:
            out.extend(json.load(f)["findings"])
    # known_findings.json is the merge of the .d sources (tools/merge_known.py): de-duplicate,
    # the .d entry (read last) wins
    dedup = {}
    for k in out:
        dedup[(k["property"], k["signature"])] = k
    return list(dedup.values())


def _validate(path):
    """Validate against the schema with python3-vt's jsonschema when available."""
    code = ("import json,sys,jsonschema;"
            "jsonschema.validate(json.load(open(sys.argv[1])),json.load(open(sys.argv[2])))")
    for py in ("python3-vt", "/opt/veriftools/pyvenv/bin/python"):
        try:
            r = subprocess.run([py, "-c", code, path, SCHEMA], capture_output=True, text=True, timeout=60)
        except (OSError, subprocess.TimeoutExpired):
            continue
        if r.returncode != 0:
            raise HarnessError("evidence file %s does not validate: %s" % (path, r.stderr[-2000:]))
        return True
    return False


def finish(ctx, coverage):
    """Write evidence, print VIOLATION / KNOWN-FINDING lines, return exit code."""
    known = load_known()
    by_sig = {}
    for sig, d in ctx.violations:
        by_sig.setdefault(sig, []).append(d)
    os.makedirs(REPLAY_DIR, exist_ok=True)
    n_new = 0
    known_hit = []
    lines = []
    for sig in sorted(by_sig):
        entry = None
        for k in known:
            if k["property"] == ctx.pid and k["signature"] == sig and k.get("status") == "known":
                entry = k
        if entry is not None:
            known_hit.append(sig)
            lines.append("KNOWN-FINDING: property=%s %s [%s] (%d occurrences this run)" % (
                ctx.pid, entry["what"], sig, len(by_sig[sig])))
            continue
        n_new += 1
        h = hashlib.sha1(sig.encode()).hexdigest()[:10]
        path = os.path.join(REPLAY_DIR, "%s-%s.json" % (ctx.pid, h))
        with open(path, "w") as f:
            json.dump({"property": ctx.pid, "signature": sig, "tier": ctx.tier, "seed": ctx.seed,
                       "occurrences": len(by_sig[sig]), "first": by_sig[sig][0],
                       "more": by_sig[sig][1:4]}, f, indent=1, sort_keys=True)
        lines.append("VIOLATION property=%s replay=%s" % (ctx.pid, path))
        lines.append("  signature: %s" % sig)
        lines.append("  detail: %s" % json.dumps(by_sig[sig][0], sort_keys=True)[:1500])
    cov = dict(coverage)
    cov = jsonable(cov)
    ev = {
        "property_id": ctx.pid,
        "tier": ctx.tier,
        "seed": ctx.seed,
        "level": ctx.level,
        "coverage": cov,
        "assumptions": list(ctx.assumptions),
        "wall_s": round(time.time() - ctx.t0, 3),
        "violations": n_new,
        "known_findings_reproduced": known_hit,
    }
    os.makedirs(EVIDENCE_DIR, exist_ok=True)
    path = os.path.join(EVIDENCE_DIR, "%s.json" % ctx.pid)
    tmp = path + ".tmp.%d" % os.getpid()
    with open(tmp, "w") as f:
        json.dump(ev, f, indent=1, sort_keys=True)
        f.write("\n")
    os.replace(tmp, path)
    _validate(path)
    for l in lines:
        print(l)
    summ = {k: v for k, v in cov.items() if isinstance(v, (int, float, bool))}
    print("%s tier=%s seed=%d wall=%.1fs new_violations=%d known=%d %s" % (
        ctx.pid, ctx.tier, ctx.seed, ev["wall_s"], n_new, len(known_hit), json.dumps(summ, sort_keys=True)))
    sys.stdout.flush()
    return 1 if n_new else 0
