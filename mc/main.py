"""./run entry point: ./run C26 --tier quick"""
import argparse
import importlib
import json
import os
import sys
import traceback


def main(argv=None):
    ap = argparse.ArgumentParser()
    ap.add_argument("pid")
    ap.add_argument("--tier", default=os.environ.get("VERIF_TIER") or "quick", choices=["quick", "thorough"])
    ap.add_argument("--replay")
    ap.add_argument("--jobs", type=int)
    args = ap.parse_args(argv)
    if args.jobs:
        os.environ["VERIF_JOBS"] = str(args.jobs)
    verif = os.path.dirname(os.path.dirname(os.path.abspath(__file__)))
    if verif not in sys.path:
        sys.path.insert(0, verif)
    if args.replay:
        args.replay = os.path.abspath(args.replay)
    from . import boot  # noqa: F401  (must come before breezy)
    # breezy code occasionally drops files into the current directory (e.g. ",,bogus-inv"):
    # run from a scratch directory, never from /verif
    os.chdir(boot.scratch("cwd"))
    from .evidence import Ctx, HarnessError, finish
    pid = args.pid.upper()
    mod = importlib.import_module("checks.%s" % pid.lower())
    ctx = Ctx(pid, mod.LEVEL, args.tier, boot.SEED)
    try:
        if args.replay:
            with open(args.replay) as f:
                data = json.load(f)
            if not hasattr(mod, "replay"):
                print("check %s has no replay(); re-run the check" % pid)
                return 2
            ok = mod.replay(ctx, data)
            print("REPLAY %s: %s" % (args.replay, "property holds" if ok else "violation reproduced"))
            return 0 if ok else 1
        cov = mod.run(ctx)
        return finish(ctx, cov)
    except HarnessError as e:
        print("HARNESS-ERROR %s: %s" % (pid, e))
        return 2
    except Exception:
        print("HARNESS-ERROR %s:" % pid)
        traceback.print_exc()
        return 2


if __name__ == "__main__":
    sys.exit(main())
