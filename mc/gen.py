"""Small-scope generators: DAGs, words, subsets."""
import itertools


def dags(n, max_parents=2, min_nodes=None):
    """All DAGs on nodes 0..n-1 in topological order, each node with an ordered
    tuple of 0..max_parents distinct earlier nodes (ordered: the first parent is
    the left-hand parent).  Yields tuples of parent tuples, for every size
    min_nodes..n (default: exactly n)."""
    lo = n if min_nodes is None else min_nodes
    for size in range(lo, n + 1):
        choices = []
        for i in range(size):
            opts = [()]
            for k in range(1, max_parents + 1):
                opts.extend(itertools.permutations(range(i), k))
            choices.append(opts)
        yield from itertools.product(*choices)


def dag_ancestors(dag, tip):
    seen = set()
    todo = [tip]
    while todo:
        x = todo.pop()
        if x in seen:
            continue
        seen.add(x)
        todo.extend(dag[x])
    return seen


def connected_to_tip(dag):
    """True if the last node reaches every node (single-headed history)."""
    return len(dag_ancestors(dag, len(dag) - 1)) == len(dag)


def heads(dag, nodes):
    nodes = set(nodes)
    out = set(nodes)
    for x in nodes:
        anc = dag_ancestors(dag, x) - {x}
        out -= anc
    return out


def lefthand(dag, tip):
    out = []
    x = tip
    while True:
        out.append(x)
        if not dag[x]:
            break
        x = dag[x][0]
    return out[::-1]


def words(alphabet, max_len, min_len=0):
    for k in range(min_len, max_len + 1):
        yield from itertools.product(alphabet, repeat=k)


def subsets(items, max_size=None):
    items = list(items)
    hi = len(items) if max_size is None else min(max_size, len(items))
    for k in range(0, hi + 1):
        yield from itertools.combinations(items, k)


def revid(i):
    return b"r%d" % i
