"""Shared model-checking machinery for the breezy /verif checks."""
