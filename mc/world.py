"""Builds real repositories from declarative histories, and canonical dumps.

A *tree spec* is a dict ``path -> E(fid, kind, content, exec)`` (the root is
implicit with id ROOT_ID).  A *history* is a list of ``Rev(revid, parents,
tree)`` in topological order.  ``build_history`` materialises it with real
commits through a MemoryTree whose state is set to the spec before each commit
(commit itself - CommitBuilder, per-file graph, inventories - is the real code).
"""
import posixpath
from collections import namedtuple

E = namedtuple("E", "fid kind content exec")
Rev = namedtuple("Rev", "revid parents tree")
ROOT_ID = b"TREE_ROOT"


def F(fid, content, exec=False):
    return E(fid, "file", content, exec)


def D(fid):
    return E(fid, "directory", None, False)


def L(fid, target):
    return E(fid, "symlink", target, False)


def make_branch(url_or_transport, fmt="2a", shared_repo=None):
    from breezy import controldir
    from breezy.controldir import ControlDir
    t = url_or_transport
    if isinstance(t, str):
        from breezy.transport import get_transport
        t = get_transport(t)
    t.ensure_base()
    f = controldir.format_registry.make_controldir(fmt) if isinstance(fmt, str) else fmt
    return ControlDir.create_branch_convenience(t.base, format=f, force_new_tree=False)


def set_tree_state(tree, spec, root_id=ROOT_ID):
    """Make a locked MemoryTree's current state equal to spec."""
    from bzrformats.inventory import Inventory, InventoryDirectory, InventoryFile, InventoryLink
    from dromedary.memory import MemoryTransport
    inv = Inventory(None, tree._basis_tree.get_revision_id())
    ft = MemoryTransport()
    inv.add(InventoryDirectory(root_id, "", None))
    ids = {"": root_id}
    for path in sorted(spec, key=lambda p: p.split("/")):
        e = spec[path]
        parent, name = posixpath.split(path)
        pid = ids[parent]
        if e.kind == "directory":
            inv.add(InventoryDirectory(e.fid, name, pid))
            ft.mkdir(path)
        elif e.kind == "file":
            inv.add(InventoryFile(e.fid, name, pid, executable=bool(e.exec)))
            ft.put_bytes(path, e.content)
        elif e.kind == "symlink":
            inv.add(InventoryLink(e.fid, name, pid, symlink_target=e.content))
            ft.symlink(e.content, path)
        else:
            raise ValueError(e.kind)
        ids[path] = e.fid
    tree._inventory = inv
    tree._file_transport = ft


def commit_spec(branch, revid, parents, spec, message=None, timestamp=None, committer=None,
                timezone=0, revprops=None, root_id=ROOT_ID, allow_ghost=False):
    """Commit tree `spec` on `branch` as `revid` with explicit parents."""
    from breezy import revision as _mod_revision
    left = parents[0] if parents else _mod_revision.NULL_REVISION
    if branch.last_revision() != left:
        with branch.lock_write():
            if left == _mod_revision.NULL_REVISION:
                branch.set_last_revision_info(0, left)
            else:
                branch.generate_revision_history(left)
    tree = branch.create_memorytree()
    with tree.lock_write():
        tree.set_parent_ids(list(parents), allow_leftmost_as_ghost=allow_ghost)
        set_tree_state(tree, spec, root_id)
        kw = {}
        if revprops:
            kw["revprops"] = revprops
        return tree.commit(message if message is not None else "commit %s" % revid.decode(),
                           rev_id=revid, timestamp=timestamp if timestamp is not None else 1_000_000_000.0,
                           timezone=timezone, committer=committer or "Committer <c@example.com>",
                           allow_pointless=True, **kw)


def build_history(branch, history, **kw):
    for i, rev in enumerate(history):
        commit_spec(branch, rev.revid, rev.parents, rev.tree, timestamp=1_000_000_000.0 + i, **kw)
    return branch


# ---- dumps ----------------------------------------------------------------

def dump_tree(tree, with_ids=True, with_revision=False):
    """Canonical dump of any breezy Tree: sorted (path, kind, content, exec[, fid])."""
    out = []
    with tree.lock_read():
        for path, ie in tree.iter_entries_by_dir():
            if path == "":
                if with_ids and with_revision:
                    out.append(("", "directory", None, False, getattr(ie, "file_id", None), ie.revision))
                continue
            kind = ie.kind
            if kind == "file":
                c = tree.get_file_text(path)
                x = bool(tree.is_executable(path))
            elif kind == "symlink":
                c = tree.get_symlink_target(path)
                x = False
            else:
                c = None
                x = False
            row = (path, kind, c, x)
            if with_ids:
                row += (getattr(ie, "file_id", None),)
            if with_revision:
                row += (ie.revision,)
            out.append(row)
    return sorted(out, key=lambda r: r[0])


def spec_dump(spec, with_ids=True):
    out = []
    for p, e in spec.items():
        row = (p, e.kind, e.content, bool(e.exec) if e.kind == "file" else False)
        if with_ids:
            row += (e.fid,)
        out.append(row)
    return sorted(out, key=lambda r: r[0])


def testament(repo, revid, strict=True):
    from breezy.bzr.testament import StrictTestament3, Testament
    cls = StrictTestament3 if strict else Testament
    return cls.from_revision(repo, revid).as_short_text()


def ancestry(history, revid):
    """Non-ghost ancestors (inclusive) of revid in a declarative history."""
    parents = {r.revid: r.parents for r in history}
    seen = set()
    todo = [revid]
    while todo:
        r = todo.pop()
        if r in seen or r not in parents:
            continue
        seen.add(r)
        todo.extend(parents[r])
    return seen
