"""Keep the Rust extension modules in step with /repo's Rust sources.

breezy ships six PyO3 extension modules built from /repo/src and /repo/crates and
copied to breezy/*.so.  If any Rust source (or Cargo file) is newer than the
in-place module, the affected modules are rebuilt offline with cargo (incremental;
writes only into <repo>/target) and loaded from target/debug through a meta-path
finder, so the checks exercise the code in the working tree without writing
anything else under /repo.  When nothing is stale this costs one directory scan.
"""
import glob
import importlib.abc
import importlib.machinery
import importlib.util
import os
import subprocess
import sys

CRATES = {
    "breezy._cmd_rs": "cmd-py",
    "breezy._osutils_rs": "osutils-py",
    "breezy._patch_rs": "patch-py",
    "breezy._annotator_rs": "annotate-py",
    "breezy.zlib_util": "zlib-util-py",
    "breezy._git_rs": "git-py",
}


def _newest_source(repo):
    newest = 0.0
    pats = ["Cargo.toml", "Cargo.lock", "src/**/*.rs", "crates/**/*.rs", "crates/*/Cargo.toml", "breezy/main.rs"]
    for pat in pats:
        for p in glob.glob(os.path.join(repo, pat), recursive=True):
            try:
                newest = max(newest, os.stat(p).st_mtime)
            except OSError:
                pass
    return newest


def _inplace(repo, mod):
    name = mod.split(".")[1]
    hits = glob.glob(os.path.join(repo, "breezy", name + ".*.so")) + glob.glob(os.path.join(repo, "breezy", name + ".so"))
    return hits[0] if hits else None


class _Finder(importlib.abc.MetaPathFinder):
    def __init__(self, table):
        self.table = table

    def find_spec(self, fullname, path, target=None):
        lib = self.table.get(fullname)
        if lib is None:
            return None
        loader = importlib.machinery.ExtensionFileLoader(fullname, lib)
        return importlib.util.spec_from_file_location(fullname, lib, loader=loader)


def ensure(repo, verbose=True):
    """Rebuild + redirect stale extension modules.  Returns {module: lib path} redirected."""
    if os.environ.get("VERIF_NO_RUST_REBUILD"):
        return {}
    newest = _newest_source(repo)
    stale = []
    for mod in CRATES:
        so = _inplace(repo, mod)
        if so is None or os.stat(so).st_mtime < newest:
            stale.append(mod)
    if not stale:
        return {}
    cmd = ["cargo", "build", "--offline"]
    for mod in stale:
        cmd += ["-p", CRATES[mod]]
    env = dict(os.environ, CARGO_NET_OFFLINE="true")
    env["HOME"] = os.environ.get("VERIF_ORIG_HOME", "/root")   # rustup/cargo live in the real home
    for k in ("BRZ_HOME", "BRZ_LOG"):
        env.pop(k, None)
    if verbose:
        print("rustbuild: Rust sources newer than %d extension module(s); running %s" % (len(stale), " ".join(cmd)),
              file=sys.stderr)
    try:
        r = subprocess.run(cmd, cwd=repo, env=env, stdout=subprocess.PIPE, stderr=subprocess.STDOUT, text=True,
                           timeout=3600)
    except (OSError, subprocess.TimeoutExpired) as e:
        print("rustbuild: cargo could not be run (%s); using the in-place modules" % e, file=sys.stderr)
        return {}
    if r.returncode != 0:
        print("rustbuild: cargo build failed; using the in-place modules\n" + r.stdout[-2000:], file=sys.stderr)
        return {}
    table = {}
    for mod in stale:
        lib = os.path.join(repo, "target", "debug", "lib%s.so" % CRATES[mod].replace("-", "_"))
        if os.path.exists(lib):
            table[mod] = lib
    if table:
        sys.meta_path.insert(0, _Finder(table))
    return table
