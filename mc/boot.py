"""Hermetic breezy bootstrap and determinism patches.

Import this module first (before breezy).  It points BRZ_HOME/HOME at a fresh
temporary directory, fixes the identity, time zone and hash seed, makes sure the
breezy that is imported is /repo's working tree and initialises the library
with a silent UI.
"""
import atexit
import os
import shutil
import sys
import tempfile

REPO = os.environ.get("VERIF_REPO", "/repo")

os.environ.setdefault("VERIF_ORIG_HOME", os.environ.get("HOME", "/root"))
_home = tempfile.mkdtemp(prefix="verif-home-", dir="/dev/shm" if os.path.isdir("/dev/shm") else None)
_owner_pid = os.getpid()


def _cleanup():
    if os.getpid() == _owner_pid:
        shutil.rmtree(_home, ignore_errors=True)


atexit.register(_cleanup)
os.environ["BRZ_HOME"] = _home
os.environ["HOME"] = _home
os.environ["BRZ_EMAIL"] = "Verif <verif@example.com>"
os.environ["TZ"] = "UTC"
os.environ["BRZ_PLUGIN_PATH"] = "-user:-site"
os.environ.pop("BRZ_LOG", None)
os.environ["BRZ_LOG"] = os.path.join(_home, "brz.log")
os.environ.pop("EMAIL", None)
os.environ.setdefault("PYTHONHASHSEED", "0")
os.environ["BREEZY_VERIF"] = "1"
for k in ("LANG", "LC_ALL", "LC_CTYPE"):
    os.environ[k] = "C.UTF-8"

if REPO not in sys.path:
    sys.path.insert(0, REPO)

from . import rustbuild  # noqa: E402

RUST_REDIRECTED = rustbuild.ensure(REPO)

import breezy  # noqa: E402

assert os.path.realpath(breezy.__file__).startswith(os.path.realpath(REPO) + os.sep), (
    "breezy imported from %s, not from %s" % (breezy.__file__, REPO))

_state = breezy.initialize()
import breezy.bzr  # noqa: E402,F401
import breezy.git  # noqa: E402,F401
from breezy import trace, ui  # noqa: E402

trace.be_quiet(True)
ui.ui_factory = ui.SilentUIFactory()

HOME = _home
SEED = int(os.environ.get("VERIF_SEED", "0") or 0)


def scratch(prefix="w"):
    """A fresh scratch directory on /dev/shm (removed at exit with the home)."""
    return tempfile.mkdtemp(prefix=prefix + "-", dir=_home)
