"""Crash-prefix / torn-write enumeration and single-fault injection on the seam's op log.

Crash model: a process stops between two transport operations (every prefix of
its mutating-op sequence is a possible persistent state); atomic operations
(put = temp+rename, mkdir, rename, delete) are atomic; non-atomic writes
(put_na, append - including every stream write) may additionally be torn
(truncated to 0, 1, half, len-1 bytes).  No reordering of operations.
"""
from .vfs import InjectedFault, apply_op

NON_ATOMIC = ("put_na", "append")


def record(store, fn, proc="rec"):
    """Run fn() with logging; return (ops, result, exception)."""
    n0 = len(store.log)
    res = exc = None
    try:
        res = fn()
    except Exception as e:  # noqa
        exc = e
    return store.log[n0:], res, exc


def mutating(ops):
    """The mutating operations that the real transport actually performed."""
    return [o for o in ops if o.mutating and not o.failed]


def torn_lengths(n):
    return sorted({0, 1, n // 2, n - 1} & set(range(0, n)))


def crash_states(scratch, s0, ops, torn=True):
    """Yield (label, snapshot) for every crash point of the mutating ops.

    scratch: a Store used to re-apply operations through the real transport.
    s0: snapshot dict before the operation.
    label: (i, None) = after the first i mutating ops; (i, k) = after i ops plus
    op i torn to k bytes.
    """
    muts = mutating(ops)
    scratch.restore(s0)
    raw = scratch.raw()
    cur = dict(s0)
    yield (0, None), dict(cur)
    for i, op in enumerate(muts):
        if torn and op.kind in NON_ATOMIC and op.data:
            for k in torn_lengths(len(op.data)):
                scratch.restore(cur)
                apply_op(scratch.raw(), op, op.data[:k])
                yield (i, k), scratch.walk()
            scratch.restore(cur)
            raw = scratch.raw()
        apply_op(raw, op)
        cur = scratch.walk()
        yield (i + 1, None), dict(cur)


class FaultAt:
    """store.hook that raises InjectedFault at the k-th (1-based) matching op."""

    def __init__(self, k, match=None, exc=None):
        self.k = k
        self.n = 0
        self.match = match
        self.fired = None
        self.exc = exc

    def __call__(self, op):
        if self.match is not None and not self.match(op):
            return
        self.n += 1
        if self.n == self.k and self.fired is None:
            self.fired = op
            raise (self.exc(op) if self.exc else InjectedFault(op))


class FaultsAt:
    """Raises at each of the given 1-based positions (for fault pairs)."""

    def __init__(self, ks, match=None):
        self.ks = set(ks)
        self.n = 0
        self.match = match
        self.fired = []

    def __call__(self, op):
        if self.match is not None and not self.match(op):
            return
        self.n += 1
        if self.n in self.ks:
            self.fired.append(op)
            raise InjectedFault(op)


def count_ops(store, fn, match=None):
    """Number of (matching) ops fn() performs fault-free (store must be restored by the caller)."""
    c = FaultAt(-1, match)
    old = store.hook
    store.hook = c
    try:
        fn()
    finally:
        store.hook = old
    return c.n
