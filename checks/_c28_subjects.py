"""Subjects for C28: real lockable objects + recorders of their underlying real lock.

Every subject offers
  fresh()        -> a new object graph in the unlocked state (per sequence)
  do(op)         -> ("ok", value) | ("refused", exception class name) | ("crash", "Class:where")
  observe()      -> dict of public observations (is_locked, physical lock presence, api status, aux)
  events         -> list of (method, "ok"|"raise") calls on the underlying real lock since last clear
  cleanup()      -> make the physical state clean again (bypassing the code under test)
"""
import os
import shutil
import traceback

REFUSALS = ("ReadOnlyError", "LockNotHeld", "TokenMismatch", "LockContention", "TokenLockingNotSupported")

BAD_TOKEN = b"not-a-token-zzzzzzzz"


def _where(e):
    """innermost frame inside the repository under test"""
    from mc import boot
    tb = traceback.extract_tb(e.__traceback__)
    for fr in reversed(tb):
        if fr.filename.startswith(boot.REPO):
            return "%s:%s" % (os.path.basename(fr.filename), fr.name)
    return "?"


def classify(fn):
    try:
        return ("ok", fn())
    except Exception as e:  # noqa
        n = type(e).__name__
        if n in REFUSALS:
            return ("refused", n)
        return ("crash", "%s:%s" % (n, _where(e)))


def instrument(lock, events):
    """Record acquire/release calls on a (python) real lock instance."""
    for name in ("lock_write", "lock_read", "unlock"):
        orig = getattr(lock, name)

        def w(*a, _o=orig, _n=name, **k):
            try:
                r = _o(*a, **k)
            except BaseException:
                events.append((_n, "raise"))
                raise
            events.append((_n, "ok"))
            return r
        setattr(lock, name, w)


# --------------------------------------------------------------------------
class FakeRealLock:
    """A non-reentrant recording lock with LockDir-like token semantics.

    ext_token: the lock is physically held by somebody else under that token for
    the whole run (it can be adopted with the token, never taken without)."""

    def __init__(self, events, ext_token=None):
        self.events = events
        self.ext = ext_token
        self.held = None          # None | "r" | "w"
        self.via_token = False
        self.token = None
        self.n = 0
        self.anomalies = []

    def _physical_token(self):
        if self.ext is not None:
            return self.ext
        if self.held == "w" and not self.via_token:
            return self.token
        return None

    def lock_read(self):
        from breezy import errors
        if self.held:
            self.anomalies.append("real lock_read while real lock already held")
            self.events.append(("lock_read", "raise"))
            raise errors.LockContention(self)
        self.held = "r"
        self.events.append(("lock_read", "ok"))

    def lock_write(self, token=None):
        from breezy import errors
        if self.held:
            self.anomalies.append("real lock_write while real lock already held")
            self.events.append(("lock_write", "raise"))
            raise errors.LockContention(self)
        if token is not None:
            try:
                self.validate_token(token)
            except errors.TokenMismatch:
                self.events.append(("lock_write", "raise"))
                raise
            self.held = "w"
            self.via_token = True
            self.token = token
            self.events.append(("lock_write", "ok"))
            return token
        if self.ext is not None:
            self.events.append(("lock_write", "raise"))
            raise errors.LockContention(self)
        self.n += 1
        self.token = b"fake-token-%d" % self.n
        self.held = "w"
        self.via_token = False
        self.events.append(("lock_write", "ok"))
        return self.token

    def validate_token(self, token):
        from breezy import errors
        if token is not None and token != self._physical_token():
            raise errors.TokenMismatch(token, self._physical_token())

    def unlock(self):
        from breezy import errors
        if not self.held:
            self.anomalies.append("real unlock while real lock not held")
            self.events.append(("unlock", "raise"))
            raise errors.LockNotHeld(self)
        self.held = None
        self.via_token = False
        self.events.append(("unlock", "ok"))

    def peek(self):
        return self._physical_token()

    def physical(self):
        return self.ext is not None or (self.held == "w")


class Subject:
    name = "?"
    alphabet = ("R", "W", "Wg", "Wb", "U")
    write_is_physical = True      # a first write lock takes a physical lock
    ext = False

    def __init__(self, world, ext=False):
        self.world = world
        self.ext = ext
        self.events = []
        self.obj = None
        self.good = None          # the token op "Wg" passes

    # -- to be provided
    def fresh(self):
        raise NotImplementedError

    def _lock_read(self):
        return self.obj.lock_read()

    def _lock_write(self, token=None):
        if token is None:
            return self.obj.lock_write()
        return self.obj.lock_write(token=token)

    def _unlock(self):
        return self.obj.unlock()

    def _token_of(self, value):
        return value

    def do(self, op):
        if op == "R":
            return classify(self._lock_read)
        if op == "W":
            r = classify(self._lock_write)
            if r[0] == "ok" and not self.ext:
                t = self._token_of(r[1])
                if t is not None:
                    self.good = t
            return r
        if op == "Wg":
            tok = self.good if self.good is not None else b"never-issued-token"
            return classify(lambda: self._lock_write(tok))
        if op == "Wb":
            return classify(lambda: self._lock_write(BAD_TOKEN))
        if op == "U":
            return classify(self._unlock)
        if op == "T":
            return classify(self.obj.lock_tree_write)
        raise ValueError(op)


class CountedSubject(Subject):
    name = "counted_lock"

    def fresh(self):
        from breezy.counted_lock import CountedLock
        self.events = []
        self.real = FakeRealLock(self.events, ext_token=b"ext-token" if self.ext else None)
        self.obj = CountedLock(self.real)
        self.good = b"ext-token" if self.ext else None

    def observe(self):
        return {"is_locked": bool(self.obj.is_locked()),
                "physical": self.real.physical(),
                "api_physical": bool(self.obj.get_physical_lock_status()),
                "real_held": self.real.held,
                "ext_nonce_intact": self.real.ext == (b"ext-token" if self.ext else None),
                "anomalies": tuple(self.real.anomalies)}

    def cleanup(self):
        pass


class _StoreSubject(Subject):
    """Objects whose LockDir lives in the per-worker vfs store."""
    root = None               # directory of the object in the store ("x" appended in the ext config)
    lock_rel = None           # lock directory below it
    other_rel = ()            # lock dirs that must never be physically held

    def __init__(self, world, ext=False):
        super().__init__(world, ext)
        self.dir = self.root + ("x" if ext else "")
        self.lock_path = "/%s/%s" % (self.dir, self.lock_rel)
        self.other_locks = tuple("/%s/%s" % (self.dir, r) for r in self.other_rel)

    def _raw(self):
        r = self.world.cache.get("raw")
        if r is None:
            r = self.world.cache["raw"] = self.world.store.raw()
        return r

    def _held(self, p):
        return self._raw().has(p.lstrip("/") + "/held")

    def _nonce(self, p):
        from dromedary import errors as te
        try:
            data = self._raw().get_bytes(p.lstrip("/") + "/held/info")
        except te.NoSuchFile:
            return None
        for line in data.splitlines():
            if line.startswith(b"nonce:"):
                return line.split(b":", 1)[1].strip()
        return b"?"

    def setup_ext(self):
        """Somebody else (another LockDir object) holds the physical lock for the whole run."""
        from breezy.lockdir import LockDir
        w = self.world
        key = ("ext", self.lock_path)
        if key not in w.cache or self._nonce(self.lock_path) != w.cache[key]:
            self.cleanup_physical()
            parent, name = self.lock_path.rstrip("/").rsplit("/", 1)
            ld = LockDir(w.store.transport(parent.lstrip("/")), name)
            w.cache[key] = ld.lock_write()
        self.good = w.cache[key]

    def cleanup_physical(self):
        t = self._raw()
        for p in (self.lock_path,) + tuple(self.other_locks):
            p = p.lstrip("/")
            if t.has(p + "/held"):
                t.delete_tree(p + "/held")

    def cleanup(self):
        if self.ext:
            return
        self.cleanup_physical()

    def base_observe(self):
        o = {"physical": self._held(self.lock_path)}
        if self.ext:
            o["ext_nonce_intact"] = self._nonce(self.lock_path) == self.good
        for p in self.other_locks:
            o["other:" + p] = self._held(p)
        # no junk left in the lock directory (pending / releasing dirs)
        names = self._raw().list_dir(self.lock_path.lstrip("/"))
        o["junk"] = tuple(sorted(n for n in names if n != "held"))
        return o


class LockableSubject(_StoreSubject):
    name = "lockable_files"
    root = "lf"
    lock_rel = "lock"

    def fresh(self):
        from breezy.bzr.lockable_files import LockableFiles
        from breezy.lockdir import LockDir
        self.events = []
        self.good = None
        if self.ext:
            self.setup_ext()
        self.obj = LockableFiles(self.world.store.transport(self.dir), "lock", LockDir)
        instrument(self.obj._lock, self.events)

    def observe(self):
        o = self.base_observe()
        o["is_locked"] = bool(self.obj.is_locked())
        o["api_physical"] = bool(self.obj.get_physical_lock_status())
        return o


class KnitRepoSubject(_StoreSubject):
    """A knit-format repository: Repository.lock_write goes to its control files (a real LockDir)."""
    name = "knit_repository"
    root = "k"
    lock_rel = ".bzr/repository/lock"

    def fresh(self):
        from breezy.controldir import ControlDir
        self.events = []
        self.good = None
        if self.ext:
            self.setup_ext()
        self.obj = ControlDir.open_from_transport(self.world.store.transport(self.dir)).open_repository()
        instrument(self.obj.control_files._lock, self.events)

    def _token_of(self, value):
        return value.repository_token

    def observe(self):
        o = self.base_observe()
        o["is_locked"] = bool(self.obj.is_locked())
        o["is_write_locked"] = bool(self.obj.is_write_locked())
        o["api_physical"] = bool(self.obj.get_physical_lock_status())
        return o


class PackRepoSubject(_StoreSubject):
    """2a pack repository: lock_write is a logical lock only (the names lock is taken around
    pack-names updates, not by lock_write); read locks go to the control files."""
    name = "pack_repository"
    root = "b"
    lock_rel = ".bzr/repository/lock"
    write_is_physical = False

    def fresh(self):
        from breezy.controldir import ControlDir
        self.events = []
        self.good = None
        self.obj = ControlDir.open_from_transport(self.world.store.transport(self.dir)).open_repository()
        instrument(self.obj.control_files._lock, self.events)

    def _token_of(self, value):
        return value.repository_token

    def observe(self):
        o = self.base_observe()
        o["is_locked"] = bool(self.obj.is_locked())
        o["is_write_locked"] = bool(self.obj.is_write_locked())
        o["api_physical"] = bool(self.obj.get_physical_lock_status())
        return o


class BranchSubject(_StoreSubject):
    name = "branch"
    root = "b"
    lock_rel = ".bzr/branch/lock"
    other_rel = (".bzr/repository/lock",)

    def fresh(self):
        from breezy.branch import Branch
        self.events = []
        self.good = None
        if self.ext:
            self.setup_ext()
        self.obj = Branch.open_from_transport(self.world.store.transport(self.dir))
        instrument(self.obj.control_files._lock, self.events)

    def _token_of(self, value):
        return value.token

    def observe(self):
        o = self.base_observe()
        o["is_locked"] = bool(self.obj.is_locked())
        o["api_physical"] = bool(self.obj.get_physical_lock_status())
        o["aux_repo_locked"] = bool(self.obj.repository.is_locked())
        o["peek_mode"] = self.obj.peek_lock_mode()
        return o


class TreeSubject(Subject):
    """Dirstate working tree on /dev/shm; T = lock_tree_write."""
    name = "working_tree"
    alphabet = ("R", "W", "T", "U")

    def fresh(self):
        from breezy.controldir import ControlDir
        self.events = []
        self.good = None
        self.obj = ControlDir.open_from_transport(self.world.tree_transport).open_workingtree()
        instrument(self.obj._control_files._lock, self.events)

    def _p(self, rel):
        return os.path.isdir(os.path.join(self.world.tree_dir, ".bzr", rel, "lock", "held"))

    def observe(self):
        junk = []
        for rel in ("checkout", "branch", "repository"):
            d = os.path.join(self.world.tree_dir, ".bzr", rel, "lock")
            junk.extend(rel + "/" + n for n in sorted(os.listdir(d)) if n != "held")
        return {"is_locked": bool(self.obj.is_locked()),
                "physical": self._p("checkout"),
                "api_physical": bool(self.obj.get_physical_lock_status()),
                "branch_physical": self._p("branch"),
                "other:repository": self._p("repository"),
                "aux_branch_locked": bool(self.obj.branch.is_locked()),
                "aux_repo_locked": bool(self.obj.branch.repository.is_locked()),
                "branch_mode": self.obj.branch.peek_lock_mode(),
                "dirstate_locked": bool(self.obj._dirstate is not None and self.obj._dirstate._lock_token),
                "junk": tuple(junk)}

    def cleanup(self):
        for rel in ("checkout", "branch", "repository"):
            shutil.rmtree(os.path.join(self.world.tree_dir, ".bzr", rel, "lock", "held"), ignore_errors=True)
        d = getattr(self.obj, "_dirstate", None)
        if d is not None and d._lock_token:
            try:
                d.unlock()
            except Exception:
                pass


class World:
    """Per-worker world: a vfs store with a LockableFiles directory, a 2a branch and a knit
    branch; a dirstate tree on /dev/shm."""

    def __init__(self):
        import breezy.lockdir as ld
        from breezy.bzr.lockable_files import LockableFiles
        from breezy.lockdir import LockDir
        from mc import vfs, world, wt
        ld._DEFAULT_TIMEOUT_SECONDS = 0        # contention is refused at once instead of polled
        self.cache = {}
        self.store = vfs.new_store()
        self.store.logging = False
        for d in ("lf", "lfx"):
            t = self.store.transport(d)
            t.ensure_base()
            LockableFiles(t, "lock", LockDir).create_lock()
        for name, fmt in (("b", "2a"), ("k", "knit"), ("bx", "2a"), ("kx", "knit")):
            b = world.make_branch(self.store.transport(name), fmt)
            world.commit_spec(b, b"r0", [], {"a": world.F(b"a-id", b"x\n")})
        tree = wt.make_tree("bzr")
        self.tree_dir = tree.basedir
        from breezy.transport import get_transport_from_path
        self.tree_transport = get_transport_from_path(self.tree_dir)
        with open(os.path.join(self.tree_dir, "a"), "wb") as f:
            f.write(b"x\n")
        tree.add(["a"], ids=[b"a-id"])
        tree.commit("c", rev_id=b"t0", timestamp=1e9, timezone=0, committer="C <c@example.com>")


SUBJECTS = {
    "counted_lock": CountedSubject,
    "lockable_files": LockableSubject,
    "knit_repository": KnitRepoSubject,
    "pack_repository": PackRepoSubject,
    "branch": BranchSubject,
    "working_tree": TreeSubject,
}
