"""C20 - Conflict and merge-hash records persist and resolve faithfully (bzr working trees).

Real 2a working trees on /dev/shm; the tree is re-opened (WorkingTree.open)
between every write and read.

 A  round trip of single conflicts: every conflict of every one of the 10
    registered conflict classes with path / conflict_path / file_id /
    conflict_file_id / action drawn from alphabets of awkward unicode strings
    (spaces, quotes, backslash, colon, newline inside and at the end, carriage
    return, leading tab, empty, non-BMP) - the full product per class;
 B  round trip of every list of <= 2 (quick) / <= 3 (thorough) conflicts over
    a reduced alphabet of 30 conflicts (stanza separation, order, duplicates),
    and add_conflicts on every (stored list, added list) pair of short lists;
 C  selection: every list of <= 2/3 conflicts over a 12-conflict alphabet on a
    tree with versioned paths x every subset of <= 2 of 7 paths x recurse x
    ignore_misses through ConflictList.select_conflicts, and through
    breezy.conflicts.resolve(...) + reopen (also paths=None = resolve all);
 D  set_merge_modified / merge_modified: every assignment of {absent, current
    sha1, stale sha1} to 5 versioned paths (unicode, spaced and quoted paths,
    unicode file id) plus an unversioned path, reopened, then again after
    one file is edited.

Oracle: read-back equals what was stored field by field (class, path,
conflict_path, file_id, conflict_file_id, action; compared by the harness, not
by Conflict.__eq__), in order; resolve keeps exactly the not-selected
conflicts in order, where "selected" is the documented rule (path or
conflict_path named, or - with recursion - inside a named path, or file id /
conflict file id belonging to a named path); merge_modified returns exactly
the stored hashes of versioned files whose text still has that hash.
"""
import contextlib
import hashlib
import io
import itertools
import os
import re
import traceback

from mc import boot, par, wt
from mc.evidence import HarnessError

ID = "C20"
LEVEL = "exploration"
TECHNIQUE = "exhaustive small-scope enumeration of conflict lists, selections and merge-hash maps on real working trees with reopen"

SIMPLE = ("TextConflict",)
PATHC = ("ContentsConflict", "PathConflict")
HANDLED = ("UnversionedParent", "MissingParent", "DeletingParent", "NonDirectoryParent")
HANDLEDPATH = ("DuplicateID", "DuplicateEntry", "ParentLoop")

PATHS_Q = ["a", "d/a", "sp ace", "ü", 'q"uote', "a\\b", "n\nl", "a\n", "k: v", "", "a\r"]
PATHS_T = PATHS_Q + [" lead", "trail ", "\ttab", "\U0001F600", "<deleted>", "\n", "a\r\n", "a\n\tb"]
FIDS_Q = [None, b"a-id", "ü-id".encode(), b"id with space", b"x\ny", b""]
FIDS_T = FIDS_Q + [b"a\r", b" lead", b"k: v"]
ACTIONS_Q = ["Moved existing file to", "x\ny", ""]
ACTIONS_T = ACTIONS_Q + ["Created directory", "a\r", "ü: b"]


def mk(spec):
    from breezy.bzr import conflicts as bc
    name, kw = spec
    return getattr(bc, name)(**dict(kw))


def fields(c):
    return (type(c).__name__, c.typestring, c.path, getattr(c, "conflict_path", None), c.file_id,
            getattr(c, "conflict_file_id", None), getattr(c, "action", None))


def spec_fields(spec):
    name, kw = spec
    kw = dict(kw)
    return (name, kw.get("path"), kw.get("conflict_path"), kw.get("file_id"), kw.get("conflict_file_id"), kw.get("action"))


def got_fields(c):
    f = fields(c)
    return (f[0],) + f[2:]


def S(name, **kw):
    return (name, tuple(sorted(kw.items())))


def singles(thorough):
    P = PATHS_T if thorough else PATHS_Q
    Fi = FIDS_T if thorough else FIDS_Q
    A = ACTIONS_T if thorough else ACTIONS_Q
    # the 5-field classes get a smaller alphabet so that the full product stays in budget
    P5 = PATHS_Q if thorough else PATHS_Q[:3] + PATHS_Q[6:8] + PATHS_Q[10:]
    F5 = FIDS_Q if thorough else FIDS_Q[:3] + FIDS_Q[4:5]
    A5 = ACTIONS_Q if thorough else ACTIONS_Q[:2]
    for n in SIMPLE:
        for p in P:
            for f in Fi:
                yield S(n, path=p, file_id=f)
    for n in PATHC:
        for p in P:
            for cp in [None] + P:
                for f in Fi:
                    yield S(n, path=p, conflict_path=cp, file_id=f)
    for n in HANDLED:
        for a in A:
            for p in P:
                for f in Fi:
                    yield S(n, action=a, path=p, file_id=f)
    for n in HANDLEDPATH:
        for a in A5:
            for p in P5:
                for cp in P5:
                    for f in F5:
                        for cf in F5:
                            yield S(n, action=a, path=p, conflict_path=cp, file_id=f, conflict_file_id=cf)


def reduced():
    """30 conflicts: 3 per class."""
    out = []
    for n in SIMPLE:
        out += [S(n, path="a", file_id=b"a-id"), S(n, path="sp ace\n", file_id=None), S(n, path="ü", file_id="ü-id".encode())]
    for n in PATHC:
        out += [S(n, path="a", conflict_path="b", file_id=b"a-id"), S(n, path="n\nl", conflict_path=None, file_id=None),
                S(n, path="<deleted>", conflict_path="d/ü", file_id=b"id with space")]
    for n in HANDLED:
        out += [S(n, action="Created directory", path="d", file_id=b"d-id"), S(n, action="x\ny", path="a\n", file_id=None),
                S(n, action="", path="", file_id=b"")]
    for n in HANDLEDPATH:
        out += [S(n, action="Moved existing file to", path="a.moved", conflict_path="a", file_id=None, conflict_file_id=b"a-id"),
                S(n, action="Cancelled move", path="d/a", conflict_path="k: v", file_id=b"x\ny", conflict_file_id="ü-id".encode()),
                S(n, action="x", path="type: text conflict", conflict_path="\n", file_id=b"1", conflict_file_id=None)]
    return out


# ---- worlds -------------------------------------------------------------------
_W = {}

VERSIONED = [("a", b"a-id"), ("d", b"d-id"), ("d/a", b"da-id"), ("ü", "ü-id".encode()), ("sp ace", b"sp-id"),
             ("q\"uote", b"q-id")]


def world():
    if _W.get("pid") == os.getpid():
        return _W
    _W.clear()
    _W["pid"] = os.getpid()
    root = boot.scratch("c20")
    tree = wt.make_tree("bzr", root)
    os.mkdir(os.path.join(root, "d"))
    for p, fid in VERSIONED:
        if p != "d":
            with open(os.path.join(root, p), "wb") as f:
                f.write(("content of %s\n" % p).encode())
    tree.add([p for p, _ in VERSIONED], ids=[f for _, f in VERSIONED])
    tree.commit("base", rev_id=b"base-1", timestamp=1_000_000_000.0, timezone=0, committer="C <c@example.com>")
    _W.update(root=root)
    return _W


def reopen():
    from breezy.workingtree import WorkingTree
    return WorkingTree.open(world()["root"])


def frame(tb):
    repo = os.path.realpath(boot.REPO) + os.sep
    name = "?"
    for fs in traceback.extract_tb(tb):
        if os.path.realpath(fs.filename).startswith(repo):
            name = "%s:%s" % (os.path.relpath(os.path.realpath(fs.filename), repo), fs.name)
    return name


def describe(specs):
    return [{"class": s[0], **{k: v for k, v in s[1]}} for s in specs]


def cr_only(exp, got):
    """True if got differs from exp only by carriage returns lost at the end of a value or of one of its lines."""
    if len(exp) != len(got):
        return False
    hit = False
    for e, g in zip(exp, got):
        if e[0] != g[0]:
            return False
        for x, y in zip(e[1:], g[1:]):
            if x == y:
                continue
            if x is None or y is None:
                return False
            if isinstance(x, bytes):
                norm = re.sub(rb"\r+(\n|$)", rb"\1", x)
            else:
                norm = re.sub(r"\r+(\n|$)", r"\1", x)
            if norm == y:
                hit = True          # carriage returns directly before a line end (or the end of the value) were dropped
            else:
                return False
    return hit


def compare_lists(acc, what, specs, got, extra=None):
    exp = [spec_fields(s) for s in specs]
    g = [got_fields(c) for c in got]
    if exp == g:
        return True
    if cr_only(exp, g):
        sig = "%s:roundtrip:trailing-CR-lost" % what
    elif len(exp) != len(g):
        sig = "%s:roundtrip:count-differs" % what
    else:
        names = ("class", "path", "conflict_path", "file_id", "conflict_file_id", "action")
        bad = sorted({names[i] for e, x in zip(exp, g) for i in range(6) if e[i] != x[i]})
        sig = "%s:roundtrip:%s-differs" % (what, "+".join(bad))
    d = {"stored": describe(specs), "read_back": [dict(zip(("class", "path", "conflict_path", "file_id", "conflict_file_id", "action"), x)) for x in g]}
    if extra:
        d.update(extra)
    acc.violation(sig, d)
    return False


def store_and_read(acc, what, specs):
    try:
        t = reopen()
        t.set_conflicts([mk(s) for s in specs])
        t2 = reopen()
        got = list(t2.conflicts())
    except Exception as e:  # noqa
        acc.violation("%s:%s:%s" % (what, type(e).__name__, frame(e.__traceback__)), {"stored": describe(specs), "error": str(e)[:300]})
        return None
    return got


def _work_roundtrip(chunk):
    acc = par.Acc()
    for specs in chunk:
        acc.n += 1
        got = store_and_read(acc, "set_conflicts", specs)
        if got is None:
            continue
        compare_lists(acc, "set_conflicts", specs, got)
        if specs:
            k = tuple(spec_fields(s) for s in specs)
            plain = all(all(v is None or isinstance(v, (str, bytes)) and v.isascii() and v.isalnum() for v in sf[1:]) for sf in k)
            if not plain:
                acc.nt(k)
        acc.outcomes.add(len(got))
        acc.sample({"stored": describe(specs)})
    return acc


def _work_add(chunk):
    acc = par.Acc()
    for old, new in chunk:
        acc.n += 1
        try:
            t = reopen()
            t.set_conflicts([mk(s) for s in old])
            t = reopen()
            t.add_conflicts([mk(s) for s in new])
            got = list(reopen().conflicts())
        except Exception as e:  # noqa
            acc.violation("add_conflicts:%s:%s" % (type(e).__name__, frame(e.__traceback__)),
                          {"stored": describe(old), "added": describe(new), "error": str(e)[:300]})
            continue
        exp = {spec_fields(s) for s in old} | {spec_fields(s) for s in new}
        g = [got_fields(c) for c in got]
        if len(g) != len(set(g)) or set(g) != exp:
            acc.violation("add_conflicts:not-the-union", {"stored": describe(old), "added": describe(new), "read_back": g})
        if old and new:
            acc.nt((old, new))
    return acc


# ---- selection ----------------------------------------------------------------
SEL_PATHS = ["a", "d", "d/a", "da", "ü", "nope", ""]


def sel_alphabet():
    return [
        S("TextConflict", path="a", file_id=b"a-id"),
        S("TextConflict", path="d/a", file_id=b"da-id"),
        S("TextConflict", path="da", file_id=None),
        S("TextConflict", path="d/a/b", file_id=None),
        S("TextConflict", path="ü", file_id=None),
        S("ContentsConflict", path="x", conflict_path=None, file_id=None),
        S("PathConflict", path="moved", conflict_path="d/sub/x", file_id=b"d-id"),
        S("PathConflict", path="d", conflict_path="other", file_id=None),
        S("DuplicateEntry", action="Moved existing file to", path="d/a.moved", conflict_path="d/a", file_id=None, conflict_file_id=b"da-id"),
        S("DuplicateEntry", action="Moved existing file to", path="q.moved", conflict_path="q", file_id=None, conflict_file_id="ü-id".encode()),
        S("MissingParent", action="Created directory", path="gone", file_id=b"d-id"),
        S("UnversionedParent", action="Versioned directory", path="dx", file_id=b"unknown-id"),
    ]


def inside(dirpath, path):
    """Reference: path is dirpath or below it (component-wise); '' is the tree root."""
    if dirpath == path or dirpath == "":
        return True
    return path.startswith(dirpath + "/")


def ref_selected(spec, paths, recurse, path2id):
    name, p, cp, fid, cfid, action = spec_fields(spec)
    for x in (p, cp):
        if x is None:
            continue
        if x in paths:
            return True
        if recurse and any(inside(q, x) for q in paths):
            return True
    ids = {path2id[q] for q in paths if path2id.get(q) is not None}
    return any(i is not None and i in ids for i in (fid, cfid))


def _work_select(chunk):
    from breezy import conflicts as gconf
    from breezy.bzr import conflicts as bc
    acc = par.Acc()
    tree = reopen()
    path2id = dict(VERSIONED)
    path2id[""] = tree.path2id("")
    for specs, paths, recurse, ignore_misses, via_resolve in chunk:
        acc.n += 1
        exp_sel = [s for s in specs if ref_selected(s, paths, recurse, path2id)] if paths is not None else list(specs)
        exp_keep = [s for s in specs if s not in exp_sel]
        det = {"conflicts": describe(specs), "paths": paths, "recurse": recurse, "ignore_misses": ignore_misses}
        try:
            with contextlib.redirect_stdout(io.StringIO()):
                if via_resolve:
                    t = reopen()
                    t.set_conflicts([mk(s) for s in specs])
                    t = reopen()
                    before, after = gconf.resolve(t, list(paths) if paths is not None else None, ignore_misses=ignore_misses,
                                                  recursive=recurse, action="done")
                    kept = list(reopen().conflicts())
                    sel = None
                else:
                    cl = bc.ConflictList([mk(s) for s in specs])
                    with tree.lock_read():
                        keep_l, sel_l = cl.select_conflicts(tree, list(paths), ignore_misses, recurse)
                    kept, sel = list(keep_l), list(sel_l)
        except Exception as e:  # noqa
            acc.violation("%s:%s:%s" % ("resolve" if via_resolve else "select_conflicts", type(e).__name__, frame(e.__traceback__)),
                          dict(det, error=str(e)[:300]))
            continue
        what = "resolve" if via_resolve else "select_conflicts"
        g_keep = [got_fields(c) for c in kept]
        e_keep = [spec_fields(s) for s in exp_keep]
        if g_keep != e_keep:
            if len(g_keep) > len(e_keep):
                sig = "%s:selected-conflict-kept" % what
            elif len(g_keep) < len(e_keep):
                sig = "%s:unselected-conflict-removed" % what
            else:
                sig = "%s:kept-list-differs" % what
            acc.violation(sig, dict(det, expected_kept=describe(exp_keep), kept=g_keep))
        if sel is not None and [got_fields(c) for c in sel] != [spec_fields(s) for s in exp_sel]:
            acc.violation("select_conflicts:selected-list-differs", dict(det, expected_selected=describe(exp_sel),
                                                                         selected=[got_fields(c) for c in sel]))
        if via_resolve and (before, after) != (len(specs), len(exp_keep)):
            acc.violation("resolve:wrong-counts-returned", dict(det, returned=[before, after]))
        if exp_sel and exp_keep:
            acc.nt((specs, tuple(paths) if paths is not None else None, recurse))
        acc.outcomes.add((len(exp_sel), len(exp_keep)))
        if exp_sel and exp_keep:
            acc.sample(det)
    return acc


# ---- merge modified --------------------------------------------------------------
MM_PATHS = ["a", "d/a", "ü", "sp ace", "q\"uote"]


def sha(b):
    return hashlib.sha1(b).hexdigest().encode("ascii")


def _work_mm(chunk):
    acc = par.Acc()
    root = world()["root"]
    content = {p: ("content of %s\n" % p).encode() for p in MM_PATHS}
    stale = sha(b"some other text\n")
    for assign, unv, edit in chunk:
        acc.n += 1
        stored = {}
        for p, st in zip(MM_PATHS, assign):
            if st == "cur":
                stored[p] = sha(content[p])
            elif st == "stale":
                stored[p] = stale
        if unv:
            stored["nope"] = stale
        det = {"stored": {k: v.decode() for k, v in stored.items()}, "edited_afterwards": edit}
        try:
            t = reopen()
            t.set_merge_modified(dict(stored))
            got = reopen().merge_modified()
            exp = {p: h for p, h in stored.items() if p in content and h == sha(content[p])}
            got2 = exp2 = None
            if edit is not None:
                with open(os.path.join(root, edit), "wb") as f:
                    f.write(b"edited by the user\n")
                try:
                    got2 = reopen().merge_modified()
                finally:
                    with open(os.path.join(root, edit), "wb") as f:
                        f.write(content[edit])
                exp2 = {p: h for p, h in exp.items() if p != edit}
        except Exception as e:  # noqa
            acc.violation("merge_modified:%s:%s" % (type(e).__name__, frame(e.__traceback__)), dict(det, error=str(e)[:300]))
            continue
        for g, e, tag in ((got, exp, "after-reopen"), (got2, exp2, "after-edit")):
            if e is None or g == e:
                continue
            missing = sorted(set(e) - set(g))
            if missing:
                sig = "merge_modified:recorded-hash-lost:%s" % tag
            elif set(g) - set(e):
                sig = "merge_modified:unexpected-entry:%s" % tag
            else:
                sig = "merge_modified:hash-differs:%s" % tag
            acc.violation(sig, dict(det, expected={k: v.decode() for k, v in e.items()}, read_back={k: v.decode() for k, v in g.items()}))
        if exp:
            acc.nt((assign, unv, edit))
        acc.outcomes.add(tuple(sorted(got)))
    return acc


def run(ctx):
    t = ctx.thorough
    # A singles
    items = [(s,) for s in singles(t)]
    n_single = len(items)
    # B lists over the reduced alphabet
    R = reduced()
    L = ctx.q(2, 3)
    lists = [()]
    for k in range(2, L + 1):
        lists.extend(itertools.product(R, repeat=k))
    items += lists
    a0 = _work_roundtrip(items[:25])
    a1 = _work_roundtrip(items[:25])
    if a0.violations != a1.violations:
        raise HarnessError("C20 round trip not deterministic")
    accA = par.merge(par.pmap(_work_roundtrip, items, seed=ctx.seed))
    # add_conflicts
    R8 = [R[0], R[2], R[3], R[7], R[9], R[13], R[21], R[25]]
    keyed = lambda l: len({(s[0], dict(s[1]).get("path"), dict(s[1]).get("file_id")) for s in l}) == len(l)  # noqa
    olds = [l for k in range(0, 3) for l in itertools.permutations(R8, k)]
    news = [l for k in range(0, ctx.q(1, 2) + 1) for l in itertools.permutations(R8, k)]
    pairs = [(o, n) for o in olds for n in news if keyed(tuple(set(o) | set(n)))]
    accD = par.merge(par.pmap(_work_add, pairs, seed=ctx.seed))
    # C selection
    SA = sel_alphabet()
    CL = ctx.q(2, 3)
    clists = [l for k in range(1, CL + 1) for l in itertools.permutations(SA, k)]
    psets = [tuple(c) for k in range(0, 3) for c in itertools.combinations(SEL_PATHS, k)]
    sel_items = []
    for l in clists:
        for ps in psets:
            for rec in (False, True):
                for im in (False, True):
                    sel_items.append((l, ps, rec, im, False))
    RL = ctx.q(2, 3)
    rpsets = [tuple(c) for k in range(0, ctx.q(1, 2) + 1) for c in itertools.combinations(SEL_PATHS, k)] + [None]
    for l in [x for x in clists if len(x) <= RL]:
        for ps in rpsets:
            for rec in (False, True):
                for im in ((False, True) if ps is not None else (True,)):
                    sel_items.append((l, ps, rec, im, True))
    accC = par.merge(par.pmap(_work_select, sel_items, seed=ctx.seed))
    # D merge modified
    mm = []
    for assign in itertools.product(("absent", "cur", "stale"), repeat=len(MM_PATHS)):
        for unv in (False, True):
            edits = [None] + ([p for p, st in zip(MM_PATHS, assign) if st == "cur"][:ctx.q(1, 5)])
            for e in edits:
                mm.append((assign, unv, e))
    accM = par.merge(par.pmap(_work_mm, mm, seed=ctx.seed))
    best = {}
    for acc in (accA, accD, accC, accM):
        for sig, d in acc.violations:
            k = len(repr(d))
            if sig not in best or k < best[sig][0]:
                best[sig] = (k, d)
    for sig in sorted(best):
        ctx.violation(sig, best[sig][1])
    ctx.assumptions.append("bzr (2a / dirstate) working trees only: git trees keep text conflicts in the index and reject other kinds by design")
    ctx.assumptions.append("'selected' = path or conflict_path named, or inside a named path when recursing, or file id / conflict file id "
                           "of a named versioned path (docstrings of select_conflicts / resolve)")
    return {
        "evaluations": accA.n + accD.n + accC.n + accM.n,
        "roundtrip_single_conflicts": n_single,
        "roundtrip_lists": len(lists),
        "roundtrip_max_list_length": L,
        "add_conflicts_pairs": accD.n,
        "selection_evaluations": accC.n,
        "selection_via_resolve_and_reopen": sum(1 for i in sel_items if i[4]),
        "merge_modified_maps": accM.n,
        "distinct_nontrivial": len(accA.nontrivial) + len(accD.nontrivial) + len(accC.nontrivial) + len(accM.nontrivial),
        "distinct_outcomes": len(accA.outcomes) + len(accC.outcomes) + len(accM.outcomes),
        "rule": "round trips: non-trivial = some field is not plain ascii alphanumeric; add_conflicts: both lists non-empty; "
                "selection: at least one conflict selected and at least one kept; merge hashes: at least one entry expected back",
        "samples": accA.samples[:2] + accC.samples[:2],
        "exhaustive": True,
    }
