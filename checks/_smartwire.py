"""Shared machinery of C29 / C30: smart-protocol message grammar, the real encoders, decoder
harnesses around the real decoders / media, a state snapshot of the decoders and the explicit
state search over byte deliveries (segmentations, short reads).

Nothing here decides a property by itself: the harnesses drive breezy's own classes
(breezy.bzr.smart.protocol / message / medium / request) and report what they decoded; the
oracles compare that with the message *specification* that was encoded.
"""
import _io
import types
from collections import deque

from breezy.bzr.smart import medium as smedium
from breezy.bzr.smart import message, protocol, request, vfs
from dromedary import errors as terrors

from mc.evidence import HarnessError

MARK3 = protocol.MESSAGE_VERSION_THREE
REQ2 = protocol.REQUEST_VERSION_TWO
RESP2 = protocol.RESPONSE_VERSION_TWO

VERB_NOBODY = b"vf.nobody"
VERB_BODY = b"vf.body"

# --------------------------------------------------------------------------------------------
# observation hooks (no behaviour change): every decoder built registers itself, the request
# handler's no-op post_body_error_received is logged, two recording verbs are registered.

LIVE = []            # _StatefulDecoder instances created during the current execution
REC = []             # what the server side request handler / verbs were told, in order
PLAN = {"response": None}
_installed = []


def make_response():
    f = PLAN["response"]
    if f is None:
        return request.SuccessfulSmartServerResponse((b"ok",))
    return f()


class NoBodyVerb(request.SmartServerRequest):
    """Recording verb that answers from its arguments alone."""

    def do(self, *args):
        REC.append(("args", args))
        return make_response()


class BodyVerb(request.SmartServerRequest):
    """Recording verb that wants a body."""

    def do(self, *args):
        REC.append(("args", args))
        return None

    def do_chunk(self, chunk_bytes):
        REC.append(("chunk", chunk_bytes))

    def do_end(self):
        REC.append(("end",))
        return make_response()


def install():
    if _installed:
        return
    _installed.append(1)
    orig_init = protocol._StatefulDecoder.__init__

    def init(self):
        orig_init(self)
        LIVE.append(self)

    protocol._StatefulDecoder.__init__ = init
    orig_pbe = request.SmartServerRequestHandler.post_body_error_received

    def pbe(self, error_args):
        REC.append(("post-body-error", tuple(error_args)))
        return orig_pbe(self, error_args)

    request.SmartServerRequestHandler.post_body_error_received = pbe
    request.request_handlers.register(VERB_NOBODY, NoBodyVerb)
    request.request_handlers.register(VERB_BODY, BodyVerb)


def reset():
    del LIVE[:]
    del REC[:]
    PLAN["response"] = None


# --------------------------------------------------------------------------------------------
# state snapshot

_SKIP = frozenset(["_backing_transport", "_jail_root", "_commands", "_write_func", "_real_write_func",
                   "_request_start_time", "_thread_id", "_medium_request", "_protocol_decoder",
                   "_request", "backing_transport", "_medium", "_root_client_path", "root_client_path",
                   "_client_timeout", "_client_poll_timeout", "_in", "_out", "socket", "_client_info",
                   "hx", "base"])

_OBJ_PREFIXES = ("breezy.bzr.smart.", "checks.")

CONCRETE = [False]    # brute-force cross-check: keep the full fragment list in the key


_ATOMS = frozenset([bytes, int, str, bool, float, type(None)])
_SEQS = frozenset([list, tuple, deque])
_OBJ_OK = {}


def snap(v, memo=None):
    """Hashable canonical value of a decoder / protocol / handler object graph."""
    t = type(v)
    if t in _ATOMS:
        return v
    if t is types.MethodType:
        return v.__name__
    if t in _SEQS:
        return tuple([snap(x, memo) for x in v])
    if t is dict:
        return tuple(sorted([(snap(k, memo), snap(x, memo)) for k, x in v.items()]))
    ok = _OBJ_OK.get(t)
    if ok is None:
        ok = _OBJ_OK[t] = (t.__module__ or "").startswith(_OBJ_PREFIXES)
    if ok:
        if memo is None:
            memo = set()
        if id(v) in memo:
            return ("again", t.__name__)
        memo.add(id(v))
        out = [t.__name__]
        for k, x in v.__dict__.items():
            if k in _SKIP:
                continue
            if k == "_in_buffer_list":
                if CONCRETE[0]:
                    out.append((k, tuple(x)))
                else:
                    # abstraction of the fragment list: the code only ever looks at the length of the
                    # first fragment, at whether there is exactly one fragment, and at the join.
                    out.append((k, len(x[0]) if x else -1, min(len(x), 2), b"".join(x)))
            elif k == "_body_chunks" and x is not None:
                out.append((k, b"".join(x)))      # pieces are joined by do_end; how they were cut is not state
            elif k == "body_stream" and x is not None:
                out.append((k, "stream"))
            else:
                out.append((k, snap(x, memo)))
        return tuple(out)
    if isinstance(v, BaseException):
        return ("exc", t.__name__, str(v))
    if t is _io.BytesIO:
        return ("BytesIO", v.getvalue(), v.tell())
    raise HarnessError("cannot snapshot %r of type %s.%s" % (v, t.__module__, t.__name__))


def abstract_key(key):
    """Map a CONCRETE key to the abstract one (for comparing brute force with the search)."""
    if isinstance(key, tuple):
        if len(key) == 2 and key[0] == "_in_buffer_list" and isinstance(key[1], tuple):
            x = key[1]
            return ("_in_buffer_list", len(x[0]) if x else -1, min(len(x), 2), b"".join(x))
        return tuple(abstract_key(k) for k in key)
    return key


# --------------------------------------------------------------------------------------------
# explicit-state search over delivery sizes

class Stop(BaseException):
    """Ends an execution from inside a read call (state already expanded / pipe would block)."""


class Chooser:
    def __init__(self, prefix, seen=None):
        self.prefix = prefix
        self.trace = []       # (key, maxd, d)
        self.seen = seen
        self.aborted = False
        self.want_keys = False

    def choose(self, keyfn, maxd):
        """keyfn() -> state key; only evaluated beyond the replayed prefix (or when want_keys)."""
        i = len(self.trace)
        if maxd < 1:
            raise HarnessError("choice point without options")
        if i < len(self.prefix):
            d = self.prefix[i]
            if d > maxd:
                raise HarnessError("replay diverged: choice %d > %d at step %d" % (d, maxd, i))
            key = keyfn() if self.want_keys else None
        else:
            key = keyfn()
            if self.seen is not None and key in self.seen:
                self.aborted = True
                raise Stop()
            d = maxd
        self.trace.append((key, maxd, d))
        return d


class Search:
    """Stateless search with a state cache over an execution function run(chooser) -> verdict.

    run must call chooser.choose(state_key, max_d) before every delivery.  Every (state, d) pair
    reachable is executed exactly once on the real code (plus the replayed prefix).
    """

    def __init__(self, run, abort=True, limit=None):
        self.run = run
        self.abort = abort
        self.limit = limit
        self.seen = set()
        self.execs = 0
        self.transitions = 0
        self.verdicts = []
        self.capped = False
        self.maxlen = 0

    def go(self):
        stack = [()]
        while stack:
            prefix = stack.pop()
            if self.limit is not None and self.execs >= self.limit:
                self.capped = True
                break
            ch = Chooser(prefix, self.seen if self.abort else None)
            try:
                verdict = self.run(ch)
            except Stop as stop:
                verdict = stop.args[0] if stop.args else None
            self.execs += 1
            if verdict:
                self.verdicts.append((tuple(t[2] for t in ch.trace), verdict))
            tr = ch.trace
            self.maxlen = max(self.maxlen, len(tr))
            for i in range(len(prefix), len(tr)):
                key, maxd, d = tr[i]
                if key in self.seen:
                    break
                self.seen.add(key)
                self.transitions += maxd
                base = tuple(t[2] for t in tr[:i])
                for alt in range(1, maxd):
                    stack.append(base + (alt,))
        return self


def brute_force(run, n):
    """All 2^(n-1) segmentations of n bytes as explicit cut lists (no state cache)."""
    keys = set()
    verdicts = []
    execs = 0
    for mask in range(1 << (n - 1)):
        sizes = []
        cur = 1
        for b in range(n - 1):
            if mask >> b & 1:
                sizes.append(cur)
                cur = 1
            else:
                cur += 1
        sizes.append(cur)
        ch = Chooser(tuple(sizes))
        ch.want_keys = True
        try:
            v = run(ch)
        except Stop as stop:
            v = stop.args[0] if stop.args else None
        execs += 1
        done = tuple(t[2] for t in ch.trace)
        if done != tuple(sizes)[:len(done)] or (len(done) < len(sizes) and not v):
            raise HarnessError("brute force: executed sizes %r != planned %r" % ([t[2] for t in ch.trace], sizes))
        for key, _m, _d in ch.trace:
            keys.add(key)
        if v:
            verdicts.append((tuple(sizes), v))
    return keys, verdicts, execs


# --------------------------------------------------------------------------------------------
# message specifications and the real encoders
#
# request  = ("req", version, verb, args, kind, payload)
#     kind: none | body (bytes) | readv ([(start, len)..]) | stream ([chunk..]) | stream_err ([chunk..])
# response = ("resp", version, ok, args, kind, payload)
#     kind: none | body (bytes) | stream ([chunk..]) | stream_fail (([chunk..], error args))
#           | stream_exc (([chunk..], path))  [v3: iterator raises NoSuchFile(path)]
#           | error (text) [v3 send_error(SmartProtocolError(text))] | unknown (verb) [v3 send_error]

class StreamBoom(Exception):
    pass


class _Sink:
    """Stands in for a medium request under the client-side encoders: collects the bytes."""

    def __init__(self):
        self.parts = []
        self.finished = False
        self._medium = None

    def accept_bytes(self, b):
        if not isinstance(b, bytes):
            raise HarnessError("encoder wrote %r" % (b,))
        self.parts.append(b)

    def finished_writing(self):
        self.finished = True

    def finished_reading(self):
        pass


def _raising(chunks, exc):
    yield from chunks
    raise exc


def encode_request(spec):
    _t, ver, verb, args, kind, payload = spec[:6]
    sink = _Sink()
    if ver == 3:
        r = protocol.ProtocolThreeRequester(sink)
        r.set_headers({} if "nohdr" in spec[6:] else {b"Software version": b"x"})
    elif ver == 2:
        r = protocol.SmartClientRequestProtocolTwo(sink)
    else:
        r = protocol.SmartClientRequestProtocolOne(sink)
    full = (verb,) + tuple(args)
    if kind == "none":
        r.call(*full)
    elif kind == "body":
        r.call_with_body_bytes(full, payload)
    elif kind == "readv":
        r.call_with_body_readv_array(full, list(payload))
    elif kind == "stream":
        r.call_with_body_stream(full, iter(list(payload)))
    elif kind == "stream_err":
        try:
            r.call_with_body_stream(full, _raising(list(payload), StreamBoom("boom")))
        except StreamBoom:
            pass
        else:
            raise HarnessError("stream error was swallowed by the requester")
    else:
        raise HarnessError(kind)
    if not sink.finished:
        raise HarnessError("encoder did not finish writing")
    return b"".join(sink.parts)


def build_response(spec):
    _t, ver, ok, args, kind, payload = spec[:6]
    cls = request.SuccessfulSmartServerResponse if ok else request.FailedSmartServerResponse
    if kind == "none":
        return cls(tuple(args))
    if kind == "body":
        return cls(tuple(args), payload)
    if kind == "stream":
        return cls(tuple(args), body_stream=iter(list(payload)))
    if kind == "stream_fail":
        chunks, errargs = payload
        return cls(tuple(args), body_stream=iter(list(chunks) + [request.FailedSmartServerResponse(tuple(errargs))]))
    if kind == "stream_exc":
        chunks, path = payload
        return cls(tuple(args), body_stream=_raising(list(chunks), terrors.NoSuchFile(path)))
    raise HarnessError(kind)


def encode_response(spec):
    _t, ver, ok, args, kind, payload = spec[:6]
    out = []
    if ver == 3:
        r = protocol.ProtocolThreeResponder(out.append)
        if "nohdr" in spec[6:]:
            r._headers = {}          # grammar dimension: empty headers dict instead of {Software version}
        if kind == "error":
            r.send_error(terrors.SmartProtocolError(payload))
        elif kind == "unknown":
            r.send_error(terrors.UnknownSmartMethod(payload))
        else:
            r.send_response(build_response(spec))
    else:
        cls = protocol.SmartServerRequestProtocolTwo if ver == 2 else protocol.SmartServerRequestProtocolOne
        cls(None, out.append)._send_response(build_response(spec))
    return b"".join(out)


def encode(spec):
    return encode_request(spec) if spec[0] == "req" else encode_response(spec)


# --------------------------------------------------------------------------------------------
# what the statement says the receiving side must end up with

V1_ERROR_CODES = (b"norepository", b"NoSuchFile", b"FileExists", b"DirectoryNotEmpty", b"ShortReadvError",
                  b"ReadOnlyError", b"nobranch", b"NoSuchRevision", b"LockContention", b"TokenMismatch")


def expected_request(spec):
    """Normalised server-side observation for a request spec."""
    _t, ver, verb, args, kind, payload = spec[:6]
    out = {"args": tuple(args), "ended": 1 if kind != "none" else 0, "post_body_error": None}
    if kind == "none":
        out["body"] = None
    elif kind == "body":
        out["body"] = ("bytes", payload) if ver < 3 else ("chunks", (payload,))
    elif kind == "readv":
        out["body"] = ("offsets", tuple(tuple(p) for p in payload))
    elif kind == "stream":
        out["body"] = ("chunks", tuple(payload))
    elif kind == "stream_err":
        out["body"] = ("chunks", tuple(payload))
        out["post_body_error"] = (b"error",)
        out["ended"] = None          # whether the verb is still run after the client aborted is not the codec's business
    return out


def expected_at_server(spec):
    if spec[2] == VERB_NOBODY and spec[4] != "none":
        return observed_request(spec, [("args", tuple(spec[3]))])      # answered from the arguments alone
    if spec[2] not in (VERB_BODY, VERB_NOBODY):
        return observed_request(spec, [])                              # the verb is never run
    return expected_request(spec)


def observed_request(spec, rec):
    """Normalise REC for comparison with expected_request."""
    _t, ver, verb, args, kind, payload = spec[:6]
    out = {"args": None, "ended": 0, "post_body_error": None, "body": None}
    chunks = []
    order = []
    for ev in rec:
        order.append(ev[0])
        if ev[0] == "args":
            if out["args"] is not None:
                out["args"] = ("twice", out["args"], ev[1])
            else:
                out["args"] = tuple(ev[1])
        elif ev[0] == "chunk":
            if out["ended"]:
                out["body"] = ("chunk-after-end",)
                return out
            chunks.append(ev[1])
        elif ev[0] == "end":
            out["ended"] += 1
        elif ev[0] == "post-body-error":
            out["post_body_error"] = ev[1]
    if order and order[0] != "args":
        out["args"] = ("not-first", out["args"])
    if kind == "stream_err":
        out["ended"] = None
    if kind == "none":
        out["body"] = None if not chunks else ("unexpected", tuple(chunks))
    elif kind == "body" and ver < 3:
        out["body"] = ("bytes", b"".join(chunks))       # v1/v2 hand the body over as it arrives
    elif kind == "readv":
        try:
            offs = vfs.ReadvRequest(None)._deserialise_offsets(b"".join(chunks))
            out["body"] = ("offsets", tuple(tuple(p) for p in offs))
        except Exception as e:  # noqa
            out["body"] = ("undecodable", b"".join(chunks), repr(e))
        if ver == 3 and len(chunks) != 1:
            out["body"] = ("readv-in-pieces", tuple(chunks))
    else:
        out["body"] = ("chunks", tuple(chunks))
    return out


def expected_response(spec):
    """What a client must obtain from a response spec."""
    _t, ver, ok, args, kind, payload = spec[:6]
    out = {"tuple": None, "raised": None, "body": None, "chunks": None, "stream_error": None}
    if kind == "error":
        out["raised"] = ("ErrorFromSmartServer", (b"error", str(terrors.SmartProtocolError(payload)).encode("utf-8")))
        return out
    if kind == "unknown":
        out["raised"] = ("UnknownSmartMethod", payload)
        return out
    if ver < 3 and tuple(args) == (b"error", UNKNOWN_V12_TEXT % b"vf.some-verb"):
        out["raised"] = ("UnknownSmartMethod", b"vf.some-verb")     # how v1/v2 servers say "unknown verb"
        return out
    if ver == 3 and not ok and args and args[0] == b"UnknownMethod":
        out["raised"] = ("UnknownSmartMethod", args[1])
        return out
    if ok:
        out["tuple"] = tuple(args)
    else:
        out["raised"] = ("ErrorFromSmartServer", tuple(args))
        return out
    if kind == "body":
        out["body"] = payload
    elif kind == "stream":
        out["chunks"] = tuple(payload)
    elif kind == "stream_fail":
        out["chunks"] = tuple(payload[0])
        out["stream_error"] = tuple(payload[1])
    elif kind == "stream_exc":
        out["chunks"] = tuple(payload[0])
        out["stream_error"] = (b"NoSuchFile", payload[1].encode("utf-8"))
    return out


def read_response(spec, proto, note=None):
    """Use the client-side response API the way callers do; returns the observation dict."""
    _t, ver, ok, args, kind, payload = spec[:6]
    out = {"tuple": None, "raised": None, "body": None, "chunks": None, "stream_error": None}
    expect_body = kind in ("body", "stream", "stream_fail", "stream_exc")
    if note:
        note("tuple")
    try:
        out["tuple"] = proto.read_response_tuple(expect_body=expect_body)
    except terrors.ErrorFromSmartServer as e:
        out["raised"] = ("ErrorFromSmartServer", tuple(e.error_tuple))
        return out
    except terrors.UnknownSmartMethod as e:
        out["raised"] = ("UnknownSmartMethod", e.verb)
        return out
    if kind == "body":
        if note:
            note("body")
        out["body"] = proto.read_body_bytes()
    elif expect_body:
        chunks = []
        if note:
            note("stream")
        try:
            for c in proto.read_streamed_body():
                if isinstance(c, request.FailedSmartServerResponse):
                    out["stream_error"] = tuple(c.args)      # v2 hands the failure over as the last item
                else:
                    if out["stream_error"] is not None:
                        chunks.append(("after-error", c))
                    else:
                        chunks.append(c)
                if note:
                    note(("stream", len(chunks)))
        except terrors.ErrorFromSmartServer as e:                # v3 raises it at the end
            out["stream_error"] = tuple(e.error_tuple)
        out["chunks"] = tuple(chunks)
    return out


def diff(exp, got):
    return sorted(k for k in exp if exp[k] != got.get(k))


# --------------------------------------------------------------------------------------------
# push targets: objects fed through accept_bytes

_BACKING = []


def backing():
    if not _BACKING:
        from breezy.transport import get_transport
        _BACKING.append(get_transport("memory:///"))
    return _BACKING[0]


DEFAULT_OK = ("resp", 0, True, (b"ok",), "none", None)


def rec_key(rec, ver):
    """REC as part of a state key.  v1/v2 hand a body to the verb in whatever pieces arrived (that is
    allowed: it is one blob), so consecutive pieces are joined; v3 parts are kept as they are."""
    if ver >= 3:
        return snap(rec)
    out = []
    for ev in rec:
        if ev[0] == "chunk" and out and out[-1][0] == "chunk":
            out[-1] = ("chunk", out[-1][1] + ev[1])
        else:
            out.append(tuple(ev))
    return snap(out)


class ChunkedTarget:
    marker_len = 0
    """protocol.ChunkedBodyDecoder fed directly; spec = ("chunked", [chunk..], error args | None)."""
    name = "ChunkedBodyDecoder"

    def __init__(self, spec):
        self.spec = spec
        items = list(spec[1])
        if spec[2] is not None:
            items.append(request.FailedSmartServerResponse(tuple(spec[2])))
        out = []
        protocol._send_stream(iter(items), out.append)
        self.wire = b"".join(out)
        self.expected = {"chunks": tuple(spec[1]), "stream_error": None if spec[2] is None else tuple(spec[2])}

    def new(self):
        reset()
        self.d = protocol.ChunkedBodyDecoder()
        self.got = []

    def accept(self, b):
        self.d.accept_bytes(b)
        while True:
            c = self.d.read_next_chunk()
            if c is None:
                break
            self.got.append(c)

    def state(self):
        return (snap(self.d), snap(self.got))

    def hint(self):
        return self.d.next_read_size()

    def done(self):
        return self.d.finished_reading

    def excess(self):
        return self.d.unused_data

    def observation(self):
        chunks = [c for c in self.got if isinstance(c, bytes)]
        errs = [tuple(c.args) for c in self.got if not isinstance(c, bytes)]
        out = {"chunks": tuple(chunks), "stream_error": errs[0] if errs else None}
        if len(errs) > 1 or (errs and isinstance(self.got[-1], bytes)):
            out["stream_error"] = ("misplaced", tuple(snap(self.got)))
        return out


class LengthTarget:
    marker_len = 0
    """protocol.LengthPrefixedBodyDecoder fed directly; spec = ("length", body)."""
    name = "LengthPrefixedBodyDecoder"

    def __init__(self, spec):
        self.spec = spec
        self.wire = protocol.SmartProtocolBase()._encode_bulk_data(spec[1])
        self.expected = {"body": spec[1]}

    def new(self):
        reset()
        self.d = protocol.LengthPrefixedBodyDecoder()
        self.got = b""

    def accept(self, b):
        self.d.accept_bytes(b)
        self.got += self.d.read_pending_data()

    def state(self):
        return (snap(self.d), self.got)

    def hint(self):
        return self.d.next_read_size()

    def done(self):
        return self.d.finished_reading

    def excess(self):
        return self.d.unused_data

    def observation(self):
        return {"body": self.got}


class ServerPushTarget:
    marker_len = 0
    """The server-side request decoders fed through accept_bytes, the way a server medium does after
    it has read the version line: v1 SmartServerRequestProtocolOne, v2 ...Two (marker line stripped),
    v3 build_server_protocol_three (marker line stripped) = ProtocolThreeDecoder +
    ConventionalRequestHandler + SmartServerRequestHandler + recording verb."""

    def __init__(self, spec):
        self.spec = spec
        ver = spec[1]
        self.name = {1: "server-v1v2", 2: "server-v1v2", 3: "server-v3"}[ver] + tag_of(spec)
        wire = encode_request(spec)
        marker = {1: b"", 2: REQ2, 3: MARK3}[ver]
        if not wire.startswith(marker):
            raise HarnessError("encoded request lacks its version marker")
        self.full_wire = wire
        self.wire = wire[len(marker):]
        self.expected = expected_at_server(spec)
        if spec[2] not in (VERB_BODY, VERB_NOBODY):
            if ver == 3:
                rs = ("resp", 3, False, (b"UnknownMethod", spec[2]), "none", None)
            else:
                rs = ("resp", ver, False, (b"error", b"Generic bzr smart protocol error: bad request '" + spec[2] + b"'"), "none", None)
        else:
            rs = ("resp", ver, True, (b"ok",), "none", None)
        self.expected["response"] = encode_response(rs)

    def new(self):
        reset()
        self.out = []
        ver = self.spec[1]
        if ver == 3:
            self.p = protocol.build_server_protocol_three(backing(), self.out.append, "/")
        elif ver == 2:
            self.p = protocol.SmartServerRequestProtocolTwo(backing(), self.out.append)
        else:
            self.p = protocol.SmartServerRequestProtocolOne(backing(), self.out.append)

    def accept(self, b):
        self.p.accept_bytes(b)

    def state(self):
        return (snap(self.p), rec_key(REC, self.spec[1]), b"".join(self.out))

    def hint(self):
        return self.p.next_read_size()

    def done(self):
        return self.p.next_read_size() == 0

    def excess(self):
        return self.p.unused_data

    def observation(self):
        o = observed_request(self.spec, REC)
        o["response"] = b"".join(self.out)
        return o


class _NoMoreBytes:
    def read_bytes(self, n):
        raise HarnessError("response handler asked the medium for bytes although the decoder was fed the whole message")

    def finished_reading(self):
        pass


class ClientPushTarget:
    marker_len = len(MARK3)     # this decoder expects the version marker: cuts inside it are counted

    """v3 response decoding: ProtocolThreeDecoder(expect_version_marker=True) +
    ConventionalResponseHandler, fed through accept_bytes; results read through the handler API."""
    def __init__(self, spec):
        self.spec = spec
        self.name = "client-v3-push" + tag_of(spec)
        self.marker_cuts = set()
        self.wire = encode_response(spec)
        self.expected = expected_response(spec)

    def new(self):
        reset()
        self.h = message.ConventionalResponseHandler()
        self.d = protocol.ProtocolThreeDecoder(self.h, expect_version_marker=True)
        self.h.setProtoAndMediumRequest(self.d, _NoMoreBytes())

    def accept(self, b):
        self.d.accept_bytes(b)

    def state(self):
        return (snap(self.d),)

    def hint(self):
        return self.d.next_read_size()

    def done(self):
        return self.d.next_read_size() == 0

    def excess(self):
        return self.d.unused_data

    def observation(self):
        return read_response(self.spec, self.h)


def innermost(e):
    """exception class + innermost breezy function, for signatures."""
    import traceback
    tb = traceback.extract_tb(e.__traceback__)
    where = "?"
    for fr in tb:
        if "/breezy/" in fr.filename:
            where = fr.name
    return "%s:%s" % (type(e).__name__, where)


def run_push(t, data, msglen, ch, mode):
    """One execution: deliver data to target t in chooser-chosen pieces.

    mode "any":  every d in 1..remaining (all segmentations); oracle = decoded content + excess.
    mode "hint": d in 1..next_read_size() (short reads of a pipe); oracle = hint <= bytes left in
                 the message, completion exactly at the message end (bytes after it never touched).
    Returns a list of (signature, detail) (empty = fine)."""
    t.new()
    pos = 0
    n = len(data)
    sizes = []
    try:
        while True:
            if pos >= msglen:
                if not t.done():
                    return [("%s:not-complete-at-message-end" % t.name, {"sizes": sizes, "pos": pos})]
                if t.excess() != data[msglen:pos]:
                    return [("%s:excess-bytes-not-preserved" % t.name,
                             {"sizes": sizes, "unused_data": t.excess(), "delivered_after_end": data[msglen:pos]})]
                if mode == "hint" or pos == n:
                    break
            else:
                if t.done():
                    return [("%s:complete-before-message-end" % t.name, {"sizes": sizes, "pos": pos, "message_len": msglen})]
            if mode == "hint":
                h = t.hint()
                if not isinstance(h, int) or h < 1:
                    return [("%s:next_read_size-not-positive-before-message-end" % t.name,
                             {"sizes": sizes, "pos": pos, "next_read_size": h, "left_in_message": msglen - pos})]
                if h > msglen - pos:
                    return [("%s:next_read_size-beyond-message" % t.name,
                             {"sizes": sizes, "pos": pos, "next_read_size": h, "left_in_message": msglen - pos})]
                maxd = h
            else:
                maxd = n - pos
            d = ch.choose(lambda: (pos, t.state()), maxd)
            sizes.append(d)
            t.accept(data[pos:pos + d])
            pos += d
            if pos < t.marker_len:
                t.marker_cuts.add(pos)
        got = t.observation()
    except Stop:
        raise
    except HarnessError:
        raise
    except Exception as e:  # noqa
        return [("%s:exception:%s" % (t.name, innermost(e)), {"sizes": sizes, "error": repr(e)[:300]})]
    bad = diff(t.expected, got)
    if bad:
        return [("%s:decoded-differs:%s" % (t.name, bad[0]),
                 {"sizes": sizes, "expected": {k: t.expected[k] for k in bad}, "got": {k: got.get(k) for k in bad}})]
    return []


# --------------------------------------------------------------------------------------------
# pull targets: the client-side response readers pulling from a client stream medium, and the
# real server media pulling from a pipe / socket object; the explorer decides what every read returns

class _ClientPipeOut:
    def __init__(self, hx):
        self.hx = hx

    def write(self, b):
        self.hx.sent.append(bytes(b))

    def flush(self):
        pass


def scripted_client_medium(hx):
    """The real SmartSimplePipesClientMedium; its readable pipe is the explorer (_In.read -> hx.read)."""
    return smedium.SmartSimplePipesClientMedium(_In(hx), _ClientPipeOut(hx), "fake://c/")


class ClientPullTarget:
    """SmartClientRequestProtocolOne / Two and ConventionalResponseHandler(+ProtocolThreeDecoder)
    reading a response through medium request read_bytes / read_line.

    mode "any":   a read returns any 1..all remaining bytes whatever was asked (socket like)
    mode "count": a read(count) returns 1..count bytes; count > bytes left in the response = the pipe
                  would block for ever."""

    def __init__(self, spec):
        self.spec = spec
        self.ver = spec[1]
        self.name = {1: "client-v1", 2: "client-v2", 3: "client-v3"}[self.ver] + tag_of(spec)
        self.wire = encode_response(spec)
        self.expected = expected_response(spec)
        self.marker_cuts = set()      # read boundaries that fell inside the v3 version marker (coverage)

    def read(self, count):
        n = len(self.data)
        if self.pos >= n:
            self.eof += 1
            return b""
        if self.mode == "count":
            left = self.msglen - self.pos
            if left <= 0:
                raise Stop([("%s:reads-after-message-end" % self.name,
                             {"sizes": list(self.sizes), "asked": count, "phase": snap(self.phase)})])
            if not isinstance(count, int) or count < 1:
                # read(0) returns nothing for ever, read(-N) means "until EOF": either way the reader
                # never gets the rest of its message
                raise Stop([("%s:read-size-not-positive-before-message-end" % self.name,
                             {"sizes": list(self.sizes), "asked": count, "left_in_message": left, "pos": self.pos,
                              "phase": snap(self.phase)})])
            if count > left:
                raise Stop([("%s:asks-for-more-than-left-in-message" % self.name,
                             {"sizes": list(self.sizes), "asked": count, "left_in_message": left, "pos": self.pos,
                              "phase": snap(self.phase)})])
            maxd = count
        else:
            maxd = n - self.pos
        d = self.ch.choose(self.key, maxd)
        b = self.data[self.pos:self.pos + d]
        self.pos += d
        self.sizes.append(d)
        if self.ver == 3 and self.pos < len(MARK3):
            self.marker_cuts.add(self.pos)
        return b

    def key(self):
        return (self.pos, snap(self.phase), self.med._push_back_buffer, tuple([snap(x) for x in LIVE]), snap(self.p))

    def note(self, phase):
        self.phase = phase

    def run(self, data, msglen, ch, mode):
        reset()
        self.data, self.msglen, self.ch, self.mode = data, msglen, ch, mode
        self.pos = 0
        self.eof = 0
        self.sizes = []
        self.sent = []
        self.phase = "start"
        self.med = med = scripted_client_medium(self)
        req = med.get_request()
        if self.ver == 3:
            protocol.ProtocolThreeRequester(req).call(b"vf.some-verb")
            self.p = p = message.ConventionalResponseHandler()
            p.setProtoAndMediumRequest(protocol.ProtocolThreeDecoder(p, expect_version_marker=True), req)
        else:
            cls = protocol.SmartClientRequestProtocolTwo if self.ver == 2 else protocol.SmartClientRequestProtocolOne
            self.p = p = cls(req)
            p.call(b"vf.some-verb")
        try:
            got = read_response(self.spec, p, self.note)
        except (Stop, HarnessError):
            raise
        except Exception as e:  # noqa
            if req._state == "done" and self.pos < msglen and mode == "count":
                # the reader declared the response finished (next_read_size() == 0) in mid message
                return [("%s:finished-before-message-end" % self.name,
                         {"sizes": self.sizes, "pos": self.pos, "message_len": msglen, "then": repr(e)[:200]})]
            return [("%s:exception:%s" % (self.name, innermost(e)), {"sizes": self.sizes, "error": repr(e)[:300]})]
        bad = diff(self.expected, got)
        if bad:
            return [("%s:decoded-differs:%s" % (self.name, bad[0]),
                     {"sizes": self.sizes, "expected": {k: self.expected[k] for k in bad}, "got": {k: got.get(k) for k in bad}})]
        if req._state != "done" or med._current_request is not None:
            return [("%s:response-read-but-request-not-finished" % self.name, {"sizes": self.sizes, "state": req._state})]
        if self.pos < msglen:
            return [("%s:finished-before-message-end" % self.name, {"sizes": self.sizes, "pos": self.pos, "message_len": msglen})]
        if mode == "count":
            if self.pos != msglen or med._push_back_buffer is not None:
                return [("%s:consumed-beyond-message-end" % self.name, {"sizes": self.sizes, "pos": self.pos})]
        return []


class _Out:
    """out_file of the pipe medium; survives close()."""

    def __init__(self):
        self.parts = []
        self.closed_by_server = False

    def write(self, b):
        self.parts.append(bytes(b))

    def flush(self):
        pass

    def close(self):
        self.closed_by_server = True

    def value(self):
        return b"".join(self.parts)


class _In:
    """in_file of the pipe medium: no fileno (so no select), read(n) answered by the explorer."""

    def __init__(self, hx):
        self.hx = hx

    def read(self, n):
        return self.hx.read(n)

    def close(self):
        pass


class _Sock:
    """The socket under SmartServerSocketStreamMedium: recv answered by the explorer."""

    def __init__(self, hx):
        self.hx = hx

    def setblocking(self, flag):
        pass

    def getpeername(self):
        return ("explorer", 0)

    def fileno(self):
        return -1          # select() refuses it with ValueError, which the medium treats as "go and read"

    def recv(self, n):
        return self.hx.read(n)

    def send(self, view):
        b = bytes(view)
        self.hx.out.parts.append(b)
        return len(b)

    def close(self):
        self.hx.out.closed_by_server = True


class _PipeMedium(smedium.SmartServerPipeStreamMedium):
    def terminate_due_to_error(self):
        import sys
        self.hx.terminated = sys.exc_info()[1]
        smedium.SmartServerPipeStreamMedium.terminate_due_to_error(self)

    def _build_protocol(self):
        self.hx.on_build()
        p = smedium.SmartServerPipeStreamMedium._build_protocol(self)
        self.hx.cur = p
        return p


class _SocketMedium(smedium.SmartServerSocketStreamMedium):
    def terminate_due_to_error(self):
        import sys
        self.hx.terminated = sys.exc_info()[1]
        smedium.SmartServerSocketStreamMedium.terminate_due_to_error(self)

    def _build_protocol(self):
        self.hx.on_build()
        p = smedium.SmartServerSocketStreamMedium._build_protocol(self)
        self.hx.cur = p
        return p


FILE_CONTENT = b"0123456789abcdefghij"


class ServerMediumTarget:
    """The real SmartServerPipeStreamMedium / SmartServerSocketStreamMedium .serve() loop over a
    sequence of requests; every read(n) / recv(n) is answered by the explorer.

    mode "count" (pipe): returns 1..n bytes; n > bytes left in the request being read = block for ever.
    mode "any" (socket): returns any 1..all remaining bytes (of all the requests: pipelined).
    specs: request specs, or ("real", version, verb args..., kind, payload, expected response spec)."""

    def __init__(self, specs, kind):
        self.kind = kind
        self.name = ("pipe-medium" if kind == "pipe" else "socket-medium") + "".join(tag_of(x[0]) for x in specs)
        self.specs = specs
        self.wires = [encode_request(s[0]) for s in specs]
        self.ends = []
        tot = 0
        for w in self.wires:
            tot += len(w)
            self.ends.append(tot)
        self.data = b"".join(self.wires)
        self.responses = [encode_response(s[1]) for s in specs]
        self.expected_out = b"".join(self.responses)
        self.expected_rec = []
        for s in specs:
            if s[0][2] in (VERB_BODY, VERB_NOBODY):
                self.expected_rec.append(expected_at_server(s[0]))

    def on_build(self):
        # the serve loop starts to look for the next request: the previous one was reported complete
        self.cur = None
        self.builds.append(self.pos)
        pb = self.med._push_back_buffer
        held = len(pb) if pb else 0
        at = self.pos - held
        if at not in [0] + self.ends:
            raise Stop([("%s:request-reported-complete-off-message-end" % self.name,
                         {"sizes": list(self.sizes), "bytes_consumed": at, "message_ends": self.ends})])

    def read(self, n):
        total = len(self.data)
        if self.pos >= total:
            self.eof += 1
            if self.eof > 4:
                raise Stop([("%s:keeps-reading-at-eof" % self.name, {"sizes": list(self.sizes)})])
            return b""
        if self.mode == "count":
            if self.pos in self.ends:
                k = self.ends.index(self.pos) + 1
                if self.out.value() != b"".join(self.responses[:k]):
                    raise Stop([("%s:reads-on-before-the-request-is-answered" % self.name,
                                 {"sizes": list(self.sizes), "requests_complete": k, "written": self.out.value()})])
            end = [e for e in self.ends if e > self.pos][0]
            left = end - self.pos
            if not isinstance(n, int) or n < 1:
                raise Stop([("%s:read-size-not-positive-before-message-end" % self.name,
                             {"sizes": list(self.sizes), "asked": n, "left_in_request": left, "pos": self.pos,
                              "request": self.ends.index(end)})])
            if n > left:
                raise Stop([("%s:asks-for-more-than-left-in-request" % self.name,
                             {"sizes": list(self.sizes), "asked": n, "left_in_request": left, "pos": self.pos,
                              "request": self.ends.index(end)})])
            maxd = n
        else:
            maxd = total - self.pos
        d = self.ch.choose(self.key, maxd)
        b = self.data[self.pos:self.pos + d]
        self.pos += d
        self.sizes.append(d)
        return b

    def key(self):
        return (self.pos, self.med._push_back_buffer, self.med.finished, len(self.builds),
                None if self.cur is None else snap(self.cur), rec_key(REC, 1), self.out.value())

    def run(self, ch, mode):
        from dromedary.memory import MemoryTransport
        reset()
        self.ch, self.mode = ch, mode
        self.pos = 0
        self.eof = 0
        self.sizes = []
        self.builds = []
        self.cur = None
        self.terminated = None
        self.out = _Out()
        t = MemoryTransport("memory:///")        # private store per execution
        t.put_bytes("f", FILE_CONTENT)
        if self.kind == "pipe":
            self.med = med = _PipeMedium(_In(self), self.out, t, timeout=4.0)
        else:
            self.med = med = _SocketMedium(_Sock(self), t, "/", timeout=4.0)
        med.hx = self
        try:
            med.serve()
        except (Stop, HarnessError):
            raise
        except Exception as e:  # noqa
            return [("%s:exception:%s" % (self.name, innermost(e)), {"sizes": self.sizes, "error": repr(e)[:300]})]
        if self.terminated is not None:
            return [("%s:serve-terminated:%s" % (self.name, innermost(self.terminated)),
                     {"sizes": self.sizes, "error": repr(self.terminated)[:300], "pos": self.pos, "responses_so_far": self.out.value()})]
        got = self.out.value()
        if got != self.expected_out:
            k = 0
            while k < len(self.responses) and got.startswith(b"".join(self.responses[:k + 1])):
                k += 1
            if k < len(self.responses) and got == b"".join(self.responses[:k]):
                return [("%s:following-request-lost" % self.name,
                         {"sizes": self.sizes, "requests_answered": k, "of": len(self.responses), "pos": self.pos})]
            return [("%s:responses-differ" % self.name,
                     {"sizes": self.sizes, "first_wrong_response": k, "expected": self.expected_out, "got": got})]
        if self.pos != len(self.data):
            return [("%s:stopped-serving-early" % self.name, {"sizes": self.sizes, "pos": self.pos})]
        recs = split_rec(REC)
        obs = []
        i = 0
        for s in self.specs:
            if s[0][2] in (VERB_BODY, VERB_NOBODY):
                obs.append(observed_request(s[0], recs[i]) if i < len(recs) else None)
                i += 1
        if obs != self.expected_rec or i != len(recs):
            return [("%s:requests-decoded-differ" % self.name, {"sizes": self.sizes, "expected": self.expected_rec, "got": obs})]
        return []


def split_rec(rec):
    out = []
    for ev in rec:
        if ev[0] == "args":
            out.append([])
        if not out:
            out.append([])
        out[-1].append(ev)
    return out


# --------------------------------------------------------------------------------------------
# the message grammar (shared by C29 and C30)

ALPHA = (b"", b"a", b"\x01", "ü".encode("utf-8"), b"\n")
B0 = b""
B1 = b"x"
B17 = b"done\nEND\nERR\n1\nab"              # 17 bytes: two-digit decimal and hex lengths, looks like trailers
B70 = (b"chunked\nEND\n" + bytes(range(58)))    # 70 bytes, every low byte value incl. \n and \x01
B300 = bytes((i * 7) % 256 for i in range(300))
PAIRS = ((0, 1), (5, 10))
UNKNOWN = b"vf.unknown"
UNKNOWN_V12_TEXT = b"Generic bzr smart protocol error: bad request '%s'"


def tuples(alpha, lo, hi):
    import itertools
    out = []
    for k in range(lo, hi + 1):
        out.extend(itertools.product(alpha, repeat=k))
    return out


def has_separator(args):
    return any(b"\x01" in a or b"\n" in a for a in args)


def tag_of(spec):
    """Input classes whose violations get their own signature."""
    if spec[0] == "req":
        _t, ver, verb, args, kind, payload = spec[:6]
        if ver < 3 and has_separator((verb,) + tuple(args)):
            return "[separator-in-args]"
        if verb == UNKNOWN:
            return "[unknown-verb+body]" if kind != "none" else "[unknown-verb]"
        if verb == VERB_NOBODY and kind != "none":
            return "[answered-before-body]"
        return ""
    if spec[0] == "resp":
        _t, ver, ok, args, kind, payload = spec[:6]
        if ver < 3 and (has_separator(args) or len(args) == 0):
            return "[separator-in-args]"
        if ver == 3 and kind in ("stream_fail", "stream_exc") and not payload[0]:
            return "[stream-error-before-first-chunk]"
    return ""


def chunk_lists(maxlen, sizes):
    return [list(c) for c in tuples(sizes, 0, maxlen)]


def request_specs(thorough):
    """(slice name, spec) for every request message of the grammar."""
    out = []
    argsets = tuples(ALPHA, 0, 2)
    for ver in (1, 2, 3):
        for a in argsets:                                   # A: argument variety
            out.append(("A", ("req", ver, VERB_NOBODY, a, "none", None)))
            out.append(("A", ("req", ver, VERB_BODY, a, "body", B1)))
        bodies = [B0, B17] + ([B70] if thorough else [])
        if thorough and ver < 3:
            bodies.append(B300)
        for b in bodies:                                    # B: body variety
            out.append(("B", ("req", ver, VERB_BODY, (b"a",), "body", b)))
        for p in tuples(PAIRS, 0, 2):
            out.append(("B", ("req", ver, VERB_BODY, (b"a",), "readv", list(p))))
        if thorough:
            out.append(("B", ("req", ver, VERB_BODY, (b"a",), "readv", [(12345678, 90), (0, 0), (7, 65536)])))
        if ver == 3:
            sizes = (B0, B1, B17)
            for cl in chunk_lists(3 if thorough else 2, sizes):
                out.append(("B", ("req", 3, VERB_BODY, (b"a",), "stream", cl)))
                out.append(("B", ("req", 3, VERB_BODY, (b"a",), "stream_err", cl)))
            if thorough:
                out.append(("B", ("req", 3, VERB_BODY, (b"a",), "stream", [B70, B1])))
        out.append(("B", ("req", ver, UNKNOWN, (b"a",), "none", None)))
        out.append(("E", ("req", ver, UNKNOWN, (b"a",), "body", B1)))          # E: early answers
        out.append(("E", ("req", ver, VERB_NOBODY, (b"a",), "body", B1)))
        if ver == 3:
            out.append(("E", ("req", 3, UNKNOWN, (b"a",), "stream", [B1, B0])))
            out.append(("E", ("req", 3, VERB_NOBODY, (b"a",), "stream_err", [B1])))
    return _headers_dimension(out, thorough)


def _headers_dimension(specs, thorough):
    """v3 messages start with a headers dict.  Thorough: always the real one ({Software version: ..}).
    Quick: the empty dict for the whole grammar (the long constant headers part multiplies the
    segmentations of every message by the same factor) plus slice H: real headers for one message of
    every shape."""
    if thorough:
        return specs
    out = []
    seen_shapes = set()
    for sl, spec in specs:
        if spec[1] != 3:
            out.append((sl, spec))
            continue
        out.append((sl, spec + ("nohdr",)))
        if sl == "A" and spec[3] not in ((b"a",), (b"ok",), (b"NoSuchFile",)):
            continue
        p = spec[5]
        n = len(p[0]) if isinstance(p, tuple) else len(p) if isinstance(p, list) else None
        if spec[4] in ("stream", "stream_err", "stream_fail", "stream_exc", "readv") and n != 2:
            continue
        shape = (spec[2], spec[4])
        if shape not in seen_shapes:
            seen_shapes.add(shape)
            out.append(("H", spec))
    return out


def response_specs(thorough):
    out = []
    rest = tuples(ALPHA, 0, 2)
    okargs = [(b"ok",) + r for r in rest] + tuples(ALPHA, 1, 2)
    failargs = [(b"NoSuchFile",) + r for r in rest]
    for ver in (1, 2, 3):
        for a in okargs:                                    # A: argument variety
            out.append(("A", ("resp", ver, True, a, "none", None)))
        for a in okargs[:31]:
            out.append(("A", ("resp", ver, True, a, "body", B1)))
        for a in failargs:
            out.append(("A", ("resp", ver, False, a, "none", None)))
        if ver == 3:
            out.append(("A", ("resp", 3, True, (), "none", None)))
            out.append(("A", ("resp", 3, False, (b"UnknownMethod", b"vf.some-verb"), "none", None)))
        else:
            out.append(("A", ("resp", ver, False, (b"error", UNKNOWN_V12_TEXT % b"vf.some-verb"), "none", None)))
        bodies = [B0, B17] + ([B70, B300] if thorough else [])
        for b in bodies:                                    # B: body variety
            out.append(("B", ("resp", ver, True, (b"ok",), "body", b)))
        if ver >= 2:
            for cl in chunk_lists(3 if thorough else 2, (B0, B1, B17)):
                out.append(("B", ("resp", ver, True, (b"ok",), "stream", cl)))
                out.append(("B", ("resp", ver, True, (b"ok",), "stream_fail", (cl, (b"err", b"\x01\n", b"")))))
                if ver == 3:
                    out.append(("B", ("resp", 3, True, (b"ok",), "stream_exc", (cl, "pü"))))
            if thorough:
                out.append(("B", ("resp", ver, True, (b"ok",), "stream", [B70, B1])))
        if ver == 3:
            out.append(("B", ("resp", 3, True, (), "error", "boom ü")))
            out.append(("B", ("resp", 3, True, (), "unknown", b"vf.some-verb")))
    return _headers_dimension(out, thorough)


def raw_specs(thorough):
    out = []
    for cl in chunk_lists(3, (B0, B1, B17)):
        for err in (None, (b"e",), (b"err", b"\x01\n", b"")):
            out.append(("chunked", cl, err))
    if thorough:
        out.append(("chunked", [B70, B300], None))
    for b in [B0, B1, b"0123456789"[:9], b"0123456789", B17, B70] + ([B300] if thorough else []):
        out.append(("length", b))
    return out


def next_bytes(spec):
    """First 5 bytes of a following message of the same kind."""
    if spec[0] == "req":
        return encode_request(("req", spec[1], b"hello", (), "none", None))[:5]
    if spec[0] == "resp":
        return encode_response(("resp", spec[1], True, (b"ok", b"2"), "none", None))[:5]
    if spec[0] == "chunked":
        return b"chunk"
    return b"12\nab"


def make_push_target(spec):
    if spec[0] == "chunked":
        return ChunkedTarget(spec)
    if spec[0] == "length":
        return LengthTarget(spec)
    if spec[0] == "req":
        return ServerPushTarget(spec)
    return ClientPushTarget(spec)


# --------------------------------------------------------------------------------------------
# work items and their exploration (shared by C29 and C30)
#
# ("push", spec, trailing, mode)            mode any | hint
# ("pull", response spec, trailing, mode)   mode any | count
# ("medium", "pipe"|"socket", ((request spec, response spec), ...), mode)

def response_for(req):
    _t, ver, verb, args, kind, payload = req[:6]
    if verb in (VERB_BODY, VERB_NOBODY):
        return ("resp", ver, True, (b"ok",), "none", None)
    if verb == UNKNOWN:
        if ver == 3:
            return ("resp", 3, False, (b"UnknownMethod", verb), "none", None)
        return ("resp", ver, False, (b"error", UNKNOWN_V12_TEXT % verb), "none", None)
    raise HarnessError("no canned response for %r" % (verb,))


def hello(ver):
    return (("req", ver, b"hello", (), "none", None), ("resp", ver, True, (b"ok", b"2"), "none", None))


def real_verb_scenarios():
    out = []
    for ver in (1, 2, 3):
        out.append(((("req", ver, b"get", (b"f",), "none", None), ("resp", ver, True, (b"ok",), "body", FILE_CONTENT)), hello(ver)))
        out.append(((("req", ver, b"readv", (b"f",), "readv", [(0, 1), (5, 10)]),
                     ("resp", ver, True, (b"readv",), "body", FILE_CONTENT[0:1] + FILE_CONTENT[5:15])), hello(ver)))
        out.append(((("req", ver, b"put", (b"g", b""), "body", B17), ("resp", ver, True, (b"ok",), "none", None)),
                    (("req", ver, b"get", (b"g",), "none", None), ("resp", ver, True, (b"ok",), "body", B17))))
        out.append(((("req", ver, b"has", (b"f",), "none", None), ("resp", ver, True, (b"yes",), "none", None)),
                    (("req", ver, b"has", (b"nope",), "none", None), ("resp", ver, True, (b"no",), "none", None)),
                    hello(ver)))
        out.append(((("req", ver, b"get", (b"nope",), "none", None), ("resp", ver, False, (b"NoSuchFile", b"./nope"), "none", None)),
                    hello(3 if ver < 3 else 1)))
    return out


def make_run(item):
    """-> (run(chooser) -> verdict, wire length, description)."""
    kind = item[0]
    if kind == "push":
        _k, spec, trailing, mode = item
        t = make_push_target(spec)
        data = t.wire + trailing
        n = len(t.wire)
        return (lambda ch: run_push(t, data, n, ch, mode)), len(data), t
    if kind == "pull":
        _k, spec, trailing, mode = item
        t = ClientPullTarget(spec)
        data = t.wire + trailing
        n = len(t.wire)
        return (lambda ch: t.run(data, n, ch, mode)), len(data), t
    if kind == "medium":
        _k, mkind, specs, mode = item
        t = ServerMediumTarget(specs, mkind)
        return (lambda ch: t.run(ch, mode)), len(t.data), t
    raise HarnessError(kind)


def explore_item(item, acc, limit=None):
    """Full state search of one item; folds the numbers and the smallest violation per signature into acc."""
    run, n, t = make_run(item)
    s = Search(run, limit=limit).go()
    acc.n += s.execs
    acc.count("states", len(s.seen))
    acc.count("transitions", s.transitions)
    acc.count("items")
    acc.count("items:%s:%s" % (item[0], item[-1]))
    acc.count("execs:%s:%s" % (item[0], item[-1]), s.execs)
    acc.count("bytes", n)
    if s.capped:
        acc.count("capped")
    if n >= 2:
        acc.nt(repr(item))
    acc.outcomes.add(outcome_class(item, t))
    mc = getattr(t, "marker_cuts", None)
    if mc is not None and (item[0] == "push" or t.ver == 3):
        acc.count("v3_client_items")
        if len(mc) == len(MARK3) - 1:
            acc.count("v3_client_items_cut_at_every_marker_byte")
    add_violations(acc, s.verdicts, item, n)
    return s


def outcome_class(item, t):
    """What kind of result the receiving side is expected to end up with (for the coverage numbers)."""
    if item[0] == "medium":
        return (item[1],) + tuple(sorted({"v%d:%s:%s" % (x[0][1], x[0][2].decode(), x[0][4]) for x in item[2]}))
    exp = t.expected
    keys = tuple(sorted(k for k, v in exp.items() if v not in (None, 0) and k != "response"))
    extra = ""
    if "raised" in exp and exp["raised"]:
        extra = exp["raised"][0]
    elif isinstance(exp.get("body"), tuple):
        extra = exp["body"][0]
    return (item[0], t.name, keys, extra)


def add_violations(acc, verdicts, item, n):
    """Smallest failing execution per signature of this item (never let one noisy item crowd out others)."""
    found = []
    for sizes, verdict in verdicts:
        for sig, detail in verdict:
            found.append(finish_violation(sig, detail, item, n))
    acc.count("violations_raw", len(found))
    acc.violations.extend(smallest_per_signature(found))


def finish_violation(sig, detail, item, n):
    d = dict(detail)
    d["item"] = repr(item)
    d["wire_len"] = n
    if "[separator-in-args]" in sig:
        # one class: the v1/v2 tuple encoding has no escaping, whatever the symptom is afterwards
        d["symptom"] = sig.split(":", 1)[1]
        sig = sig.split(":", 1)[0] + ":not-round-tripped"
    elif sig.startswith("socket-medium[unknown-verb]:") and "serve-terminated" not in sig:
        # bytes after an unknown v1/v2 verb are dropped; how the loss shows depends on where the recv was cut
        d["symptom"] = sig.split(":", 1)[1]
        sig = "socket-medium[unknown-verb]:following-request-lost"
    return sig, d


def smallest_per_signature(violations):
    best = {}
    for sig, d in violations:
        k = (d.get("wire_len", 0), len(d.get("sizes", ())))
        if sig not in best or k < best[sig][0]:
            best[sig] = (k, d)
    return [(sig, best[sig][1]) for sig in sorted(best)]


def replay_detail(detail):
    """Re-run the execution recorded in a violation detail; returns its verdict list."""
    import ast
    install()
    item = ast.literal_eval(detail["item"])
    run, _n, _t = make_run(item)
    ch = Chooser(tuple(detail.get("sizes", ())))
    try:
        return run(ch) or []
    except Stop as stop:
        return (stop.args[0] if stop.args else []) or []


def exhaustive(run, limit=20000):
    """Every choice sequence, no state cache (cross-check of the search on small inputs).
    Returns keys None when the enumeration was cut off at `limit` executions."""
    keys = set()
    verdicts = []
    execs = 0
    stack = [()]
    while stack:
        prefix = stack.pop()
        ch = Chooser(prefix)
        ch.want_keys = True
        try:
            v = run(ch)
        except Stop as stop:
            v = stop.args[0] if stop.args else None
        execs += 1
        if execs > limit:
            return None, verdicts, execs
        if v:
            verdicts.append((tuple(t[2] for t in ch.trace), v))
        tr = ch.trace
        for key, _m, _d in tr:
            keys.add(key)
        for i in range(len(prefix), len(tr)):
            base = tuple(t[2] for t in tr[:i])
            for alt in range(1, tr[i][1]):
                stack.append(base + (alt,))
    return keys, verdicts, execs
