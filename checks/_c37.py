"""Helpers private to checks/c37.py: git ref layouts written as raw files, an
independent reader of the on-disk ref state, and the sequential register
specification used by the linearisability check.

Nothing here calls the code under test: files are produced and parsed from the
git on-disk format (loose ref file = "<sha>\\n" or "ref: <name>\\n"; packed-refs
= optional "# pack-refs with: ..." header, "<sha> <name>" lines, "^<sha>" peeled
lines; a loose ref shadows a packed one).
"""
import itertools

ROOT = "/g"
SYMREF = b"ref: "
ZERO = b"0" * 40


def sha(c):
    return (c * 40)[:40].encode()


V0, V1, V2, V3 = sha("0a"), sha("1b"), sha("2c"), sha("3d")
VO, VP, VQ = sha("e0"), sha("e1"), sha("e2")     # bystanders: loose, packed, its peeled value
NAMES = {"V0": V0, "V1": V1, "V2": V2, "V3": V3, "ZERO": ZERO, "VO": VO, "VP": VP}
RNAMES = {v: k for k, v in NAMES.items()}

OTHER = b"refs/heads/other"
PKTAG = b"refs/tags/pk"
SYM = b"refs/heads/sym"
HEAD = b"HEAD"

TSTATES = ("absent", "loose", "packed", "both")
KINDS = ("direct", "headsym", "refsym", "chain")


def show(v):
    if v is None:
        return None
    if v in RNAMES:
        return RNAMES[v]
    return v.decode("utf-8", "replace")


def _put_loose(files, name, content):
    parts = name.decode().split("/")
    p = ROOT
    for d in parts[:-1]:
        p += "/" + d
        files[p] = None
    files[p + "/" + parts[-1]] = content + b"\n"


def packed_bytes(packed, header=True):
    """packed: {name: (sha, peeled or None)}"""
    out = [b"# pack-refs with: peeled fully-peeled sorted \n"] if header else []
    for name in sorted(packed):
        s, peeled = packed[name]
        out.append(s + b" " + name + b"\n")
        if peeled and header:
            out.append(b"^" + peeled + b"\n")
    return b"".join(out)


def layout(T, tstate, kind, bystanders, header=True):
    """Files (store.walk() format) of a bare git control dir at ROOT in which the
    target ref T is in state tstate and is reached through `kind`."""
    files = {ROOT: None, ROOT + "/refs": None, ROOT + "/refs/heads": None, ROOT + "/refs/tags": None}
    packed = {}
    if tstate in ("loose", "both"):
        _put_loose(files, T, V1)
    if tstate == "packed":
        packed[T] = (V1, None)
    if tstate == "both":
        packed[T] = (V0, None)
    if kind == "headsym":
        _put_loose(files, HEAD, SYMREF + T)
    elif kind == "refsym":
        _put_loose(files, SYM, SYMREF + T)
    elif kind == "chain":
        _put_loose(files, HEAD, SYMREF + SYM)
        _put_loose(files, SYM, SYMREF + T)
    if bystanders:
        _put_loose(files, OTHER, VO)
        packed[PKTAG] = (VP, VQ)
    if packed:
        files[ROOT + "/packed-refs"] = packed_bytes(packed, header)
    return files


def access_name(T, kind):
    return {"direct": T, "headsym": HEAD, "refsym": SYM, "chain": HEAD}[kind]


# ---- independent reader ------------------------------------------------------

def parse_packed(data):
    refs, peeled = {}, {}
    last = None
    for line in (data or b"").split(b"\n"):
        line = line.rstrip(b"\r")
        if not line or line.startswith(b"#"):
            continue
        if line.startswith(b"^"):
            if last is not None:
                peeled[last] = line[1:]
            continue
        s, _, name = line.partition(b" ")
        refs[name] = s
        last = name
    return refs, peeled


def read_state(files):
    """(raw, peeled, locks, loose_names, packed_names) from a store.walk() dict."""
    loose = {}
    locks = []
    for p, data in files.items():
        if not p.startswith(ROOT + "/"):
            continue
        rel = p[len(ROOT) + 1:]
        if rel.endswith(".lock"):         # a lock file or a lock directory
            locks.append(rel)
            continue
        if data is None:
            continue
        if rel == "HEAD" or rel.startswith("refs/"):
            first = data.split(b"\n", 1)[0].rstrip(b"\r")
            loose[rel.encode()] = first
    packed, peeled = parse_packed(files.get(ROOT + "/packed-refs"))
    raw = dict(packed)
    for k, v in loose.items():
        if v:
            raw[k] = v
    return raw, peeled, sorted(locks), set(loose), set(packed)


def follow(raw, name):
    """(chain of names, value or None)."""
    chain = [name]
    v = raw.get(name)
    depth = 0
    while v is not None and v.startswith(SYMREF):
        name = v[len(SYMREF):]
        chain.append(name)
        v = raw.get(name)
        depth += 1
        if depth > 5:
            return chain, None
    return chain, v


def only_files(files):
    return {p: d for p, d in files.items() if d is not None}


# ---- sequential specification of one ref (a register) ---------------------

def spec_step(r, op):
    """All (result, new register value) pairs the statement allows for `op`
    applied atomically to a ref whose resolved value is r (None = absent).

    op = (kind, expected, new).  kinds: set / remove / add / read.
    expected None = unconditional.  ZERO_SHA as expected value on an absent ref
    is read both ways (dulwich treats it as a match, the statement is silent).
    """
    kind, exp, new = op
    if kind == "read":
        return [(r, r)]
    if kind == "add":
        if r is None:
            return [(True, new)]
        return [(False, r)]
    after = new if kind == "set" else None
    if exp is None:
        return [(True, after)]
    if r is not None and exp == r:
        return [(True, after)]
    if r is None and exp == ZERO:
        return [(True, after), (False, r)]
    return [(False, r)]


def linearisable(init, ops, final):
    """ops: list of dicts with keys op=(kind,exp,new), first, last, result.
    True iff some total order that respects real time (a.last < b.first => a
    before b) makes every result and the final value agree with spec_step."""
    n = len(ops)
    for perm in itertools.permutations(range(n)):
        pos = {k: i for i, k in enumerate(perm)}
        ok = True
        for a in range(n):
            for b in range(n):
                if a != b and ops[a]["last"] < ops[b]["first"] and pos[a] > pos[b]:
                    ok = False
                    break
            if not ok:
                break
        if not ok:
            continue
        if _simulate(init, [ops[k] for k in perm], 0, final):
            return True
    return False


def _simulate(r, seq, i, final):
    if i == len(seq):
        return r == final
    o = seq[i]
    for res, r2 in spec_step(r, o["op"]):
        if res == o["result"] and _simulate(r2, seq, i + 1, final):
            return True
    return False
