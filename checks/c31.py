"""C31 - Smart server clients cannot reach files outside the served directory.

Bounded exhaustive enumeration of raw client path strings against the real server stack:
real ``BzrServerFactory._make_backing_transport`` (chroot + userdir filter, with injected
``~``/``~u``/``~evil`` expansions) over (a) dromedary's real MemoryTransport behind the
logging mc.vfs seam and (b) the real LocalTransport on /dev/shm; every request goes through
the real ``_SmartClient`` -> protocol -> ``SmartServerPipeStreamMedium`` -> dispatcher ->
request handler.  Paths = all words of <= 3 (quick) / 4 (thorough) tokens over
{/ . .. a sub %2F %2E%2E %2e %252F ~ ~u ~evil ü %00 secret secretdir ok} (get: 4 / 5 tokens on
the seam variant; quick restricts root /pub/ and the LocalTransport variant to <= 2 tokens
for most forms, see coverage.bounds.enumerated for the exact table), root_client_path in
{/, /pub/}, x 17 VFS request forms (every VFS verb, both arguments of rename/move), 4
control-directory verbs, and (<= 2 / 3 tokens) every other
registered verb that takes a path.  Each request runs in two worlds that are identical
inside the served directory /srv/pub and differ only outside (A: canary file, canary
branch, canary home; B: nothing).  Oracle, by effect: no canary bytes in any response;
the response is the same in both worlds (an answer may not depend on anything outside);
the region outside is byte-identical afterwards; on the seam variant every path the
transport touched lies inside /srv/pub.  Error responses are always acceptable.  The
"opening a control directory outside the jail during a request fails" clause is checked
with a probe verb (registered in the real verb registry, dispatched by the real handler
with the real jail set-up) that calls the real ``ControlDir.open`` on every URL built from
4 bases x words <= 3 over {.. / secretdir in %2E%2E %2F sub}.
"""
import itertools

from mc import par
from mc.evidence import HarnessError

ID = "C31"
LEVEL = "exploration"
TECHNIQUE = ("exhaustive small-scope enumeration of raw request paths x verbs x root client paths against the "
             "real chroot/userdir server stack on real transports, two-world non-interference + effect oracles")

TOKENS = ("/", ".", "..", "a", "sub", "%2F", "%2E%2E", "%2e", "%252F", "~", "~u", "~evil", "ü", "%00",
          "secret", "secretdir", "ok")
BENIGN = frozenset(["/", ".", "a", "sub", "ok"])
ROOTS = ("/", "/pub/")
BODY = b"NEW-CONTENT-17-b."        # 17 bytes: differs in length from every file of the layout

# ---- request forms --------------------------------------------------------------------------
# name -> (verb, builder(path) -> (args, body), mutating)
_VFS = {
    "has": (b"has", lambda p: ((p,), None), False),
    "get": (b"get", lambda p: ((p,), None), False),
    "stat": (b"stat", lambda p: ((p,), None), False),
    "list_dir": (b"list_dir", lambda p: ((p,), None), False),
    "iter_files_recursive": (b"iter_files_recursive", lambda p: ((p,), None), False),
    "readv": (b"readv", lambda p: ((p,), b"0,4"), False),
    "put": (b"put", lambda p: ((p, b""), BODY), True),
    "put_non_atomic": (b"put_non_atomic", lambda p: ((p, b"", b"F", b""), BODY), True),
    "put_non_atomic+parent": (b"put_non_atomic", lambda p: ((p, b"", b"T", b""), BODY), True),
    "append": (b"append", lambda p: ((p, b""), BODY), True),
    "mkdir": (b"mkdir", lambda p: ((p, b""), None), True),
    "delete": (b"delete", lambda p: ((p,), None), True),
    "rmdir": (b"rmdir", lambda p: ((p,), None), True),
    "rename:from": (b"rename", lambda p: ((p, b"renamed"), None), True),
    "rename:to": (b"rename", lambda p: ((b"ok", p), None), True),
    "move:from": (b"move", lambda p: ((p, b"moved"), None), True),
    "move:to": (b"move", lambda p: ((b"ok", p), None), True),
}
_DEEP = {
    "BzrDir.open_2.1": (b"BzrDir.open_2.1", lambda p: ((p,), None), False),
    "BzrDirFormat.initialize": (b"BzrDirFormat.initialize", lambda p: ((p,), None), True),
    "BzrDir.find_repositoryV3": (b"BzrDir.find_repositoryV3", lambda p: ((p,), None), False),
    "Branch.get_config_file": (b"Branch.get_config_file", lambda p: ((p,), None), False),
}
CHEAP = ("has", "get")
PROBE_VERB = b"Verif.open_controldir"


def _wide_forms():
    """Every other registered verb whose handler takes a client path, with plausible fillers."""
    import inspect

    from breezy import controldir
    from breezy.bzr.smart import request
    fmt = controldir.format_registry.make_controldir("2a")
    net = fmt.network_name()
    repo_net = fmt.repository_format.network_name()
    branch_net = fmt.get_branch_format().network_name()
    special = {
        b"BzrDir.create_branch": lambda p: ((p, branch_net), None),
        b"BzrDir.create_repository": lambda p: ((p, repo_net, b"False"), None),
        b"BzrDir.cloning_metadir": lambda p: ((p, b"False"), None),
        b"Repository.tarball": lambda p: ((p, b"bz2"), None),
        b"Repository.gather_stats": lambda p: ((p, b"", b"no"), None),
        b"Repository.lock_write": lambda p: ((p, b""), None),
        b"Branch.lock_write": lambda p: ((p, b"", b""), None),
        b"Branch.set_tags_bytes": lambda p: ((p, b"", b""), b""),
        b"Branch.put_config_file": lambda p: ((p, b"", b""), b"nick = x\n"),
        b"Branch.set_config_option": lambda p: ((p, b"", b"", b"v", b"k", b""), None),
        b"Branch.set_parent_location": lambda p: ((p, b"", b"", b"../secretdir"), None),
        b"Branch.set_last_revision_info": lambda p: ((p, b"", b"", b"0", b"null:"), None),
        b"Branch.revision_id_to_revno": lambda p: ((p, b"null:"), None),
        b"Repository.has_revision": lambda p: ((p, b"null:"), None),
        b"Repository.get_revision_graph": lambda p: ((p, b""), None),
        b"Repository.get_parent_map": lambda p: ((p, b"null:"), b""),
        b"Repository.set_make_working_trees": lambda p: ((p, b"True"), None),
        b"Repository.get_stream_1.19": lambda p: ((p, repo_net), b"everything"),
        b"get_bundle": lambda p: ((p, b"null:"), None),
    }
    out = {}
    for verb in sorted(request.request_handlers.keys()):
        name = verb.decode()
        if name in _DEEP or verb == PROBE_VERB:
            continue
        cls = request.request_handlers.get(verb)
        params = list(inspect.signature(cls.do).parameters)[1:]
        if verb == b"BzrDirFormat.initialize_ex_1.16":
            out[name + ":path"] = (verb, lambda p: ((net, p, b"False", b"False", b"False", b"", b"", repo_net,
                                                     b"False", b"False"), None), True)
            out[name + ":stacked_on"] = (verb, lambda p: ((net, b"a", b"False", b"False", b"False", p, b".", repo_net,
                                                           b"False", b"False"), None), True)
            continue
        if not params or params[0] not in ("path", "relpath", "rel_from"):
            continue
        if params[0] != "path":
            continue           # the VFS verbs have their own forms
        out[name] = (verb, special.get(verb, lambda p: ((p,), None)), True)
    return out


_FORMS = {}


def forms():
    if not _FORMS:
        for k, v in _VFS.items():
            _FORMS[k] = v + ("vfs",)
        for k, v in _DEEP.items():
            _FORMS[k] = v + ("ctl",)
        for k, v in _wide_forms().items():
            _FORMS[k] = v + ("ctl",)
    return _FORMS


# ---- the probe verb for the "open a control directory outside the jail" clause ---------------
def install_probe_verb():
    from breezy.bzr.smart import request

    if PROBE_VERB in request.request_handlers.keys():
        return
    import logging
    logging.getLogger("brz").setLevel(logging.ERROR)      # "ConnectionReset ... retrying" chatter

    class OpenControlDirProbe(request.SmartServerRequest):
        """Calls the real ControlDir.open(url) while a request is being served."""

        def do(self, url):
            from breezy.controldir import ControlDir
            from dromedary.errors import NoSuchFile
            cd = ControlDir.open(url.decode("utf-8"))
            try:
                marker = cd.root_transport.get_bytes("marker")
            except NoSuchFile:
                marker = b"<no marker>"
            try:
                has_branch = b"branch" if cd.has_branch() else b"nobranch"
            except Exception as e:  # noqa
                has_branch = type(e).__name__.encode()
            return request.SuccessfulSmartServerResponse((b"opened", marker, has_branch))

    import sys
    mod = sys.modules[__name__]
    mod.OpenControlDirProbe = OpenControlDirProbe
    request.request_handlers.register(PROBE_VERB, OpenControlDirProbe, info="read")


# ---- classification of a failing input (the signature names the class, not the input) --------
def path_class(p):
    low = p.lower()
    escsep = "%2f" in low
    dd = ".." in p
    escdot = "%2e" in low
    if escsep and (dd or escdot):
        return "escaped-separator-dotdot"
    if escsep:
        return "escaped-separator"
    if "%25" in low:
        return "double-escaped"
    if "~" in p:
        return "userdir"
    if escdot:
        return "escaped-dotdot"
    if dd:
        return "plain-dotdot"
    if "%00" in p:
        return "nul"
    return "other"


def signature(family, p):
    return "%s:%s-escapes-jail" % (family, path_class(p))


# ---- worker ------------------------------------------------------------------------------------
_WORLDS = {}


def worlds(kind, jail=False, plain=False):
    from ._c31world import World
    k = (kind, jail, plain)
    if k not in _WORLDS:
        install_probe_verb()
        _WORLDS[k] = (World(kind, "A", jail, plain), World(kind, "B", jail, plain))
    return _WORLDS[k]


def words(tokens, length, first=None):
    if first is None:
        for c in itertools.product(tokens, repeat=length):
            yield "".join(c)
    else:
        for c in itertools.product(tokens, repeat=length - 1):
            yield first + "".join(c)


class Tally:
    """Per-worker bookkeeping on top of par.Acc: smallest failing case per (signature, effect)."""

    def __init__(self):
        self.acc = par.Acc()
        self.best = {}          # sig -> effect -> (size key, example)

    def effect(self, sig, effect, key, example):
        d = self.best.setdefault(sig, {})
        if effect not in d or key < d[effect][0]:
            d[effect] = (key, example)
        self.acc.count("effect:%s:%s" % (sig, effect))

    def finish(self):
        for sig, d in self.best.items():
            self.acc.violations.append((sig, {e: list(v) for e, v in d.items()}))
        return self.acc


def run_case(wa, wb, root, fname, form, pstr, tally, ntoks, cmp_full=True):
    """One (root, form, path) case in both worlds, all oracles."""
    verb, build, mutating, family = form
    client_path = pstr if root == "/" else root + pstr
    pb = client_path.encode("utf-8")
    args, body = build(pb)
    acc = tally.acc
    res = []
    for w in (wa, wb):
        out = w.request(root, verb, args, body)
        changed, out_diff, touched = w.settle(mutating)
        res.append((out, changed, out_diff, touched))
    acc.n += 2
    (oa, cha, da, ta), (ob, chb, db, tb) = res
    effects = []
    from ._c31world import leaked
    lk = leaked(oa)
    if lk:
        effects.append(("content-leak", {"canaries_in_response": lk}))
    if cmp_full:
        differs = oa != ob
    else:
        differs = (oa[0], oa[1][:1]) != (ob[0], ob[1][:1])
    if differs:
        effects.append(("answer-depends-on-outside", {"with_outside_objects": _short(oa), "without": _short(ob)}))
    if da or db:
        effects.append(("outside-modified", {"diff_world_A": da[:4], "diff_world_B": db[:4]}))
    if ta or tb:
        effects.append(("touched-outside-path", {"world_A": ta[:4], "world_B": tb[:4]}))
    acc.outcomes.add((fname, oa[0], oa[1][:1]))
    if oa[0] == "ok":
        acc.count("ok")
        acc.count("ok:" + fname)
    if cha:
        acc.count("mutated-inside")
    if effects:
        sig = signature(family, pstr)
        for e, d in effects:
            ex = {"kind": wa.kind, "root_client_path": root, "form": fname, "verb": verb, "path": pstr,
                  "sent_args": list(args), "effect": e, "response": _short(oa)}
            ex.update(d)
            tally.effect(sig, e, (ntoks, len(pstr), pstr, fname, root, wa.kind), ex)
    return oa


def _short(o):
    return [o[0], [x[:120] for x in o[1]], o[2][:120]]


def _is_hostile(pstr_tokens):
    return any(t not in BENIGN for t in pstr_tokens)


def _work(chunk):
    """chunk items: (part, kind, root, form name, length, first token)."""
    tally = Tally()
    acc = tally.acc
    F = forms()
    for part, kind, root, fname, length, first in chunk:
        if part == "jail":
            _jail_item(kind, tally)
            continue
        if part == "plainjail":
            _plain_jail_item(kind, tally, length)
            continue
        wa, wb = worlds(kind)
        form = F[fname]
        full = form[3] == "vfs" or fname in _DEEP
        audit = []
        i = 0
        it = itertools.product(TOKENS, repeat=length if first is None else length - 1)
        for combo in it:
            toks = combo if first is None else (first,) + combo
            pstr = "".join(toks)
            oa = run_case(wa, wb, root, fname, form, pstr, tally, length, cmp_full=full)
            if not BENIGN.issuperset(toks):
                acc.count("nontrivial")
                if oa[0] == "ok":
                    acc.count("nontrivial-ok")
            if i < 3:
                audit.append((pstr, oa))
            i += 1
        # determinism audit: the first cases again
        for pstr, oa in audit:
            again = run_case(wa, wb, root, fname, form, pstr, Tally(), length, cmp_full=full)
            if again != oa:
                raise HarnessError("C31: non-deterministic outcome for %s %r: %r vs %r" % (fname, pstr, oa, again))
        for w in (wa, wb):
            d = w.final_check()
            if d:
                tally.effect("%s:unattributed-escapes-jail" % form[3], "outside-modified",
                             (0, 0, "", fname, root, kind),
                             {"kind": kind, "form": fname, "root_client_path": root, "length": length,
                              "first": first, "diff": d[:6]})
        acc.sample({"kind": kind, "root_client_path": root, "form": fname, "path_tokens": length,
                    "first_token": first, "example_path": pstr, "example_outcome": _short(oa)})
    return tally.finish()


# ---- the jail clause ---------------------------------------------------------------------------
JAIL_TOKENS = ("..", "/", "secretdir", "in", "%2E%2E", "%2F", "sub")


def _jail_item(kind, tally):
    acc = tally.acc
    wa, wb = worlds(kind, jail=True)
    rels = [""] + [w for L in (1, 2, 3) for w in words(JAIL_TOKENS, L)]
    opened_inside = 0
    for bi in range(4):
        for rel in rels:
            res = []
            for w in (wa, wb):
                bases = (w.backing.base, w.bottom.base, w.base_url, w.base_url + "srv/")
                url = bases[bi] + rel
                out = w.request("/", PROBE_VERB, (url.encode("utf-8"),), None)
                changed, out_diff, touched = w.settle(True)
                res.append((out, out_diff, touched, url))
            acc.n += 2
            acc.count("jail-probes")
            (oa, da, ta, url), (ob, db, tb, _) = res
            from ._c31world import leaked
            effects = []
            lk = leaked(oa)
            if lk:
                effects.append(("control-dir-outside-opened", {"canaries_in_response": lk}))
            if (oa[0], oa[1][:3]) != (ob[0], ob[1][:3]):
                effects.append(("answer-depends-on-outside", {"with_outside_objects": _short(oa),
                                                              "without": _short(ob)}))
            if da or db:
                effects.append(("outside-modified", {"diff_world_A": da[:4], "diff_world_B": db[:4]}))
            if ta or tb:
                effects.append(("touched-outside-path", {"world_A": ta[:4], "world_B": tb[:4]}))
            acc.outcomes.add(("jail", oa[0], oa[1][:1]))
            if oa[0] == "ok":
                acc.count("jail-opened")
                if oa[1][1:2] == (b"inside-marker",):
                    opened_inside += 1
            acc.count("nontrivial")
            base_name = ("backing", "bottom-served", "bottom-root", "bottom-srv")[bi]
            if effects:
                sig = "open-controldir:%s-base:%s-escapes-jail" % (
                    "backing" if bi == 0 else "direct", path_class(rel))
                for e, d in effects:
                    ex = {"kind": kind, "base": base_name, "url": wa.canon(url.encode()), "relative": rel,
                          "effect": e, "response": _short(oa)}
                    ex.update(d)
                    tally.effect(sig, e, (len(rel), rel, bi, kind), ex)
    if not opened_inside:
        raise HarnessError("C31: jail probe never opened the inside control directory (vacuous)")
    acc.count("jail-opened-inside", opened_inside)
    for w in (wa, wb):
        d = w.final_check()
        if d:
            tally.effect("open-controldir:unattributed-escapes-jail", "outside-modified", (0, "", 0, kind),
                         {"kind": kind, "diff": d[:6]})
    acc.sample({"kind": kind, "jail_probe_urls": len(rels) * 4, "opened_inside": opened_inside})


# ---- the jail clause with a plain (non-chroot) jail root and name-extending siblings ------------
PLAIN_TOKENS = ("..", "/", "pub-private", "pub.bak", "-private", ".bak", "%2Dprivate", "in", "secretdir")


def _plain_class(rel):
    if any(x in rel for x in ("-private", ".bak", "%2Dprivate")):
        return "sibling-name-prefix"
    return path_class(rel)


def _plain_jail_item(kind, tally, maxlen):
    """ControlDir.open during a request whose jail root is the plain transport of /srv/pub/, at
    4 bases x words over PLAIN_TOKENS, and BzrDirFormat.initialize_ex_1.16 stacked on such URLs."""
    from breezy import controldir

    from ._c31world import leaked
    acc = tally.acc
    wa, wb = worlds(kind, jail=True, plain=True)
    fmt = controldir.format_registry.make_controldir("2a")
    net = fmt.network_name()
    repo_net = fmt.repository_format.network_name()
    rels = [""] + [w for L in range(1, maxlen + 1) for w in words(PLAIN_TOKENS, L)]
    opened_inside = 0
    for mode in ("open", "stack"):
        for bi in range(4):
            for rel in rels:
                res = []
                for w in (wa, wb):
                    served = w.bottom.base                      # .../srv/pub/
                    bases = (served, served[:-1], w.base_url + "srv/", w.base_url)
                    url = bases[bi] + rel
                    if mode == "open":
                        out = w.request("/", PROBE_VERB, (url.encode("utf-8"),), None)
                    else:
                        out = w.request("/", b"BzrDirFormat.initialize_ex_1.16",
                                        (net, b"a", b"False", b"False", b"False", url.encode("utf-8"), b".",
                                         repo_net, b"False", b"False"), None)
                    changed, out_diff, touched = w.settle(True)
                    res.append((out, out_diff, touched, url))
                acc.n += 2
                acc.count("plain-jail-probes")
                acc.count("nontrivial")
                (oa, da, ta, url), (ob, db, tb, _) = res
                effects = []
                lk = leaked(oa)
                if lk:
                    effects.append(("control-dir-outside-opened", {"canaries_in_response": lk}))
                if (oa[0], oa[1][:3] if mode == "open" else oa[1]) != (ob[0], ob[1][:3] if mode == "open" else ob[1]):
                    effects.append(("answer-depends-on-outside", {"with_outside_objects": _short(oa),
                                                                  "without": _short(ob)}))
                if da or db:
                    effects.append(("outside-modified", {"diff_world_A": da[:4], "diff_world_B": db[:4]}))
                if ta or tb:
                    effects.append(("touched-outside-path", {"world_A": ta[:4], "world_B": tb[:4]}))
                acc.outcomes.add(("plainjail-" + mode, oa[0], oa[1][:1]))
                if mode == "open" and oa[0] == "ok":
                    acc.count("plain-jail-opened")
                    if oa[1][1:2] == (b"inside-marker",):
                        opened_inside += 1
                if effects:
                    sig = "%s:plain-jail:%s-escapes-jail" % (
                        "open-controldir" if mode == "open" else "initialize_ex-stacked_on", _plain_class(rel))
                    for e, d in effects:
                        ex = {"kind": kind, "base": ("served", "served-without-slash", "parent", "root")[bi],
                              "url": wa.canon(url.encode()), "relative": rel, "effect": e, "response": _short(oa)}
                        ex.update(d)
                        tally.effect(sig, e, (len(rel), rel, bi, kind), ex)
    if not opened_inside:
        raise HarnessError("C31: plain-jail probe never opened the inside control directory (vacuous)")
    acc.count("plain-jail-opened-inside", opened_inside)
    for w in (wa, wb):
        d = w.final_check()
        if d:
            tally.effect("open-controldir:plain-jail:unattributed-escapes-jail", "outside-modified", (0, "", 0, kind),
                         {"kind": kind, "diff": d[:6]})
    acc.sample({"kind": kind, "plain_jail_probe_urls": len(rels) * 8, "opened_inside": opened_inside})


# ---- driver ------------------------------------------------------------------------------------
def plan(ctx):
    F = forms()
    deep = list(_VFS) + list(_DEEP)
    wide = [k for k in F if k not in _VFS and k not in _DEEP]
    items = []

    def add(kind, root, fnames, maxlen, minlen=1):
        for fname in fnames:
            for L in range(minlen, maxlen + 1):
                if L >= 4:
                    for first in TOKENS:
                        items.append(("main", kind, root, fname, L, first))
                else:
                    items.append(("main", kind, root, fname, L, None))

    if not ctx.thorough:
        table = [
            ("vfs", "/", "all 21 deep forms", deep, 1, 3),
            ("vfs", "/pub/", "all 21 deep forms", deep, 1, 2),
            ("vfs", "/pub/", "get put BzrDir.open_2.1", ["get", "put", "BzrDir.open_2.1"], 3, 3),
            ("local", "/", "all 21 deep forms", deep, 1, 2),
            ("local", "/", "has get list_dir put rename:to BzrDir.open_2.1",
             ["has", "get", "list_dir", "put", "rename:to", "BzrDir.open_2.1"], 3, 3),
            ("vfs", "/", "get", ["get"], 4, 4),
            ("vfs", "/", "all other path-taking verbs", wide, 1, 2),
            ("local", "/", "all other path-taking verbs", wide, 1, 1),
        ]
    else:
        table = [
            ("vfs", "/", "all 21 deep forms", deep, 1, 4),
            ("vfs", "/pub/", "all 21 deep forms", deep, 1, 4),
            ("local", "/", "all 21 deep forms", deep, 1, 4),
            ("local", "/pub/", "all 21 deep forms", deep, 1, 3),
            ("vfs", "/", "get", ["get"], 5, 5),
            ("vfs", "/", "all other path-taking verbs", wide, 1, 3),
            ("vfs", "/pub/", "all other path-taking verbs", wide, 1, 2),
            ("local", "/", "all other path-taking verbs", wide, 1, 2),
        ]
    for kind, root, _label, fnames, lo, hi in table:
        if kind == "vfs":
            # dromedary's (Rust) MemoryTransport.move never returns when a directory is moved into
            # itself ("move / moved"); the form stays in the LocalTransport runs
            fnames = [f for f in fnames if f != "move:from"]
        add(kind, root, fnames, hi, lo)
    for kind in ("vfs", "local"):
        items.append(("jail", kind, "/", None, 0, None))
        items.append(("plainjail", kind, "/", None, ctx.q(2, 3), None))
    bounds = {"deep_forms": deep, "other_forms": len(wide), "tokens": list(TOKENS), "roots": list(ROOTS),
              "enumerated": [{"transport": k, "root_client_path": r, "forms": lab, "path_tokens": "%d..%d" % (lo, hi)}
                             for k, r, lab, _f, lo, hi in table],
              "jail_probe": "4 URL bases x words <= 3 over %r, both transports" % (JAIL_TOKENS,),
              "plain_jail_probe": "jail root = plain transport of the served directory, siblings pub-private/ and "
                                  "pub.bak/: ControlDir.open and initialize_ex_1.16(stacked_on=URL) at 4 bases x "
                                  "words <= %d over %r, both transports" % (ctx.q(2, 3), PLAIN_TOKENS)}
    return items, bounds


def _cpu_seconds():
    import resource
    t = 0.0
    for who in (resource.RUSAGE_SELF, resource.RUSAGE_CHILDREN):
        r = resource.getrusage(who)
        t += r.ru_utime + r.ru_stime
    return round(t, 1)


def _cost(item):
    part, kind, root, fname, L, first = item
    if part in ("jail", "plainjail"):
        return 3000
    n = len(TOKENS) ** (L if first is None else L - 1)
    return n * (3 if kind == "local" else 2) * (1 if fname in _VFS else 2)


def run(ctx):
    install_probe_verb()
    items, bounds = plan(ctx)
    # big items first so the pool balances; the seed permutes the rest (par.pmap shuffles)
    items.sort(key=_cost, reverse=True)
    accs = par.pmap(_work, items, seed=ctx.seed, chunks_per_job=12)
    acc = par.merge(accs)
    best = {}
    for sig, d in acc.violations:
        b = best.setdefault(sig, {})
        for eff, (key, ex) in d.items():
            key = tuple(key)
            if eff not in b or key < b[eff][0]:
                b[eff] = (key, ex)
    for sig in sorted(best):
        effs = best[sig]
        kmin = min(effs.values(), key=lambda v: v[0])
        ctx.violation(sig, {"minimal": kmin[1], "effects": {e: v[1] for e, v in sorted(effs.items())},
                            "occurrences": {e: acc.counters.get("effect:%s:%s" % (sig, e), 0) for e in effs}})
    okc = {k[3:]: v for k, v in acc.counters.items() if k.startswith("ok:")}
    ctx.assumptions.append("the request form move(path, 'moved') is not run on the memory-backed variant: the real "
                           "MemoryTransport.move loops forever when the served directory is moved into itself "
                           "(a hang in dromedary, not a jail matter); it is run on LocalTransport")
    never_ok = sorted(f for f in list(_VFS) + list(_DEEP) if not okc.get(f))
    if never_ok:
        raise HarnessError("C31: forms that never got a successful answer (vacuous): %r" % never_ok)
    ctx.assumptions.append("two worlds differing only outside the served directory; the ancestors /srv and / "
                           "exist in both, so an answer revealing only their existence is visible to the "
                           "path audit (seam variant) but not to the two-world comparison")
    ctx.assumptions.append("dromedary's chroot/pathfilter decorators and Memory/Local transports are the real "
                           "(Rust) ones and are part of the trusted environment; the probe verb used for the "
                           "open-outside-the-jail clause is registered by the harness, everything it calls is real")
    return {
        "evaluations": acc.n,
        "requests_served": acc.n,
        "cases": acc.n // 2,
        "distinct_nontrivial": acc.counters.get("nontrivial", 0),
        "nontrivial_answered_ok": acc.counters.get("nontrivial-ok", 0),
        "rule": "a case = (transport kind, root_client_path, request form, path word); each is enumerated once "
                "and run in two worlds; non-trivial = the path contains a token other than / . a sub ok "
                "(traversal, escapes, userdirs, unicode, NUL, names of outside objects) or is a jail probe URL",
        "answered_ok": acc.counters.get("ok", 0),
        "requests_that_changed_the_served_dir": acc.counters.get("mutated-inside", 0),
        "jail_probes": acc.counters.get("jail-probes", 0),
        "jail_probes_opened": acc.counters.get("jail-opened", 0),
        "jail_probes_opened_inside": acc.counters.get("jail-opened-inside", 0),
        "plain_jail_probes": acc.counters.get("plain-jail-probes", 0),
        "plain_jail_probes_opened_inside": acc.counters.get("plain-jail-opened-inside", 0),
        "distinct_outcome_classes": len(acc.outcomes),
        "ok_per_form": okc,
        "work_items": len(items),
        "cpu_s": _cpu_seconds(),
        "bounds": bounds,
        "samples": acc.samples[:4],
        "exhaustive": True,
    }


def replay(ctx, data):
    """Re-run the minimal failing request of a recorded violation; True if no effect shows."""
    install_probe_verb()
    ex = data["first"]["minimal"]
    tally = Tally()
    if "url" in ex:
        _jail_item(ex["kind"], tally)
    else:
        wa, wb = worlds(ex["kind"])
        form = forms()[ex["form"]]
        run_case(wa, wb, ex["root_client_path"], ex["form"], form, ex["path"], tally, 0,
                 cmp_full=form[3] == "vfs" or ex["form"] in _DEEP)
    for sig, d in tally.best.items():
        for eff, (key, e) in d.items():
            print("  reproduced %s / %s: %r" % (sig, eff, e.get("response")))
    return not tally.best
