"""C17 - Tree merges obey the three-way merge laws.

Bounded exhaustive enumeration of tree triples on real working trees (/dev/shm) merged
through breezy.merge.Merger -> Merge3Merger / WeaveMerger / LCAMerger.  BASE ranges over 4
trees (files, executable files, symlinks, nested and sibling directories); a *variant* is
any distinct well-formed tree reachable from BASE by <= 2 edits (quick: <= 2 on two bases,
<= 1 on the others) from {modify, chmod, rename, move to every other directory, delete
(recursively), file->symlink, file->directory (+child), symlink->file, symlink retarget,
directory->file, add file in every directory, add directory with a file, split (delete a file
and add two files with its exact bytes and mode), copy (add an exact copy next to a file)}.  Laws, each on
every variant V (committed as its own revision on top of BASE):
  other=base : merge(THIS=V, OTHER=BASE)      == V,  no conflicts
  this=base  : merge(THIS=BASE, OTHER=V)      == V,  no conflicts
  same       : merge(THIS=V, OTHER=V' same tree, separate commit) == V, no conflicts
  disjoint   : merge(THIS=V1, OTHER=V2), changed id sets disjoint and the union a tree
               == union, no conflicts   (all ordered pairs of 1-edit variants; thorough adds
               THIS = 2 edits / OTHER = 1 edit on all bases and the swapped order on bases 0, 3)
bzr (2a) trees and git trees as separate sub-runs with separate signatures; merge3 everywhere,
weave and lca on the <=1-edit variants (quick) / all variants (thorough) for the first three
laws and on the single-edit pairs of the disjoint law (quick: base 3 only).  Expected trees come from a pure
model (checks/_c17model.py) and every variant's committed revision tree is compared with
the model before use.  Compared after the merge, from a freshly opened tree: versioned
(path, kind, file id), directory bytes / modes / symlinks, do_merge()'s conflict count and
tree.conflicts().
"""
import os
import shutil

from mc import boot, par, world
from mc import wt as mwt
from mc.evidence import HarnessError

from . import _c17model as model

ID = "C17"
LEVEL = "exploration"
TECHNIQUE = "exhaustive small-scope enumeration of tree triples on real merges, compared with a pure model of the merge laws"

TS = dict(timestamp=1_000_000_000.0, timezone=0, committer="C <c@example.com>")
MERGERS = ("merge3", "weave", "lca")


def merger_class(name):
    from breezy import merge as _merge
    return {"merge3": _merge.Merge3Merger, "weave": _merge.WeaveMerger, "lca": _merge.LCAMerger}[name]


# ---- expected renderings --------------------------------------------------

def expected_meta(tree, fmt):
    rows = []
    for path, kind, _c, _x, fid in model.render(tree):
        if fmt == "git":
            if kind != "directory":
                rows.append((path, kind, None))
        else:
            rows.append((path, kind, fid))
    return sorted(rows)


def expected_disk(tree, fmt):
    out = {}
    for path, kind, c, x, _fid in model.render(tree):
        if kind == "file":
            out[path] = ("file", c, x)
        elif kind == "symlink":
            out[path] = ("link", c)
        elif fmt != "git":
            out[path] = ("dir",)
    return out


def observe(root, fmt):
    from breezy.workingtree import WorkingTree
    snap = mwt.dir_snapshot(root)
    if fmt == "git":
        snap = {p: v for p, v in snap.items() if v != ("dir",)}
    t = WorkingTree.open(root)
    meta = []
    with t.lock_read():
        for path in t.all_versioned_paths():
            if path == "":
                continue
            k = t.stored_kind(path)
            if fmt == "git":
                if k != "directory":
                    meta.append((path, k, None))
            else:
                meta.append((path, k, t.path2id(path)))
        conflicts = sorted("%s:%s" % (type(c).__name__, getattr(c, "path", "")) for c in t.conflicts())
    return sorted(meta), snap, conflicts


def revtree_rows(tree, fmt):
    rows = []
    for path, kind, c, x, fid in world.dump_tree(tree, with_ids=True):
        if fmt == "git":
            if kind != "directory":
                rows.append((path, kind, c, x))
        else:
            rows.append((path, kind, c, x, fid))
    return sorted(rows)


def model_rows(tree, fmt):
    rows = []
    for path, kind, c, x, fid in model.render(tree):
        if fmt == "git":
            if kind != "directory":
                rows.append((path, kind, c, x))
        else:
            rows.append((path, kind, c, x, fid))
    return sorted(rows)


# ---- worlds ---------------------------------------------------------------

class World:
    """One BASE in one format: variants are committed and materialised on demand."""

    def __init__(self, fmt, bi, variants):
        self.fmt, self.bi, self.variants = fmt, bi, variants
        self.base = variants[0][0]
        self.root = boot.scratch("c17")
        self.dirs = {}
        self.revs = {}
        self.n_run = 0
        self.verified = set()
        if fmt == "bzr":
            from mc.vfs import new_store
            self.store = new_store()
            self.R = world.make_branch(self.store.transport("R"), "2a")
            world.commit_spec(self.R, b"r0", [], model.to_spec(self.base))
            self.revs[(0, "v")] = b"r0"
        else:
            p = os.path.join(self.root, "v0")
            t = mwt.make_tree("git", p)
            self._sync(t, p, self.base)
            self.revs[(0, "v")] = t.commit("base", **TS)
            self.dirs[(0, "v")] = p
            # every copy of this directory shares one object store (like git alternates), so
            # merging from a sibling clone does not have to copy objects
            shared = os.path.join(self.root, "objects")
            shutil.move(os.path.join(p, ".git", "objects"), shared)
            os.symlink(shared, os.path.join(p, ".git", "objects"))
        self._check_committed(0, "v")

    # git: make the working directory equal to the model tree and version everything
    def _sync(self, t, p, tree):
        for n in os.listdir(p):
            if n == ".git":
                continue
            q = os.path.join(p, n)
            if os.path.isdir(q) and not os.path.islink(q):
                shutil.rmtree(q)
            else:
                os.unlink(q)
        rows = model.render(tree)
        for path, kind, c, x, _fid in rows:
            q = os.path.join(p, path)
            if kind == "directory":
                os.makedirs(q, exist_ok=True)
            elif kind == "file":
                os.makedirs(os.path.dirname(q), exist_ok=True)
                with open(q, "wb") as f:
                    f.write(c)
                os.chmod(q, 0o755 if x else 0o644)
            else:
                os.makedirs(os.path.dirname(q), exist_ok=True)
                os.symlink(c, q)
        with t.lock_write():
            want = {r[0] for r in rows if r[1] != "directory"}
            have = {q for q in t.all_versioned_paths() if q and t.stored_kind(q) != "directory"}
            gone = sorted(have - want)
            if gone:
                t.remove(gone, keep_files=True, force=True)
            new = sorted(want - have)
            if new:
                t.add(new)

    def rev(self, vi, which="v"):
        key = (vi, which)
        if key in self.revs:
            return self.revs[key]
        tree = self.variants[vi][0]
        if self.fmt == "bzr":
            revid = b"%s%d" % (which.encode(), vi)
            world.commit_spec(self.R, revid, [b"r0"], model.to_spec(tree), message="%s%d" % (which, vi))
            self.revs[key] = revid
        else:
            from breezy.workingtree import WorkingTree
            p = os.path.join(self.root, "%s%d" % (which, vi))
            shutil.copytree(self.dirs[(0, "v")], p, symlinks=True)
            t = WorkingTree.open(p)
            self._sync(t, p, tree)
            self.revs[key] = t.commit("%s%d" % (which, vi), **dict(TS, timestamp=TS["timestamp"] + 1))
            self.dirs[key] = p
            # (seen on git trees: committing a file<->symlink kind change drops the path from the
            # index - not this property's business; re-add so that the THIS tree is clean)
            t = WorkingTree.open(p)
            with t.lock_write():
                have = set(t.all_versioned_paths())
                lost = sorted(r[0] for r in model.render(tree) if r[1] != "directory" and r[0] not in have)
                if lost:
                    t.add(lost)
                    self.repaired = getattr(self, "repaired", 0) + 1
        self._check_committed(vi, which)
        return self.revs[key]

    def branch(self, vi, which="v"):
        from breezy.branch import Branch
        self.rev(vi, which)
        if self.fmt == "bzr":
            return self.R
        return Branch.open(self.dirs[(vi, which)])

    def _check_committed(self, vi, which):
        """The committed revision tree must equal the model (else the harness is wrong)."""
        b = self.R if self.fmt == "bzr" else None
        if b is None:
            from breezy.branch import Branch
            b = Branch.open(self.dirs[(vi, which)])
        rt = b.repository.revision_tree(self.revs[(vi, which)])
        got = revtree_rows(rt, self.fmt)
        want = model_rows(self.variants[vi][0], self.fmt)
        if got != want:
            raise HarnessError("committed variant differs from the model: %s base %d %r\n got %r\nwant %r" % (
                self.fmt, self.bi, self.variants[vi][1], got, want))

    def tree_dir(self, vi):
        """Template directory with a clean working tree at variant vi (git: standalone branch;
        bzr: lightweight checkout of the one branch R that holds every variant revision)."""
        key = (vi, "v")
        self.rev(vi)
        if key not in self.dirs:
            p = os.path.join(self.root, "v%d" % vi)
            self.R.create_checkout(p, revision_id=self.revs[key], lightweight=True)
            self.dirs[key] = p
        return self.dirs[key]

    def fresh_this(self, vi):
        """A fresh copy of the THIS tree; for bzr the branch tip is moved to THIS's revision."""
        src = self.tree_dir(vi)
        if vi not in self.verified:
            # the THIS tree must be the model tree, clean, before any merge is judged
            meta, snap, conflicts = observe(src, self.fmt)
            tree = self.variants[vi][0]
            changes = mwt.changes(mwt.open_tree(src))
            if meta != expected_meta(tree, self.fmt) or snap != expected_disk(tree, self.fmt) or conflicts or changes:
                raise HarnessError("THIS template differs from the model: %s base %d %r: %r %r %r" % (
                    self.fmt, self.bi, self.variants[vi][1], meta, snap, changes))
            self.verified.add(vi)
        dst = os.path.join(self.root, "run")
        if os.path.exists(dst):
            shutil.rmtree(dst)
        shutil.copytree(src, dst, symlinks=True)
        if self.fmt == "bzr":
            rev = self.revs[(vi, "v")]
            if self.R.last_revision() != rev:
                with self.R.lock_write():
                    self.R.set_last_revision_info(1 if vi == 0 else 2, rev)
        return dst

    def drop(self, vi):
        """Free the template of a variant that is not needed any more."""
        for which in ("v", "w"):
            p = self.dirs.get((vi, which))
            if p and vi != 0:
                shutil.rmtree(p, ignore_errors=True)
                del self.dirs[(vi, which)]
                if self.fmt == "git":
                    del self.revs[(vi, which)]

    def close(self):
        shutil.rmtree(self.root, ignore_errors=True)
        if self.fmt == "bzr":
            self.store.close()


def innermost_repo_frame(exc):
    import traceback
    fr = None
    for f in traceback.extract_tb(exc.__traceback__):
        if f.filename.startswith(boot.REPO + os.sep):
            fr = f
    return "%s:%s" % (os.path.relpath(fr.filename, boot.REPO), fr.name) if fr else "?"


def merge_once(w, this_vi, other_vi, other_which, mname):
    """Run one real merge; returns (condition or None, observation dict)."""
    from breezy import merge as _merge
    from breezy.workingtree import WorkingTree
    other_rev = w.rev(other_vi, other_which)
    ob = w.branch(other_vi, other_which)
    root = w.fresh_this(this_vi)
    t = WorkingTree.open(root)
    try:
        with t.lock_write():
            m = _merge.Merger.from_revision_ids(t, other_rev, other_branch=ob)
            m.merge_type = merger_class(mname)
            n = m.do_merge()
    except Exception as e:  # noqa: BLE001 - an exception for an input the laws cover is a finding
        return "exception:%s:%s" % (type(e).__name__, innermost_repo_frame(e)), {"error": str(e)[:300].replace(w.root, "<work>")}
    meta, snap, conflicts = observe(root, w.fmt)
    reported = sorted("%s:%s" % (type(c).__name__, getattr(c, "path", "")) for c in n)
    return None, {"reported": reported, "meta": meta, "disk": snap, "conflicts": conflicts}


def judge(obs, expected, fmt):
    """First failed clause of the law, or None."""
    if obs["reported"] or obs["conflicts"]:
        kinds = sorted({c.split(":")[0] for c in obs["reported"] + obs["conflicts"]})
        return "conflicts-reported:%s" % "+".join(kinds)
    if obs["meta"] != expected_meta(expected, fmt):
        return "versioned-entries-differ"
    if obs["disk"] != expected_disk(expected, fmt):
        return "files-on-disk-differ"
    return None


def instances(variants, vi, cfg, fmt, bi):
    """Law instances whose THIS (or, for this=base, OTHER) is variant vi:
    yields (law, this_vi, other_vi, other_which, expected tree, kinds)."""
    base = variants[0][0]
    tree, labels, kinds = variants[vi]
    if vi == 0:
        return
    yield ("other=base", vi, 0, "v", tree, kinds)
    yield ("this=base", 0, vi, "v", tree, kinds)
    yield ("same", vi, vi, "w", tree, kinds)
    if len(labels) > cfg["disjoint_this_len"]:
        return
    t1 = model.touched(base, tree)
    for oj in range(1, len(variants)):
        otree, olabels, okinds = variants[oj]
        if len(olabels) > cfg["disjoint_other_len"]:
            break       # variants are ordered by script length
        if t1 & model.touched(base, otree):
            continue
        u = model.union(base, tree, otree)
        if u is None:
            continue
        if fmt == "git" and not model.paths_disjoint(model.touched_paths(base, tree), model.touched_paths(base, otree)):
            continue
        yield ("disjoint", vi, oj, "v", u, kinds + okinds)
        if len(labels) > cfg["disjoint_other_len"] and bi in cfg["disjoint_swapped_bases"]:
            yield ("disjoint", oj, vi, "v", u, kinds + okinds)


_VARIANTS = {}
_CFG = {}


def get_variants(bi):
    key = (bi, _CFG["lens"][bi])
    if key not in _VARIANTS:
        _VARIANTS[key] = model.variants(model.BASES[bi], _CFG["lens"][bi])
    return _VARIANTS[key]


def _work(chunk):
    import logging
    logging.getLogger("brz").setLevel(logging.CRITICAL)
    acc = par.Acc()
    worlds = {}
    try:
        for fmt, bi, vi in sorted(chunk):
            variants = get_variants(bi)
            if (fmt, bi) not in worlds:
                for w in worlds.values():
                    w.close()
                worlds.clear()
                worlds[(fmt, bi)] = World(fmt, bi, variants)
            w = worlds[(fmt, bi)]
            tree, labels, kinds = variants[vi]
            for law, tv, ov, which, expected, ikinds in instances(variants, vi, _CFG, fmt, bi):
                for mname in MERGERS:
                    if mname != "merge3" and (len(labels) > _CFG["alt_merger_len"] or (
                            law == "disjoint" and (bi not in _CFG["alt_merger_disjoint_bases"] or len(ikinds) > 2))):
                        continue
                    cond, obs = merge_once(w, tv, ov, which, mname)
                    acc.n += 1
                    acc.count("merges:%s:%s:%s" % (fmt, mname, law))
                    if cond is None:
                        cond = judge(obs, expected, fmt)
                    acc.outcomes.add((fmt, law, cond or "ok"))
                    if law == "disjoint" or len(labels) >= 1:
                        acc.nt((fmt, bi, law, tv, ov, mname))
                    if cond is not None:
                        det = {"format": fmt, "merger": mname, "law": law, "base": bi,
                               "this": list(variants[tv][1]), "other": list(variants[ov][1]),
                               "kinds": sorted(set(ikinds)), "size": len(ikinds)}
                        if "error" in obs:
                            det["error"] = obs["error"]
                        else:
                            det["conflicts"] = obs["conflicts"]
                            det["reported_by_do_merge"] = obs["reported"]
                            det["expected_versioned"] = expected_meta(expected, fmt)
                            det["got_versioned"] = obs["meta"]
                            exp_disk = expected_disk(expected, fmt)
                            det["disk_diff"] = {p: (obs["disk"].get(p), exp_disk.get(p))
                                                for p in sorted(set(obs["disk"]) | set(exp_disk))
                                                if obs["disk"].get(p) != exp_disk.get(p)}
                        # (not acc.violation(): its per-worker cap would make the attribution below
                        # depend on sharding)
                        acc.violations.append(("%s|%s|%s|%s" % (law, cond, fmt, mname), det))
                        acc.count("violations_raw")
                    elif len(acc.samples) < 3 and law == "disjoint":
                        acc.sample({"format": fmt, "merger": mname, "law": law, "base": bi,
                                    "this": list(variants[tv][1]), "other": list(variants[ov][1]),
                                    "result": obs["meta"]})
            if vi != 0 and len(labels) > max(_CFG["disjoint_other_len"], 0):
                w.drop(vi)
    finally:
        for w in worlds.values():
            w.close()
    return acc


def attribute(violations):
    """Group raw violating instances into signatures: law + condition + the smallest set of edit
    classes that already fails + format.  Instances (of any law) whose edit classes contain a failing
    smaller set with the same condition and format are attributed to it; the merge type is named only when merge3
    itself does not fail for that set."""
    groups = {}
    for sig, d in violations:
        _law, cond, fmt, _m = sig.split("|")
        groups.setdefault((cond, fmt), []).append(d)
    out = {}
    for (cond, fmt), ds in groups.items():
        ds.sort(key=lambda d: (d["size"], len(d["kinds"]), d["kinds"], d["merger"] != "merge3", d["base"],
                               d["this"], d["other"], d["merger"]))
        roots = []
        for d in ds:
            ks = set(d["kinds"])
            hit = None
            for r in roots:
                if set(r["kinds"]) <= ks:
                    hit = r
                    break
            if hit is None:
                roots.append(d)
                d["attributed_instances"] = 1
                d["mergers_failing"] = [d["merger"]]
            else:
                hit["attributed_instances"] += 1
                if set(hit["kinds"]) == ks and d["merger"] not in hit["mergers_failing"]:
                    hit["mergers_failing"].append(d["merger"])
        for r in roots:
            s = "%s:%s:[%s]:%s" % (r["law"], cond, "+".join(r["kinds"]), fmt)
            if "merge3" not in r["mergers_failing"]:
                s += ":" + "+".join(sorted(r["mergers_failing"]))
            out[s] = r
    return out


def run(ctx):
    # script length bound per base, which pairs take part in the disjoint law, and how far the
    # alternative merge types (weave, lca) go
    if ctx.thorough:
        _CFG.update(lens=[2, 2, 2, 2], disjoint_this_len=2, disjoint_other_len=1, alt_merger_len=2,
                    alt_merger_disjoint_bases=(0, 1, 2, 3), disjoint_swapped_bases=(0, 3))
    else:
        _CFG.update(lens=[2, 1, 1, 2], disjoint_this_len=1, disjoint_other_len=1, alt_merger_len=1,
                    alt_merger_disjoint_bases=(3,), disjoint_swapped_bases=())
    fmts = ("bzr", "git")
    items = []
    nvar = {}
    for bi in range(len(model.BASES)):
        vs = get_variants(bi)
        nvar[bi] = len(vs)
        for fmt in fmts:
            items.extend((fmt, bi, vi) for vi in range(1, len(vs)))
    only = os.environ.get("C17_ONLY")      # development aid, e.g. "git:3"
    if only:
        items = [it for it in items if "%s:%d" % (it[0], it[1]) == only]
    # shard by (format, base, slice) so that a worker builds few worlds
    shards = {}
    for it in items:
        shards.setdefault((it[0], it[1], it[2] % 8), []).append(it)
    shard_list = [shards[k] for k in sorted(shards)]
    accs = par.pmap(_work_shards, shard_list, seed=ctx.seed, chunks_per_job=max(1, len(shard_list) // par.NCPU + 1))
    acc = par.merge(accs)
    sigs = attribute(acc.violations)
    for s in sorted(sigs):
        ctx.violation(s, sigs[s])
    ctx.assumptions.append("git trees: directories are not versioned (compared on files and symlinks only); for the disjoint "
                           "law on git the change sets must also be disjoint as path sets (no file ids)")
    ctx.assumptions.append("'identical changes' = identical resulting trees including file ids (bzr)")
    return {
        "evaluations": acc.n,
        "distinct_nontrivial": len(acc.nontrivial),
        "rule": "a (format, base, law, THIS, OTHER, merge type) instance in which at least one side differs from BASE",
        "variants_per_base": nvar, "script_len_per_base": _CFG["lens"],
        "disjoint_law_script_lens": [_CFG["disjoint_this_len"], _CFG["disjoint_other_len"]],
        "counters": dict(sorted(acc.counters.items())),
        "distinct_outcomes": len(acc.outcomes),
        "outcomes": sorted(acc.outcomes, key=repr),
        "raw_violating_instances": acc.counters.get("violations_raw", 0),
        "samples": acc.samples[:3],
        "exhaustive": True,
    }


def _work_shards(chunk):
    acc = par.Acc()
    for shard in chunk:
        acc.merge(_work(shard))
    return acc


def replay(ctx, data):
    """Re-run the one recorded instance; True if the law holds for it."""
    import logging
    logging.getLogger("brz").setLevel(logging.CRITICAL)
    d = data["first"]
    _CFG.update(lens=[2, 2, 2, 2])
    bi, fmt = d["base"], d["format"]
    variants = get_variants(bi)
    by_label = {tuple(v[1]): i for i, v in enumerate(variants)}
    tv, ov = by_label[tuple(d["this"])], by_label[tuple(d["other"])]
    base = variants[0][0]
    if d["law"] == "disjoint":
        expected = model.union(base, variants[tv][0], variants[ov][0])
    else:
        expected = variants[tv if d["law"] != "this=base" else ov][0]
    w = World(fmt, bi, variants)
    try:
        cond, obs = merge_once(w, tv, ov, "w" if d["law"] == "same" else "v", d["merger"])
        if cond is None:
            cond = judge(obs, expected, fmt)
        print("  instance: %s base %d THIS=%r OTHER=%r %s -> %s" % (fmt, bi, d["this"], d["other"], d["merger"], cond or "ok"))
        return cond is None
    finally:
        w.close()
