"""C19 - Text conflicts are reported exactly when conflict markers are written.

Bounded exhaustive enumeration of ALL triples (BASE, THIS, OTHER) of line lists up
to a length bound over small alphabets (ordinary lines, a last line without EOL,
lines that look like the conflict markers, a line starting with the merger's
internal start-of-conflict sentinel) x all valid merge option combinations
(reprocess, show-base, cherrypick; reprocess+show-base must be refused).  Quick:
lists of <=2 lines over {c\n, <<<<<<< TREE\n, c} and over {c\n, sentinel line, c}
(bzr 2a; the first also on git trees) and <=3 lines over {a\n, c}; thorough adds
<=2 lines over the full 8-line alphabet, <=3 lines over {a\n, b\n, sentinel, c}
and the sentinel alphabets on git (spaces run in priority order under a wall-clock
budget; anything not run is reported as a cap).  BASE-absent sub-run (signatures end in
":base-absent"): the file does not exist in the base tree and THIS and OTHER both add it
(same path, same file id) - all pairs of line lists <=2 over {c\n, <<<<<<< TREE\n, c}
(bzr and git) and <=3 over {a\n, c} (bzr); there is then no BASE text, so no .BASE helper
(or an empty one) is expected, and a resolution must still remove every helper file.
Every triple is a file in real
working trees on /dev/shm: BASE, THIS and OTHER are committed, the real
breezy.merge.Merger / Merge3Merger merges OTHER into THIS, and for conflicted files
the real breezy.conflicts.resolve(take_this / take_other) runs in copies of the
merged tree.  Oracle = the property statement evaluated with the pinned merge3
library: TextConflict recorded (tree.conflicts() and do_merge's result) <=>
merge_regions() (after reprocess_merge_regions when reprocessing) has a conflict
region; conflicted file = regions between <<<<<<< TREE / ||||||| BASE-REVISION /
======= / >>>>>>> MERGE-SOURCE with .BASE/.THIS/.OTHER holding exactly the three
texts; otherwise the clean merged text, no helpers, no record; take-this/take-other
leave exactly THIS/OTHER text, no helpers, no record (other files and conflicts
untouched).
"""
import inspect
import itertools
import os
import shutil

from mc import boot, par
from mc import wt as mwt
from mc.evidence import HarnessError

ID = "C19"
LEVEL = "exploration"
TECHNIQUE = ("exhaustive small-scope enumeration of text triples x merge options through the real tree merger "
             "and resolver, compared with the merge3 library's regions")

SENTINEL = b"!START OF MERGE CONFLICT!" + b"I HOPE THIS IS UNIQUE"
A, B, C, CN = b"a\n", b"b\n", b"c\n", b"c"
M1, M2, M3 = b"<<<<<<< TREE\n", b"=======\n", b">>>>>>> MERGE-SOURCE\n"
S = SENTINEL + b" x\n"

# marker lines as the property statement names them
MK_START = b"<<<<<<< TREE\n"
MK_BASE = b"||||||| BASE-REVISION\n"
MK_MID = b"=======\n"
MK_END = b">>>>>>> MERGE-SOURCE\n"

ALPHABETS = {
    # name: (lines with EOL, line without EOL (only allowed last))
    "full8": ((A, B, C, M1, M2, M3, S), CN),
    "q5": ((A, C, M1, S), CN),
    "q4": ((C, M1, S), CN),
    "t4": ((A, B, S), CN),
    "g3": ((A, S), CN),
    "t2": ((A,), CN),
    "m3": ((C, M1), CN),
    "s3": ((C, S), CN),
}

# (reprocess, show_base, cherrypick)
COMBOS = [(r, sb, ch) for ch in (False, True) for r in (False, True) for sb in (False, True) if not (r and sb)]
INVALID = [(r, sb, ch) for ch in (False, True) for r in (False, True) for sb in (False, True) if r and sb]
HELPERS = ("BASE", "THIS", "OTHER")
NOBASE = ":base-absent"      # suffix of the format label in signatures of the BASE-absent sub-run

_LISTS = {}


def lists(alpha, maxlen):
    """All line lists of length <= maxlen, simplest first; the EOL-less line only in last position."""
    key = (alpha, maxlen)
    if key not in _LISTS:
        full, noeol = ALPHABETS[alpha]
        out = []
        for k in range(maxlen + 1):
            for w in itertools.product(full + (noeol,), repeat=k):
                if noeol in w[:-1]:
                    continue
                out.append(w)
        _LISTS[key] = out
    return _LISTS[key]


def triple(alpha, maxlen, idx):
    L = lists(alpha, maxlen)
    n = len(L)
    return L[idx // (n * n)], L[(idx // n) % n], L[idx % n]


# ---------------------------------------------------------------- reference (merge3 library + statement)

_MATCHERS = {}


def matchers():
    if not _MATCHERS:
        import difflib

        import patiencediff
        _MATCHERS["patience"] = patiencediff.PatienceSequenceMatcher
        _MATCHERS["difflib"] = difflib.SequenceMatcher
    return _MATCHERS


def regions_of(base, this, other, reprocess, cherry, matcher):
    from merge3 import Merge3
    m3 = Merge3(list(base), list(this), list(other), is_cherrypick=cherry, sequence_matcher=matcher)
    regs = list(m3.merge_regions())
    if reprocess:
        regs = list(m3.reprocess_merge_regions(iter(regs)))
    return regs


def render(regs, base, this, other, show_base):
    """Line list of the merged file according to the statement: non-conflict regions verbatim,
    conflict regions between the markers."""
    out = []
    for t in regs:
        what = t[0]
        if what == "unchanged":
            out.extend(base[t[1]:t[2]])
        elif what in ("a", "same"):
            out.extend(this[t[1]:t[2]])
        elif what == "b":
            out.extend(other[t[1]:t[2]])
        elif what == "conflict":
            _, iz, zm, ia, am, ib, bm = t
            out.append(MK_START)
            out.extend(this[ia:am])
            if show_base:
                out.append(MK_BASE)
                out.extend(base[iz:zm])
            out.append(MK_MID)
            out.extend(other[ib:bm])
            out.append(MK_END)
        else:
            raise HarnessError("unknown region %r" % (t,))
    return out


MARKERS = (MK_START, MK_BASE, MK_MID, MK_END)


def join_fix_eol(lines):
    """Second reading for a region line without EOL that is followed by a marker: the marker
    starts on its own line."""
    out = []
    for l in lines:
        if l in MARKERS and out and not out[-1].endswith(b"\n"):
            out[-1] = out[-1] + b"\n"
        out.append(l)
    return b"".join(out)


class Expect:
    __slots__ = ("conflict", "contents", "lines", "kinds", "alt")


def expectation(alpha, maxlen, idx, combo):
    """Accepted readings of the statement for one triple and option combination (primary = patience
    matcher, alt = difflib matcher when it gives something else)."""
    base, this, other = triple(alpha, maxlen, idx)
    r, sb, ch = combo
    readings = []
    for name in ("patience", "difflib"):
        regs = regions_of(base, this, other, r, ch, matchers()[name])
        lines = render(regs, base, this, other, sb)
        conflict = any(t[0] == "conflict" for t in regs)
        contents = {b"".join(lines)}
        if conflict:
            contents.add(join_fix_eol(lines))
        readings.append((conflict, contents, lines, tuple(t[0] for t in regs)))
    e = Expect()
    e.conflict, e.contents, e.lines, e.kinds = readings[0]
    e.alt = readings[1] if (readings[1][0], readings[1][1]) != (readings[0][0], readings[0][1]) else None
    return e


# ---------------------------------------------------------------- real trees

def _quiet():
    import logging
    logging.getLogger("brz").setLevel(logging.CRITICAL)


def _commit(tree, kind, msg, revid, ts):
    kw = {"rev_id": revid} if kind == "bzr" else {}
    return tree.commit(msg, timestamp=ts, timezone=0, committer="C19 <c19@example.com>", **kw)


def _write(path, lines):
    with open(path, "wb") as f:
        f.write(b"".join(lines))


def fname(i):
    return "f%04d" % i


def _add(tree, kind, names):
    if kind == "bzr":
        # explicit ids: when both sides add the file independently it is the same file
        tree.add(names, ids=[b"c19-id-" + n.encode() for n in names])
    else:
        tree.add(names)


def build(kind, root, triples, base_absent=False):
    """THIS tree: R(base texts) -> T(this texts); OTHER tree: R -> B (same texts, new revision) -> O.
    base_absent: the files do not exist in R / B; THIS and OTHER each add them (same path, same file id)."""
    tdir = os.path.join(root, "this")
    odir = os.path.join(root, "other")
    this = mwt.make_tree(kind, tdir)
    names = [fname(i) for i in range(len(triples))]
    if not base_absent:
        for n, (b, t, o) in zip(names, triples):
            _write(os.path.join(tdir, n), b)
        _add(this, kind, names)
    _commit(this, kind, "base", b"c19-R", 1000000000)
    other = this.controldir.sprout(odir).open_workingtree()
    rev_b = _commit(other, kind, "base again", b"c19-B", 1000000010)
    for n, (b, t, o) in zip(names, triples):
        if base_absent or o != b:
            _write(os.path.join(odir, n), o)
    if base_absent:
        _add(other, kind, names)
    rev_o = _commit(other, kind, "other", b"c19-O", 1000000020)
    this.branch.fetch(other.branch, rev_o)      # every merge copy starts with OTHER's revisions present
    for n, (b, t, o) in zip(names, triples):
        if base_absent or t != b:
            _write(os.path.join(tdir, n), t)
    if base_absent:
        _add(this, kind, names)
    _commit(this, kind, "this", b"c19-T", 1000000030)
    return tdir, other.branch, rev_b, rev_o


def observe(tree_dir, tree=None):
    from breezy.workingtree import WorkingTree
    files = {}
    for n in os.listdir(tree_dir):
        if n in mwt.CONTROL:
            continue
        p = os.path.join(tree_dir, n)
        if os.path.isfile(p) and not os.path.islink(p):
            with open(p, "rb") as f:
                files[n] = f.read()
        else:
            files[n] = None
    tree = tree or WorkingTree.open(tree_dir)
    recs = sorted((c.typestring, c.path) for c in tree.conflicts())
    return files, recs


def do_merge(src_this, dst, other_branch, rev_b, rev_o, combo):
    """Copy the committed THIS tree and merge OTHER into the copy with the real Merger."""
    from breezy import merge as _merge
    from breezy.workingtree import WorkingTree
    r, sb, ch = combo
    shutil.copytree(src_this, dst, symlinks=True)
    wt = WorkingTree.open(dst)
    made = []
    with wt.lock_write():
        m = _merge.Merger.from_revision_ids(wt, rev_o, base=rev_b if ch else None, other_branch=other_branch)
        m.merge_type = _merge.Merge3Merger
        m.reprocess = r
        m.show_base = sb
        orig = m.make_merger

        def make_merger():
            x = orig()
            made.append(x)
            return x
        m.make_merger = make_merger
        cooked = m.do_merge()
    if len(made) != 1 or (bool(made[0].reprocess), bool(made[0].show_base), bool(made[0].cherrypick)) != combo \
            or type(made[0]) is not _merge.Merge3Merger:
        raise HarnessError("merger options %r not as requested %r" % (
            [(x.reprocess, x.show_base, x.cherrypick) for x in made], combo))
    return sorted((c.typestring, c.path) for c in cooked)


def innermost_repo_function(exc):
    import traceback
    fn = "?"
    for fr in traceback.extract_tb(exc.__traceback__):
        if fr.filename.startswith(boot.REPO + os.sep):
            fn = "%s:%s" % (os.path.relpath(fr.filename, boot.REPO), fr.name)
    return fn


# ---------------------------------------------------------------- verdicts

class Res:
    """Worker result: accumulator + smallest failing case per signature."""

    def __init__(self):
        self.acc = par.Acc()
        self.best = {}
        self.occ = {}

    def violation(self, sig, key, detail):
        self.occ[sig] = self.occ.get(sig, 0) + 1
        if sig not in self.best or key < self.best[sig][0]:
            self.best[sig] = (key, detail)

    def merge(self, other):
        self.acc.merge(other.acc)
        for sig, (k, d) in other.best.items():
            if sig not in self.best or k < self.best[sig][0]:
                self.best[sig] = (k, d)
        for sig, n in other.occ.items():
            self.occ[sig] = self.occ.get(sig, 0) + n
        return self


def detail_of(kind, alpha, maxlen, idx, combo, **extra):
    b, t, o = triple(alpha, maxlen, idx)
    base_absent = kind.endswith(NOBASE)
    if base_absent:
        kind = kind[:-len(NOBASE)]
    d = {"format": kind, "base_absent": base_absent, "alphabet": alpha, "maxlen": maxlen, "index": idx,
         "base": list(b), "this": list(t), "other": list(o),
         "reprocess": combo[0], "show_base": combo[1], "cherrypick": combo[2]}
    d.update(extra)
    return d


def size_key(alpha, maxlen, idx, combo):
    b, t, o = triple(alpha, maxlen, idx)
    has_s = any(l.startswith(SENTINEL) for l in b + t + o)
    return (sum(combo), len(b) + len(t) + len(o), has_s, maxlen, idx, combo)


def judge_file(name, trip, exp, files, recs, cooked, base_absent=False):
    """Compare what the merge left for one file with the statement.  Returns (problem, info) with
    problem None when every clause holds under at least one accepted reading."""
    base, this, other = trip
    mine = [r for r in recs if r[1] == name or r[1].startswith(name + ".")]
    text_rec = ("text conflict", name) in mine
    strange = [r for r in mine if r != ("text conflict", name)]
    if strange:
        return "unexpected-conflict-record:%s" % strange[0][0].replace(" ", "-"), {"records": mine}
    in_cooked = ("text conflict", name) in cooked
    if in_cooked != text_rec:
        return "do_merge-result-disagrees-with-tree-conflicts", {"cooked": in_cooked, "recorded": text_rec}
    content = files.get(name)
    helpers = {h: files.get("%s.%s" % (name, h)) for h in HELPERS if "%s.%s" % (name, h) in files}
    extra = sorted(n for n in files if n.startswith(name + ".") and n[len(name) + 1:] not in HELPERS)
    if extra:
        return "unexpected-extra-file", {"files": extra}
    obs = {"conflict_recorded": text_rec, "content": content, "helpers": helpers}
    readings = [(exp.conflict, exp.contents)]
    if exp.alt is not None:
        readings.append((exp.alt[0], exp.alt[1]))
    first_problem = None
    for i, (conflict, contents) in enumerate(readings):
        problem = None
        if content is None:
            problem = "merged-file-missing"
        elif conflict and not text_rec:
            problem = "conflict-regions-but-no-conflict-recorded"
        elif not conflict and text_rec:
            problem = "conflict-recorded-for-clean-merge"
        elif content not in contents:
            problem = "conflicted-file-content-differs" if conflict else "clean-merged-text-differs"
        elif conflict:
            want = {"BASE": b"".join(base), "THIS": b"".join(this), "OTHER": b"".join(other)}
            for h in HELPERS:
                if h == "BASE" and base_absent:
                    # there is no BASE text: no .BASE file, or (second reading) an empty one
                    if h in helpers and helpers[h] != b"":
                        problem = "helper-file-content-wrong:%s" % h
                        break
                    continue
                if h not in helpers:
                    problem = "helper-file-missing:%s" % h
                    break
                if helpers[h] != want[h]:
                    problem = "helper-file-content-wrong:%s" % h
                    break
        elif helpers:
            problem = "helper-files-after-clean-merge"
        if problem is None:
            return None, {"reading": i, "obs": obs}
        if first_problem is None:
            first_problem = problem
    return first_problem, {"observed": obs, "expected_conflict": exp.conflict,
                           "expected_content": sorted(exp.contents)}


def sentinel_defect_explains(trip, exp, info):
    """Classification only (never makes a case pass): is the failure exactly 'a line of the merge
    result that starts with the internal sentinel was taken for a start marker'?"""
    hits = [l for l in exp.lines if l.startswith(SENTINEL)]
    if not hits:
        return None
    obs = info.get("observed")
    if not obs:
        return None
    base, this, other = trip
    dm = b"".join(l.replace(SENTINEL, b"<" * 7) if l.startswith(SENTINEL) else l for l in exp.lines)
    want = {"BASE": b"".join(base), "THIS": b"".join(this), "OTHER": b"".join(other)}
    if obs["conflict_recorded"] and obs["content"] == dm and obs["helpers"] == want:
        if exp.conflict:
            return "text_merge:sentinel-line-rewritten-as-marker-in-conflicted-file"
        return "text_merge:sentinel-line-in-clean-merge-reported-as-conflict"
    return None


# ---------------------------------------------------------------- one batch

def run_batch(kind, alpha, maxlen, idxs, combos, resolve_combos, res, log=None, base_absent=False):
    """Build the trees for the triples idxs once, merge under every option combination, judge
    every file, resolve in copies.  log (list) receives the raw observations (determinism audit)."""
    triples = [triple(alpha, maxlen, i) for i in idxs]
    root = boot.scratch("c19")
    acc = res.acc
    fmt = kind
    if base_absent:
        kind = fmt + NOBASE     # label used in signatures, counters and details from here on
    try:
        src_this, other_branch, rev_b, rev_o = build(fmt, root, triples, base_absent)
        for ci, combo in enumerate(combos):
            dst = os.path.join(root, "m%d" % ci)
            try:
                cooked = do_merge(src_this, dst, other_branch, rev_b, rev_o, combo)
            except HarnessError:
                raise
            except Exception as e:  # noqa - an exception of the merge for covered input is a finding
                shutil.rmtree(dst, ignore_errors=True)
                if len(idxs) > 1:
                    half = len(idxs) // 2
                    run_batch(fmt, alpha, maxlen, idxs[:half], [combo], resolve_combos, res, base_absent=base_absent)
                    run_batch(fmt, alpha, maxlen, idxs[half:], [combo], resolve_combos, res, base_absent=base_absent)
                else:
                    acc.n += 1
                    sig = "merge:%s:%s:%s" % (type(e).__name__, innermost_repo_function(e), kind)
                    res.violation(sig, size_key(alpha, maxlen, idxs[0], combo),
                                  detail_of(kind, alpha, maxlen, idxs[0], combo, error=repr(e)[:300]))
                continue
            files, recs = observe(dst)
            if log is not None:
                log.append((combo, sorted(files.items()), recs, cooked))
            own = {fname(i) for i in range(len(idxs))}
            stray = sorted(n for n in files if n.split(".")[0] not in own)
            if stray:
                res.violation("merge:stray-files-in-tree:%s" % kind, size_key(alpha, maxlen, idxs[0], combo),
                              detail_of(kind, alpha, maxlen, idxs[0], combo, stray=stray[:5]))
            ok_conflicted = []      # (i, name) judged fine and conflicted: candidates for resolution
            for i, idx in enumerate(idxs):
                name = fname(i)
                trip = triples[i]
                exp = expectation(alpha, maxlen, idx, combo)
                problem, info = judge_file(name, trip, exp, files, recs, cooked, base_absent)
                acc.n += 1
                b, t, o = trip
                nontrivial = t != o and (base_absent or (t != b and o != b))
                if nontrivial:
                    acc.nt((kind, trip))
                tag = "%s:r%d-sb%d-ch%d" % (kind, combo[0], combo[1], combo[2])
                if exp.conflict:
                    acc.count("expected_conflict:" + tag)
                elif nontrivial:
                    acc.count("clean_both_changed:" + tag)
                if exp.alt is not None:
                    acc.count("matcher_readings_differ:" + kind)
                if problem is None:
                    rec = info["obs"]["conflict_recorded"]
                    if rec:
                        acc.count("conflicts_recorded:" + kind)
                        ok_conflicted.append((i, name))
                        if info["reading"] == 0 and len(exp.contents) > 1:
                            if info["obs"]["content"] == b"".join(exp.lines):
                                acc.count("marker_glued_to_eol_less_region_line:" + kind)
                            else:
                                acc.count("marker_on_own_line_after_eol_less_region_line:" + kind)
                    if info["reading"] == 1:
                        acc.count("accepted_by_difflib_reading_only:" + kind)
                    if not rec and nontrivial and any(l in (M1, M2, M3) for l in exp.lines):
                        acc.count("clean_both_changed_with_marker_like_user_line_no_conflict:" + kind)
                    acc.outcomes.add((kind, combo, exp.kinds, rec))
                    if len(acc.samples) < 2 and rec and nontrivial:
                        acc.sample(detail_of(kind, alpha, maxlen, idx, combo,
                                             merged=info["obs"]["content"], conflict=True))
                else:
                    sig = sentinel_defect_explains(trip, exp, info)
                    if sig is None:
                        sig = "merge:" + problem
                    elif exp.conflict:
                        # genuine conflict, record and helper files verified: the resolution clauses
                        # are still checked on it
                        ok_conflicted.append((i, name))
                    sig = sig + ":" + kind
                    acc.count("failed:" + sig)
                    acc.outcomes.add((kind, combo, exp.kinds, "FAIL:" + sig))
                    res.violation(sig, size_key(alpha, maxlen, idx, combo),
                                  detail_of(kind, alpha, maxlen, idx, combo, **info))
            if combo in resolve_combos and ok_conflicted:
                resolve_phase(kind, alpha, maxlen, idxs, triples, combo, root, dst, files, recs, ok_conflicted, res,
                              log)
            shutil.rmtree(dst, ignore_errors=True)
    finally:
        shutil.rmtree(root, ignore_errors=True)


def resolve_phase(kind, alpha, maxlen, idxs, triples, combo, root, merged_dir, files, recs, ok_conflicted, res,
                  log=None):
    """take_this for all conflicts at once (paths=None); take_other in two steps by explicit paths
    (every second conflicted file first: the others must stay untouched)."""
    from breezy import conflicts as _conflicts
    from breezy.workingtree import WorkingTree
    acc = res.acc
    names = [n for _, n in ok_conflicted]
    by_name = {n: i for i, n in ok_conflicted}
    plans = [
        ("take_this", [None]),
        ("take_other", [names[0::2], names[1::2]] if len(names) > 1 else [names]),
    ]
    for action, steps in plans:
        which = 1 if action == "take_this" else 2
        rdir = os.path.join(root, "r-" + action)
        shutil.copytree(merged_dir, rdir, symlinks=True)
        cur_files, cur_recs = files, recs
        resolved = set()
        try:
            for step in steps:
                if step is not None and not step:
                    continue
                tree = WorkingTree.open(rdir)
                target = set(names) - resolved if step is None else set(step)
                try:
                    _conflicts.resolve(tree, step, action=action)
                except Exception as e:  # noqa
                    i = by_name[sorted(target)[0]]
                    sig = "resolve:%s:%s:%s:%s" % (action, type(e).__name__, innermost_repo_function(e), kind)
                    res.violation(sig, size_key(alpha, maxlen, idxs[i], combo),
                                  detail_of(kind, alpha, maxlen, idxs[i], combo, error=repr(e)[:300],
                                            resolving=sorted(target)))
                    break
                tree = WorkingTree.open(rdir)
                new_files, new_recs = observe(rdir, tree)
                if log is not None:
                    log.append((combo, action, sorted(new_files.items()), new_recs))
                for n in names:
                    i = by_name[n]
                    fam = [n] + ["%s.%s" % (n, h) for h in HELPERS]
                    problem = None
                    if n in target:
                        want = b"".join(triples[i][which])
                        acc.count("resolutions:%s:%s" % (action, kind))
                        left = [x for x in fam[1:] if x in new_files]
                        if new_files.get(n) != want:
                            problem = "file-is-not-the-%s-text" % action[5:].upper()
                        elif left:
                            problem = "helper-files-left"
                        elif any(r[1] in fam for r in new_recs):
                            problem = "conflict-record-left"
                        else:
                            with tree.lock_read():
                                if not tree.is_versioned(n) or tree.kind(n) != "file":
                                    problem = "file-no-longer-a-versioned-file"
                        info = {"after": {x: new_files.get(x) for x in fam if x in new_files},
                                "records_after": [r for r in new_recs if r[1] in fam]}
                    else:
                        # frame: already resolved files and still conflicted files are untouched
                        before = {x: cur_files.get(x) for x in fam}
                        after = {x: new_files.get(x) for x in fam}
                        if before != after or [r for r in cur_recs if r[1] in fam] != [r for r in new_recs if r[1] in fam]:
                            problem = "other-conflict-touched"
                        info = {"before": before, "after": after}
                    if problem:
                        sig = "resolve:%s:%s:%s" % (action, problem, kind)
                        res.violation(sig, size_key(alpha, maxlen, idxs[i], combo),
                                      detail_of(kind, alpha, maxlen, idxs[i], combo, **info))
                # clean files of the batch are never touched by a resolution
                for i in range(len(idxs)):
                    n = fname(i)
                    if n not in by_name and not any(r[1] == n for r in recs) and new_files.get(n) != files.get(n):
                        res.violation("resolve:%s:unconflicted-file-changed:%s" % (action, kind),
                                      size_key(alpha, maxlen, idxs[i], combo),
                                      detail_of(kind, alpha, maxlen, idxs[i], combo))
                resolved |= target
                cur_files, cur_recs = new_files, new_recs
        finally:
            shutil.rmtree(rdir, ignore_errors=True)


def check_refusal(kind, res):
    """reprocess + show_base is not a valid option combination: the merge must refuse it."""
    from breezy import merge as _merge
    from breezy.workingtree import WorkingTree
    trip = ((A,), (B,), (C,))
    root = boot.scratch("c19x")
    out = {}
    try:
        src_this, other_branch, rev_b, rev_o = build(kind, root, [trip])
        for ci, combo in enumerate(INVALID):
            dst = os.path.join(root, "x%d" % ci)
            shutil.copytree(src_this, dst, symlinks=True)
            wt = WorkingTree.open(dst)
            before = observe(dst, wt)
            try:
                with wt.lock_write():
                    m = _merge.Merger.from_revision_ids(wt, rev_o, base=rev_b if combo[2] else None,
                                                        other_branch=other_branch)
                    m.merge_type = _merge.Merge3Merger
                    m.reprocess, m.show_base = True, True
                    m.do_merge()
                out[combo] = "accepted"
            except Exception as e:  # noqa
                out[combo] = type(e).__name__
            after = observe(dst)
            res.acc.count("invalid_combos_refused" if out[combo] != "accepted" else "invalid_combos_accepted")
            if out[combo] == "accepted" or before != after:
                res.violation("merge:reprocess+show_base-not-refused-cleanly:%s" % kind, (0,),
                              {"format": kind, "combo": list(combo), "result": out[combo],
                               "tree_changed": before != after})
    finally:
        shutil.rmtree(root, ignore_errors=True)
    return out


# ---------------------------------------------------------------- driver

_DEADLINE = [None]


def _work(chunk):
    import time
    _quiet()
    res = Res()
    c0 = time.process_time()
    for kind, alpha, maxlen, start, stop, combos, resolve_combos, base_absent in chunk:
        if _DEADLINE[0] is not None and time.time() > _DEADLINE[0]:
            res.acc.count("batches_skipped_at_deadline:%s:%s<=%d" % (kind, alpha, maxlen))
            res.acc.count("triples_skipped_at_deadline", stop - start)
            continue
        run_batch(kind, alpha, maxlen, list(range(start, stop)), list(combos), set(resolve_combos), res,
                  base_absent=base_absent)
    res.acc.count("worker_cpu_ms", int(1000 * (time.process_time() - c0)))
    return res


def plan(ctx):
    """Spaces in priority order: (kind, alphabet, maxlen, batch size, combos that also run the resolutions)."""
    quick = [
        ("bzr", "m3", 2, 32, (COMBOS[0],)),
        ("bzr", "s3", 2, 32, (COMBOS[0],)),
        ("git", "m3", 2, 16, (COMBOS[0],)),
        ("bzr", "t2", 3, 16, (COMBOS[0],)),
        # BASE absent: the file does not exist in the base tree, THIS and OTHER both add it (same
        # path / file id); all pairs (THIS, OTHER) of line lists
        ("bzr", "m3", 2, 16, (COMBOS[0], COMBOS[5]), True),
        ("git", "m3", 2, 16, (COMBOS[0],), True),
        ("bzr", "t2", 3, 16, (COMBOS[0],), True),
    ]
    if ctx.thorough:
        return quick + [
            ("bzr", "q4", 2, 32, (COMBOS[0], COMBOS[5]), True),
            ("git", "s3", 2, 16, (COMBOS[0],), True),
            ("git", "s3", 2, 16, (COMBOS[0],)),
            ("bzr", "q4", 2, 32, (COMBOS[0],)),
            ("bzr", "t4", 3, 32, (COMBOS[0], COMBOS[5])),
            ("git", "q4", 2, 16, (COMBOS[0],)),
            ("bzr", "full8", 2, 32, (COMBOS[0],)),
        ]
    return quick


def run(ctx):
    import time
    _quiet()
    src = inspect.getsource(__import__("breezy.merge", fromlist=["x"]).Merge3Merger.text_merge)
    sentinel_in_source = '"!START OF MERGE CONFLICT!"' in src and '"I HOPE THIS IS UNIQUE"' in src
    spaces = plan(ctx)
    budget = float(os.environ.get("C19_BUDGET_S") or ctx.q(500, 840))
    _DEADLINE[0] = time.time() + budget
    limit = int(os.environ.get("C19_LIMIT_BATCHES") or 0)     # development aid; reported as a cap
    main = Res()
    refusals = {}
    # determinism audit: one batch of each format twice, raw observations compared; refusal of the
    # invalid option combination
    for kind in sorted({s[0] for s in spaces}):
        for absent in (False, True):
            sps = [s for s in spaces if s[0] == kind and bool(s[5:] and s[5]) == absent]
            if not sps:
                continue
            sp = sps[0]
            n = len(lists(sp[1], sp[2])) ** (2 if absent else 3)
            # a batch from the middle of the space (the first triples are all-empty files)
            start = n // 2
            idxs = list(range(start, min(n, start + 8)))
            logs = []
            for _ in range(2):
                log = []
                run_batch(kind, sp[1], sp[2], idxs, COMBOS, set(sp[4]), Res(), log, base_absent=absent)
                logs.append(log)
            if logs[0] != logs[1]:
                raise HarnessError("determinism audit failed for %s batch %d (base_absent=%s)" % (kind, start, absent))
            main.acc.count("determinism_audit_batches")
        refusals[kind] = {"r%d-sb%d-ch%d" % tuple(int(x) for x in k): v for k, v in check_refusal(kind, main).items()}
    space_report = []
    capped = []
    for sp in spaces:
        kind, alpha, maxlen, bs, rcombos = sp[:5]
        base_absent = bool(sp[5:] and sp[5])
        # BASE absent = the triples whose BASE is the first (empty) line list, i.e. indices < n^2
        n = len(lists(alpha, maxlen)) ** (2 if base_absent else 3)
        items = []
        for start in range(0, n, bs):
            items.append((kind, alpha, maxlen, start, min(n, start + bs), tuple(COMBOS), tuple(rcombos), base_absent))
        if limit and len(items) > limit:
            # keep batches spread over the whole space
            step = len(items) / float(limit)
            items = [items[int(k * step)] for k in range(limit)]
            capped.append("%s %s<=%d: C19_LIMIT_BATCHES=%d" % (kind, alpha, maxlen, limit))
        t0 = time.time()
        before = main.acc.n
        for r in par.pmap(_work, items, seed=ctx.seed, chunks_per_job=16):
            main.merge(r)
        key = "batches_skipped_at_deadline:%s:%s<=%d" % (kind, alpha, maxlen)   # (shared by both sub-runs)
        skipped = main.acc.counters.get(key, 0)
        if skipped:
            capped.append("%s %s<=%d: %d of %d batches not run (time budget %ds)" % (
                kind, alpha, maxlen, skipped, len(items), budget))
        space_report.append({"format": kind, "base_absent": base_absent, "alphabet": [x for x in ALPHABETS[alpha][0]] + [ALPHABETS[alpha][1]],
                             "max_lines": maxlen, "line_lists": len(lists(alpha, maxlen)), "triples": n,
                             "option_combinations": len(COMBOS), "batches": len(items), "batches_skipped": skipped,
                             "file_merges_judged": main.acc.n - before,
                             "resolution_run_for_options": [list(c) for c in rcombos],
                             "wall_s": round(time.time() - t0, 1)})
    acc = main.acc
    for sig in sorted(main.best):
        d = dict(main.best[sig][1])
        d["occurrences_in_run"] = main.occ[sig]
        ctx.violation(sig, d)
    ctx.assumptions.append("reference = pinned merge3 library (merge_regions / reprocess_merge_regions) with the patience "
                           "matcher breezy passes; where difflib's matcher gives another reading it is accepted too")
    ctx.assumptions.append("a region line without EOL directly followed by a marker: both 'marker appended to that line' "
                           "(what merge3.merge_lines emits) and 'marker on its own line' are accepted")
    ctx.assumptions.append("cherrypick = merge with an explicit base revision that is not an ancestor of THIS "
                           "(OTHER history R->B->O, base B); reverse cherrypicks not enumerated")
    ctx.assumptions.append("resolution (take_this / take_other) is run for every verified conflicted file of the option "
                           "combinations listed per space, not for all six")
    c = acc.counters
    cov = {
        "evaluations": acc.n,
        "file_merges_judged": acc.n,
        "triples": sum(s["triples"] for s in space_report),
        "distinct_nontrivial": len(acc.nontrivial),
        "rule": "every triple (BASE, THIS, OTHER) of line lists within the stated bounds x every valid option "
                "combination (reprocess, show_base, cherrypick), one file per triple in real trees; non-trivial = "
                "distinct triple where THIS and OTHER both differ from BASE and from each other",
        "spaces": space_report,
        "invalid_option_combinations_excluded": len(INVALID),
        "invalid_option_combinations_result": refusals,
        "sentinel_constant_found_in_source": sentinel_in_source,
        "distinct_outcomes": len(acc.outcomes),
        "expected_conflict_per_option": {k.split(":", 1)[1]: v for k, v in sorted(c.items())
                                         if k.startswith("expected_conflict:")},
        "clean_merges_both_sides_changed_per_option": {k.split(":", 1)[1]: v for k, v in sorted(c.items())
                                                       if k.startswith("clean_both_changed:")},
        "counters": {k: v for k, v in sorted(c.items())
                     if not k.startswith(("expected_conflict:", "clean_both_changed:"))},
        "conflicts_recorded_and_verified": sum(v for k, v in c.items() if k.startswith("conflicts_recorded:")),
        "resolutions_exercised": sum(v for k, v in c.items() if k.startswith("resolutions:")),
        "worker_cpu_s": round(c.get("worker_cpu_ms", 0) / 1000.0, 1),
        "samples": acc.samples[:3] or [detail_of(spaces[0][0], spaces[0][1], spaces[0][2], 1, COMBOS[0])],
        "exhaustive": not capped,
    }
    if capped:
        cov["capped"] = capped
    return cov


def replay(ctx, data):
    _quiet()
    d = data["first"]
    combo = (bool(d["reprocess"]), bool(d["show_base"]), bool(d["cherrypick"]))
    res = Res()
    rc = {combo} if data["signature"].startswith("resolve:") else set()
    run_batch(d["format"], d["alphabet"], d["maxlen"], [d["index"]], [combo], rc, res,
              base_absent=bool(d.get("base_absent")))
    for sig in sorted(res.best):
        print("  %s: %s" % (sig, str(res.best[sig][1])[:600]))
    return not res.best
