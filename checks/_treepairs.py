"""Declarative tree pairs for the tree-comparison checks (C10).

A tree is an assignment  file-id -> (path, kind, content, exec)  drawn from a small product
space, so renames, reparenting into/out of a directory, directory renames (children move along),
swaps, content / exec changes, kind changes, additions and removals all arise by enumeration of
PAIRS of trees.  `space(level)` returns the list of valid trees (dict path -> world.E).
"""
import itertools
import os
import shutil

from mc import world

X, Y = b"x\n", b"y\n"


def _mk(a, b, d, k, sub=False):
    """a,b: None | (where, name, content, exec) with where in ('root','D','S'); d: None|'d'|'e';
    k: None|'file'|'directory'; sub: directory id S named 's' inside D.  Returns the tree or
    None when invalid."""
    t = {}
    if d is not None:
        t[d] = world.D(b"D-id")
    if sub:
        if d is None:
            return None
        t[d + "/s"] = world.D(b"S-id")
    for fid, v in ((b"A-id", a), (b"B-id", b)):
        if v is None:
            continue
        where, name, content, ex = v
        if where == "S":
            if not sub:
                return None
            p = d + "/s/" + name
        elif where == "D":
            if d is None:
                return None
            p = d + "/" + name
        else:
            p = name
        if p in t:
            return None
        t[p] = world.F(fid, content, ex)
    if k == "file":
        t["k"] = world.F(b"K-id", X, False)
    elif k == "directory":
        t["k"] = world.D(b"K-id")
    return t


A_SMALL = (None, ("root", "a", X, False), ("root", "a", Y, True), ("root", "a", X, True), ("root", "b", X, False),
           ("D", "a", X, False))
A_FULL = A_SMALL + (("root", "a", Y, False), ("D", "a", Y, False))
B_SMALL = (None, ("root", "b", Y, False), ("root", "a", Y, False))
B_FULL = B_SMALL + (("D", "b", Y, False), ("D", "a", Y, False))
D_ALL = (None, "d", "e")


def kind_change_with_children():
    g, m = world.F(b"G-id", X, False), world.F(b"M-id", Y, False)
    return [
        {"k": world.D(b"K-id"), "k/g": g, "k/m": m},
        {"k": world.D(b"K-id"), "k/g": g},
        {"k": world.F(b"K-id", X, False), "m": m},
        {"k": world.F(b"K-id", X, False), "m": m, "a": world.F(b"A-id", X, False)},
    ]


def space(level):
    """level 0: 59 trees (quick); level 1: the larger products (thorough)."""
    out = []
    seen = set()

    def add(t):
        if t is None:
            return
        key = repr(sorted(t.items()))
        if key not in seen:
            seen.add(key)
            out.append(t)
    # id K as a directory WITH children (G = k/g, M = k/m) against K as a file, the children
    # deleted (G) or moved to the root (M): exercises "stopped being a directory -> the old
    # children belong to the selection" in both directions
    for t in kind_change_with_children():
        add(t)
    if level == 0:
        for a, b, d in itertools.product(A_SMALL, B_SMALL, D_ALL):
            add(_mk(a, b, d, None))
        for a, d, k in itertools.product((None, ("root", "a", X, False)), (None, "d"), ("file", "directory")):
            add(_mk(a, None, d, k))
        for a, d in itertools.product((None, ("root", "a", X, False), ("D", "a", X, False), ("S", "a", X, False)), ("d", "e")):
            add(_mk(a, None, d, None, sub=True))
    else:
        for a, b, d in itertools.product(A_FULL, B_SMALL + (("D", "b", Y, False),), D_ALL):
            add(_mk(a, b, d, None))
        for a, d, k in itertools.product(A_SMALL, (None, "d"), ("file", "directory")):
            add(_mk(a, None, d, k))
        for a, b, d in itertools.product(A_SMALL + (("S", "a", X, False), ("S", "a", Y, False)),
                                         (None, ("root", "b", Y, False)), ("d", "e")):
            add(_mk(a, b, d, None, sub=True))
    return out


def reference_changes(s, t):
    """{file_id: (oldpath, newpath, changed_content, kinds, execs)} for every id that differs
    between tree specs s and t (by identity, as the iter_changes docstring defines a change)."""
    def by_id(tree):
        return {e.fid: (p, e) for p, e in tree.items()}

    def pid(tree, p):
        par = p.rsplit("/", 1)[0] if "/" in p else None
        return tree[par].fid if par is not None else b"ROOT"
    bs, bt = by_id(s), by_id(t)
    out = {}
    for fid in set(bs) | set(bt):
        o, n = bs.get(fid), bt.get(fid)
        if o and n:
            (op, oe), (np_, ne) = o, n
            cc = oe.kind != ne.kind or (oe.kind == "file" and oe.content != ne.content)
            moved = pid(s, op) != pid(t, np_) or op.rsplit("/", 1)[-1] != np_.rsplit("/", 1)[-1]
            xc = bool(oe.exec) != bool(ne.exec)
            if cc or moved or xc:
                out[fid] = (op, np_, cc, (oe.kind, ne.kind), (bool(oe.exec), bool(ne.exec)))
        elif o:
            out[fid] = (o[0], None, True, (o[1].kind, None), (bool(o[1].exec), None))
        else:
            out[fid] = (None, n[0], True, (None, n[1].kind), (None, bool(n[1].exec)))
    return out


def lay(root, spec, extras=()):
    for p in sorted(spec, key=lambda p: p.split("/")):
        e = spec[p]
        ap = os.path.join(root, p)
        if e.kind == "directory":
            os.mkdir(ap)
        else:
            with open(ap, "wb") as f:
                f.write(e.content)
            os.chmod(ap, 0o755 if e.exec else 0o644)
    for p, content in extras:
        ap = os.path.join(root, p)
        if os.path.isdir(os.path.dirname(ap)) and not os.path.lexists(ap):
            with open(ap, "wb") as f:
                f.write(content)


def wipe(root):
    for n in os.listdir(root):
        if n in (".bzr", ".git"):
            continue
        ap = os.path.join(root, n)
        if os.path.isdir(ap) and not os.path.islink(ap):
            shutil.rmtree(ap)
        else:
            os.unlink(ap)


def version(tree, spec, with_ids):
    ps = sorted(spec, key=lambda p: p.split("/"))
    if not ps:
        return
    if with_ids:
        tree.add(ps, [spec[p].kind for p in ps], ids=[spec[p].fid for p in ps])
    else:
        tree.add(ps, [spec[p].kind for p in ps])


def is_git(tree):
    return type(tree).__name__.startswith("Git")


def unversion_all(tree):
    with tree.lock_tree_write():
        # every path is named explicitly (DirStateWorkingTree.unversion mishandles nested
        # sub-directories of an unversioned directory, see the C09 finding)
        paths = sorted((p for p in tree.all_versioned_paths() if p), key=lambda p: -p.count("/"))
        if is_git(tree):
            paths = [p for p in paths if "/" not in p]
        if paths:
            tree.unversion(paths)


def viol(acc, sig, detail):
    """Keep the smallest detail per signature (par.Acc caps the raw list)."""
    best = acc.__dict__.setdefault("best", {})
    acc.count("violations_raw")
    k = (len(repr(detail.get("filter"))), detail.get("source", 0), detail.get("target", 0), len(repr(detail)),
         repr(detail))
    if sig not in best or k < best[sig][0]:
        best[sig] = (k, detail)


def gather(accs, into):
    for a in accs:
        for sig, (k, d) in getattr(a, "best", {}).items():
            if sig not in into or k < into[sig][0]:
                into[sig] = (k, d)
    return into
