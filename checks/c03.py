"""C03 - Fetch, push and pull copy history completely and faithfully.

Source histories: every DAG with 3 revisions (<=2 ordered parents) x every
assignment of 2 trees per revision ({a:x} / {a:y, d/, d/b:z exec}; re-adds,
reverts and identical parallel changes arise), plus one ghost right-hand parent
at every single-parent position, committed with the real commit code in the
source format (branch-level and smart-server routes: every DAG x the two
alternating assignments + ghosts; thorough adds every 4-revision DAG x the
alternating assignments + ghosts for four configurations).  For each history, each configuration and
each ancestor-closed subset S of the revisions the target is pre-filled with S
(by earlier fetches, snapshot taken) and then, for every tip not in S, the tip
is transferred, and transferred a second time.  Configurations: repository
fetch for format pairs (quick: 2a->2a, 0.92->0.92, 0.92->2a, rich-root-pack->2a,
knit->0.92, 1.9->1.14; thorough: all 49 compatible ordered pairs among 2a,
pack-0.92, rich-root-pack, knit, 1.9, 1.14, 1.14-rich-root, dirstate-tags);
2a->2a additionally by Branch.pull, Branch.push, into a repository stacked on a
fallback that holds S, and through the in-process loopback smart server in both
directions (remote target: insert_stream; remote source: get_stream; push to /
pull from a remote branch), and from a remote source that is itself a STACKED
branch served by the smart server (relative stacked-on location, so the
fallback is remote too), with the history split between the stacked repository
and its fallback in every way (every ancestor-closed subset F lives in the
fallback, the rest in the stacked repository; includes merges whose right-hand
parent is only in the fallback) x every target pre-content x every tip;
pack-0.92->2a also with the tree-delta based
InterDifferingSerializer (selected with the IDS_always debug flag, as breezy
itself only selects it for file:// repositories).

Oracle (from the statement): the target has the tip and every non-ghost
ancestor; for each of them revision metadata, tree content incl. last-changed
revisions, per-file parents of the introduced texts (root texts only when both
sides are rich-root) and the Testament / StrictTestament / StrictTestament3
short texts are equal on both sides; Repository.check() of the target reports
nothing that the source's does not; the second transfer performs no mutating
store operation on the repository outside lock directories and leaves the
target store byte-identical.  Any exception is a finding.
"""
from mc import par
from mc.evidence import HarnessError

from . import _fetchworld as fw

ID = "C03"
LEVEL = "exploration"
TECHNIQUE = "bounded exhaustive enumeration of histories x target pre-contents x tips x format pairs/routes on real repositories, differential against the source"

FORMATS = ("2a", "pack-0.92", "rich-root-pack", "knit", "1.9", "1.14", "1.14-rich-root", "dirstate-tags")
RICH = {"2a", "rich-root-pack", "1.14-rich-root"}
QUICK_PAIRS = (("2a", "2a"), ("pack-0.92", "pack-0.92"), ("pack-0.92", "2a"), ("rich-root-pack", "2a"),
               ("knit", "pack-0.92"), ("1.9", "1.14"))
ROUTES_2A = ("pull", "push", "stacked", "smart-fetch-to", "smart-fetch-from", "smart-push", "smart-pull",
             "smart-fetch-from-stacked")
SPLIT_ROUTES = ("smart-fetch-from-stacked",)      # routes whose source is enumerated over (stacked | fallback) splits


def configs(thorough, n):
    if thorough and n <= 3:
        pairs = [(s, t) for s in FORMATS for t in FORMATS if not (s in RICH and t not in RICH)]
    else:
        pairs = list(QUICK_PAIRS)
    out = [(s, t, "fetch") for s, t in pairs]
    out += [("2a", "2a", r) for r in ROUTES_2A]
    out.append(("pack-0.92", "2a", "fetch-ids"))
    if thorough and n <= 3:
        out += [("pack-0.92", "2a", r) for r in ("stacked", "smart-fetch-to", "smart-fetch-from")]
        out += [(s, t, "fetch-ids") for s, t in (("rich-root-pack", "2a"), ("knit", "2a"), ("pack-0.92", "rich-root-pack"))]
    return out


def _open_target(T, route, tf, fallback_nodes, hist, src_repo):
    """Create the (empty) target for a route in store T; returns nothing (objects are re-opened)."""
    from mc import world as mw
    if route == "stacked":
        fb = mw.make_branch(T.transport("fallback"), tf)
        for h in hist.heads(fallback_nodes):
            fb.repository.fetch(src_repo, revision_id=hist.revid(h))
        b = mw.make_branch(T.transport("t"), tf)
        b.set_stacked_on_url("../fallback")
    else:
        mw.make_branch(T.transport("t"), tf)


def _make_split_source(S, k, hist, F, src_repo):
    """In store S: split<k>/fallback holds the ancestor-closed set F, split<k>/stk is a branch stacked on
    '../fallback' (relative, as on a hosting site) whose own repository holds everything else."""
    from mc import world as mw
    S.transport("split%d" % k).ensure_base()
    fb = mw.make_branch(S.transport("split%d/fallback" % k), "2a")
    for h in hist.heads(F):
        fb.repository.fetch(src_repo, revision_id=hist.revid(h))
    if F:
        fb.generate_revision_history(hist.revid(max(F)))
    b = mw.make_branch(S.transport("split%d/stk" % k), "2a")
    b.set_stacked_on_url("../fallback")
    from breezy.branch import Branch
    b = Branch.open(S.url + "split%d/stk" % k)
    for h in hist.heads(range(hist.n)):
        b.repository.fetch(src_repo, revision_id=hist.revid(h))
    b.generate_revision_history(hist.revid(hist.n - 1))
    # the split must be physical: the stacked repository holds exactly the complement of F
    from breezy.repository import Repository
    r0 = Repository.open(S.url + "split%d/stk" % k)
    with r0.lock_read():
        own = {key[-1] for key in r0.revisions.keys()}
    want = {hist.revid(i) for i in range(hist.n) if i not in F}
    if r0._fallback_repositories or own != want:
        raise HarnessError("split source: stacked repository holds %r, expected %r" % (sorted(own), sorted(want)))
    return "split%d/stk" % k


def _do(route, S, T, hist, tip, src="src"):
    """Perform the transfer of `tip` from the source (store S, branch `src`) to the target (store T, 't')."""
    from breezy.branch import Branch
    from . import _loopback
    rid = hist.revid(tip)
    if route in ("fetch", "stacked"):
        tgt = Branch.open(T.url + "t").repository
        tgt.fetch(Branch.open(S.url + "src").repository, revision_id=rid)
    elif route == "fetch-ids":
        # the tree-delta based cross-serializer fetcher; breezy selects it only for file:// repositories,
        # the documented debug flag selects it for any transport
        from breezy import debug
        from breezy.bzr.vf_repository import InterDifferingSerializer
        from breezy.repository import InterRepository
        tgt = Branch.open(T.url + "t").repository
        srcr = Branch.open(S.url + "src").repository
        debug.set_debug_flag("IDS_always")
        try:
            if not isinstance(InterRepository.get(srcr, tgt), InterDifferingSerializer):
                raise HarnessError("InterDifferingSerializer was not selected")
            tgt.fetch(srcr, revision_id=rid)
        finally:
            debug.unset_debug_flag("IDS_always")
    elif route == "pull":
        Branch.open(T.url + "t").pull(Branch.open(S.url + "src"), stop_revision=rid, overwrite=True)
    elif route == "push":
        Branch.open(S.url + "src").push(Branch.open(T.url + "t"), stop_revision=rid, overwrite=True)
    elif route == "smart-fetch-to":
        tgt = Branch.open(_loopback.url_for(T) + "t").repository
        tgt.fetch(Branch.open(S.url + "src").repository, revision_id=rid)
    elif route in ("smart-fetch-from", "smart-fetch-from-stacked"):
        tgt = Branch.open(T.url + "t").repository
        rsrc = Branch.open(_loopback.url_for(S) + src).repository
        if route == "smart-fetch-from-stacked":
            from breezy.bzr.remote import RemoteRepository
            if not (rsrc._fallback_repositories and all(isinstance(f, RemoteRepository) for f in rsrc._fallback_repositories)):
                raise HarnessError("stacked smart source: fallback is not a RemoteRepository")
        tgt.fetch(rsrc, revision_id=rid)
    elif route == "smart-push":
        Branch.open(S.url + "src").push(Branch.open(_loopback.url_for(T) + "t"), stop_revision=rid, overwrite=True)
    elif route == "smart-pull":
        Branch.open(T.url + "t").pull(Branch.open(_loopback.url_for(S) + "src"), stop_revision=rid, overwrite=True)
    else:
        raise ValueError(route)


FACT_KEYS = ("meta", "tree", "text_parents", "testament", "strict", "strict3")


def check_history(hist, cfgs, acc):
    from breezy.branch import Branch
    from mc import world as mw
    from mc.vfs import new_store
    from . import _loopback
    subsets = hist.closed_subsets()
    by_src = {}
    for cfg in cfgs:
        by_src.setdefault(cfg[0], []).append(cfg)
    for sf, lst in by_src.items():
        S = new_store()
        S.logging = False
        try:
            sb = mw.make_branch(S.transport("src"), sf)
            fw.build(sb, hist)
            src_repo = Branch.open(S.url + "src").repository
            with src_repo.lock_read():
                src_facts = {i: fw.rev_facts(src_repo, hist.revid(i)) for i in range(hist.n)}
                src_check = set(fw.check_summary(src_repo))
            split_src = {}
            for (_sf, tf, route) in lst:
                name = "%s:%s->%s" % (route, sf, tf)
                same_root = (sf in RICH) == (tf in RICH)
                splits = hist.source_splits() if route in SPLIT_ROUTES else [None]
                for F, pre in [(F, pre) for F in splits for pre in subsets]:
                    tips = [i for i in range(hist.n) if i not in pre]
                    if not tips:
                        continue
                    for tip in tips:      # accounting depends on the enumeration only, never on the code under test
                        acc.n += 1
                        acc.count("cases:" + name)
                        anc = hist.ancestors(tip)
                        overlap = set(pre) & anc
                        if overlap and overlap != anc:
                            acc.nt((name, hist.key(), F, pre, tip))
                        elif F is not None and (set(F) & anc) and not anc <= set(F):
                            acc.nt((name, hist.key(), F, pre, tip))
                    src = "src"
                    if F is not None:
                        if F not in split_src:
                            try:
                                split_src[F] = _make_split_source(S, len(split_src), hist, F, src_repo)
                            except HarnessError:
                                raise
                            except Exception as e:  # noqa
                                split_src[F] = e
                        if isinstance(split_src[F], Exception):
                            e = split_src[F]
                            acc.violation("%s:source-setup:%s:%s" % (name, type(e).__name__, fw.innermost_repo_frame(e)),
                                          {"config": name, "history": hist.describe(), "pre_content": sorted(pre),
                                           "source_fallback_content": sorted(F), "tip": tips[0], "error": str(e)[:300]})
                            continue
                        src = split_src[F]
                    T = new_store()
                    try:
                        T.logging = False
                        try:
                            _open_target(T, route, tf, pre, hist, src_repo)
                            if route != "stacked":
                                tr = Branch.open(T.url + "t").repository
                                for h in hist.heads(pre):
                                    tr.fetch(src_repo, revision_id=hist.revid(h))
                        except Exception as e:  # noqa
                            acc.violation("%s:prefill:%s:%s" % (name, type(e).__name__, fw.innermost_repo_frame(e)),
                                          {"config": name, "history": hist.describe(), "pre_content": sorted(pre), "tip": tips[0],
                                           "error": str(e)[:300]})
                            continue
                        snap = T.walk()
                        for k, tip in enumerate(tips):
                            if k:
                                T.restore(snap)
                            one_case(acc, name, route, S, T, hist, pre, tip, src_facts, src_check, same_root, src, F)
                    finally:
                        _loopback.forget(T)
                        T.close()
        finally:
            _loopback.forget(S)
            S.close()


def one_case(acc, name, route, S, T, hist, pre, tip, src_facts, src_check, same_root, src="src", F=None):
    from breezy.branch import Branch
    anc = hist.ancestors(tip)
    detail = {"config": name, "history": hist.describe(), "pre_content": sorted(pre), "tip": tip}
    if F is not None:
        detail["source_fallback_content"] = sorted(F)
    try:
        _do(route, S, T, hist, tip, src)
    except Exception as e:  # noqa
        acc.violation("%s:%s:%s" % (name, type(e).__name__, fw.innermost_repo_frame(e)), dict(detail, error=str(e)[:300]))
        return
    tb = Branch.open(T.url + "t")
    tgt = tb.repository
    ok = True
    with tgt.lock_read():
        present = set(tgt.all_revision_ids())
        want = {hist.revid(i) for i in anc}
        if not want <= present:
            acc.violation("%s:ancestor-missing-in-target" % name, dict(detail, missing=sorted(want - present)))
            return
        extra = present - want - {hist.revid(i) for i in pre}
        if extra:
            acc.count("transferred-more-than-the-ancestry:" + name)
        for i in sorted(anc):
            try:
                got = fw.rev_facts(tgt, hist.revid(i))
            except Exception as e:  # noqa
                acc.violation("%s:target-unreadable:%s:%s" % (name, type(e).__name__, fw.innermost_repo_frame(e)),
                              dict(detail, revision=i, error=str(e)[:300]))
                ok = False
                break
            keys = FACT_KEYS + (("root", "root_text_parents") if same_root else ())
            for k in keys:
                if got[k] != src_facts[i][k]:
                    acc.violation("%s:%s-differs" % (name, k), dict(detail, revision=i, source=src_facts[i][k], target=got[k]))
                    ok = False
            if not ok:
                break
        if ok:
            try:
                probs = set(fw.check_summary(tgt))
            except Exception as e:  # noqa
                acc.violation("%s:check:%s:%s" % (name, type(e).__name__, fw.innermost_repo_frame(e)), dict(detail, error=str(e)[:300]))
                probs = set()
            new = sorted(probs - src_check, key=repr)
            if new:
                acc.violation("%s:check-reports:%s" % (name, new[0][0]), dict(detail, reported=new[:4]))
        if route in ("pull", "push", "smart-push", "smart-pull") and tb.last_revision() != hist.revid(tip):
            acc.violation("%s:branch-tip-not-updated" % name, dict(detail, tip_now=tb.last_revision()))
    acc.outcomes.add((name, "ok" if ok else "differs"))
    # again: transfers nothing, changes nothing
    before = T.digest()
    T.log = []
    T.logging = True
    try:
        _do(route, S, T, hist, tip, src)
    except Exception as e:  # noqa
        acc.violation("%s:again:%s:%s" % (name, type(e).__name__, fw.innermost_repo_frame(e)), dict(detail, error=str(e)[:300]))
        return
    finally:
        T.logging = False
    ops = [op for op in T.log if "/repository/" in op.path + "/"]
    mut = fw.mutating_outside_locks(ops)
    T.log = []
    if mut:
        acc.violation("%s:again:mutating-repository-ops" % name, dict(detail, ops=mut[:6]))
    if T.digest() != before:
        acc.violation("%s:again:store-changed" % name, detail)


def _work(chunk):
    acc = par.Acc()
    for hist, cfgs in chunk:
        check_history(hist, cfgs, acc)
        acc.sample({"history": hist.describe(), "configs": ["%s:%s->%s" % (r, s, t) for s, t, r in cfgs][:8],
                    "pre_contents": [sorted(s) for s in hist.closed_subsets()]})
    return acc


LIGHT_ROUTES = ("pull", "push", "smart-fetch-to", "smart-fetch-from", "smart-push", "smart-pull", "smart-fetch-from-stacked")


def plan(ctx):
    """[(history, configs)]: format pairs and the stacked route get every tree assignment; the
    branch-level and smart-server routes get every DAG x the two alternating assignments (+ ghosts);
    4-revision DAGs (thorough) get the alternating assignments and four configurations."""
    items = []
    cf = configs(ctx.thorough, 3)
    heavy = [c for c in cf if c[2] not in LIGHT_ROUTES]
    light = [c for c in cf if c[2] in LIGHT_ROUTES]
    alt_keys = {h.key() for h in fw.histories(3, assignments="alt")}
    for h in fw.histories(3):
        if h.key() in alt_keys:
            items.append((h, heavy + light))
        else:   # thorough: the stacked smart source (all splits) for every tree assignment
            items.append((h, heavy + ([c for c in light if c[2] in SPLIT_ROUTES] if ctx.thorough else [])))
    if ctx.thorough:
        cf4 = [("2a", "2a", "fetch"), ("pack-0.92", "2a", "fetch"), ("2a", "2a", "smart-fetch-to"), ("2a", "2a", "stacked")]
        for h in fw.histories(4, assignments="alt"):
            items.append((h, cf4))
    return items


def run(ctx):
    items = plan(ctx)
    a0 = par.Acc()
    check_history(items[0][0], items[0][1][:2], a0)
    a1 = par.Acc()
    check_history(items[0][0], items[0][1][:2], a1)
    if (a0.n, sorted(s for s, _d in a0.violations), a0.counters) != (a1.n, sorted(s for s, _d in a1.violations), a1.counters):
        raise HarnessError("non-deterministic result")
    # split big items so that work is balanced: one work unit = (history, configs of one source format)
    work = []
    for h, cf in items:
        by = {}
        for c in cf:
            by.setdefault(c[0], []).append(c)
        for sf in sorted(by):
            lst = by[sf]
            step = 6
            for k in range(0, len(lst), step):
                work.append((h, lst[k:k + step]))
    acc = par.merge(par.pmap(_work, work, seed=ctx.seed, chunks_per_job=8))
    best = {}
    for sig, d in acc.violations:
        k = (len(d["history"]["dag"]), d["history"]["ghost_parent_at"] is not None, len(d.get("pre_content", ())),
             len(d.get("source_fallback_content", ())), repr(d["history"]), d.get("tip", 0))
        if sig not in best or k < best[sig][0]:
            best[sig] = (k, d)
    for sig in sorted(best):
        ctx.violation(sig, best[sig][1])
    ctx.assumptions.append("target pre-contents are produced by earlier fetches of the heads of S from the same source")
    ctx.assumptions.append("stacked smart sources are produced by fetching F into the fallback and all heads into a branch "
                           "stacked on '../fallback'; the physical split is asserted before use")
    ctx.assumptions.append("revisions beyond the requested ancestry arriving in the target are counted, not flagged")
    cases = {k[6:]: v for k, v in acc.counters.items() if k.startswith("cases:")}
    return {
        "evaluations": acc.n,
        "distinct_nontrivial": len(acc.nontrivial),
        "rule": "one evaluation = one (history, configuration, pre-content S, tip) transfer + re-transfer, fully compared; "
                "non-trivial = S contains some but not all of the tip's ancestry",
        "histories": len(items),
        "configurations": len(cases),
        "cases_per_configuration": dict(sorted(cases.items())),
        "counters": {k: v for k, v in sorted(acc.counters.items()) if not k.startswith("cases:")},
        "outcomes": sorted(acc.outcomes),
        "samples": acc.samples[:2],
        "exhaustive": True,
    }


def replay(ctx, data):
    """Re-run the single reported (history, configuration, pre-content, tip) case."""
    d = data["first"]
    route, pair = d["config"].split(":", 1)
    sf, tf = pair.split("->")
    h = d["history"]
    hist = fw.History(h["dag"], h["trees"], h["ghost_parent_at"])
    acc = par.Acc()

    class One(fw.History):
        def closed_subsets(self):
            return [frozenset(d["pre_content"])]

        def source_splits(self):
            return [frozenset(d.get("source_fallback_content", ()))]
    one = One(hist.dag, hist.states, hist.ghost_at)
    check_history(one, [(sf, tf, route)], acc)
    sigs = sorted({s for s, _x in acc.violations})
    print("  signatures on replay:", sigs)
    return data["signature"] not in sigs
