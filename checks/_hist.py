"""Shared small-scope history space for C35 / C40 / C44: connected DAGs x whole-tree states.

A history = (dag, assignment): dag from mc.gen.dags restricted to those whose
last node reaches every node (a branch tip with its ancestry), assignment = one
tree state per node from STATES.  The states are chosen so that the *pairs*
(parent state -> child state) contain: content edit, exec-bit flip, symlink
retarget, file rename, directory rename (children move), move into a
directory, nested directories, deletion, kind changes (file<->symlink,
directory->file), an empty directory, an empty file, binary content;
merges of any two of them arise from the DAG enumeration.

Names have >= 2 characters on purpose (see the C35 known finding about
single-character paths in breezy.git.fetch.import_git_blob).
"""
import itertools

from mc import gen
from mc import world as mw

F, D, L = mw.F, mw.D, mw.L

BIN = b"\x00\xff\xfebin\r\nx"

STATES = (
    # 0: empty tree
    {},
    # 1: base layout
    {"fa": F(b"a-id", b"1\n"), "dd": D(b"d-id"), "dd/fs": F(b"s-id", b"s\n"), "ln": L(b"l-id", "fa")},
    # 2: exec flip on fa, link retarget
    {"fa": F(b"a-id", b"1\n", True), "dd": D(b"d-id"), "dd/fs": F(b"s-id", b"s\n"), "ln": L(b"l-id", "dd/fs")},
    # 3: fa renamed, dd renamed (child moves), child edited, link deleted, new empty directory
    {"fb": F(b"a-id", b"1\n"), "de": D(b"d-id"), "de/fs": F(b"s-id", b"2\n"), "ee": D(b"e-id")},
    # 4: kind changes: a-id file->symlink, d-id directory->binary file (child gone), l-id symlink->file
    {"fa": L(b"a-id", "zz"), "dd": F(b"d-id", BIN), "ln": F(b"l-id", b"fa")},
    # 5: fa moved into dd, nested directory, exec file inside, empty file
    {"dd": D(b"d-id"), "dd/fa": F(b"a-id", b"1\n"), "dd/sub": D(b"u-id"), "dd/sub/fs": F(b"s-id", b"s\n", True),
     "em": F(b"m-id", b"")},
    # 6: same contents as state 1 under other ids and names (blob sharing across file ids; '-'/'.'/'+' in names).
    #    (non-ASCII names are not used: MemoryTree, through which histories are committed, cannot hold them)
    {"f-b.c": F(b"b-id", b"1\n"), "g+d": D(b"g-id"), "g+d/fs": F(b"t-id", b"s\n"), "l.k": L(b"k-id", "f-b.c")},
)


def connected_dags(max_n, min_n=1):
    out = []
    for n in range(min_n, max_n + 1):
        for d in gen.dags(n):
            if gen.connected_to_tip(d):
                out.append(d)
    return out


def histories(max_n, nstates, min_n=1, nstates_for=None, state_ids=None):
    """All (dag, assignment) with assignment a tuple of state indexes.  nstates_for: {n: nstates} overrides;
    state_ids: explicit tuple of state indexes to draw from (instead of range(nstates))."""
    out = []
    for d in connected_dags(max_n, min_n):
        k = (nstates_for or {}).get(len(d), nstates)
        pool = tuple(state_ids) if state_ids is not None else tuple(range(k))
        for a in itertools.product(pool, repeat=len(d)):
            out.append((d, a))
    return out


def revid(i, tag=b""):
    return b"r%d%s" % (i, tag)


def commit_history(branch, dag, assign, tag=b"", states=STATES, **kw):
    """Materialise the history with real commits; returns list of revids (index = node)."""
    ids = []
    for i, parents in enumerate(dag):
        rid = revid(i, tag)
        mw.commit_spec(branch, rid, [ids[p] for p in parents], states[assign[i]],
                       timestamp=1_000_000_000.0 + 60 * i,
                       message=kw.get("messages", {}).get(i), committer=kw.get("committers", {}).get(i),
                       timezone=kw.get("timezones", {}).get(i, 0), revprops=kw.get("revprops", {}).get(i))
        ids.append(rid)
    tip = ids[-1]
    if branch.last_revision() != tip:
        with branch.lock_write():
            branch.generate_revision_history(tip)
    return ids


def nontrivial_history(dag, assign):
    """A history is non-trivial when some revision differs from its left-hand parent's tree or is a merge."""
    for i, ps in enumerate(dag):
        if len(ps) == 2:
            return True
        if ps and assign[ps[0]] != assign[i]:
            return True
    return False


def listing(spec, drop_empty_dirs=False):
    """{path: ('file', bytes, exec) | ('symlink', target) | ('directory',)} from a tree spec."""
    out = {}
    for p, e in spec.items():
        if e.kind == "file":
            out[p] = ("file", e.content, bool(e.exec))
        elif e.kind == "symlink":
            out[p] = ("symlink", e.content)
        else:
            out[p] = ("directory",)
    if drop_empty_dirs:
        changed = True
        while changed:
            changed = False
            for p in [p for p, v in out.items() if v[0] == "directory"]:
                if not any(q.startswith(p + "/") for q in out):
                    del out[p]
                    changed = True
    return out


def tree_listing(tree, drop_empty_dirs=False):
    """Same shape as listing() from a real breezy Tree."""
    out = {}
    with tree.lock_read():
        for path, ie in tree.iter_entries_by_dir():
            if path == "":
                continue
            if ie.kind == "file":
                out[path] = ("file", tree.get_file_text(path), bool(tree.is_executable(path)))
            elif ie.kind == "symlink":
                out[path] = ("symlink", tree.get_symlink_target(path))
            else:
                out[path] = (ie.kind,)
    if drop_empty_dirs:
        changed = True
        while changed:
            changed = False
            for p in [p for p, v in out.items() if v[0] == "directory"]:
                if not any(q.startswith(p + "/") for q in out):
                    del out[p]
                    changed = True
    return out
