"""In-process smart server loopback (no threads, no sockets), private to C31/C32.

``LoopMedium`` is a real ``SmartClientStreamMedium`` whose ``_read_bytes`` hands the
request bytes the client has written so far to a fresh, real
``SmartServerPipeStreamMedium(in, out, backing_transport).serve()`` and then returns the
bytes the server wrote.  Everything between the client's ``_SmartClient`` and the server's
request handlers (protocol encoders/decoders, dispatcher, jail, error translation) is the
real code.

``bzr+loopl://<key>/path`` URLs give a ``RemoteTransport`` over such a medium; the backing
transport for <key> is taken from ``BACKINGS`` (filled with ``serve_url``).
"""
from io import BytesIO

import dromedary
from breezy.bzr.smart import medium as _medium
from breezy.transport import get_transport, register_urlparse_netloc_protocol
from breezy.transport import remote as _remote


class _Out(BytesIO):
    """Server output pipe; the value must survive the server's close()."""

    def close(self):
        pass


class LoopMedium(_medium.SmartClientStreamMedium):

    def __init__(self, base, backing, root_client_path="/"):
        super().__init__(base)
        self._backing = backing
        self._root_client_path = root_client_path
        self._req = []
        self._resp = None
        self.requests = 0
        self.server_errors = []

    def _accept_bytes(self, b):
        if self._resp is not None:
            # a new request starts: whatever the client left unread belongs to the old one
            self._resp = None
        self._req.append(b)

    def _flush(self):
        pass

    def _serve(self):
        inp = BytesIO(b"".join(self._req))
        self._req = []
        out = _Out()
        srv = _medium.SmartServerPipeStreamMedium(inp, out, self._backing, timeout=4.0)
        srv.root_client_path = self._root_client_path
        srv.serve()
        self.requests += 1
        return out.getvalue()

    def _read_bytes(self, count):
        if self._resp is None:
            self._resp = BytesIO(self._serve())
        return self._resp.read(count)

    def disconnect(self):
        self._req = []
        self._resp = None


BACKINGS = {}      # key -> (backing transport factory or transport, forced protocol version or None)
MEDIA = {}         # key -> list of media created (request counting)


class LoopTransport(_remote.RemoteTransport):
    """bzr+loopl://key/path"""

    def _build_medium(self):
        key = self._parsed_url.host
        backing, version = BACKINGS[key]
        if callable(backing):
            backing = backing()
        m = LoopMedium(self.base, backing)
        if version == 2:
            m._protocol_version = 2
            m._remember_remote_is_before((1, 6))
        MEDIA.setdefault(key, []).append(m)
        return m, None


dromedary.register_transport("bzr+loopl://", LoopTransport)
register_urlparse_netloc_protocol("bzr+loopl")


def serve_url(key, backing_url, version=None):
    """Serve the directory at backing_url; returns the client URL."""
    BACKINGS[key] = ((lambda: get_transport(backing_url)), version)
    MEDIA[key] = []
    return "bzr+loopl://%s/" % key


def unserve(key):
    BACKINGS.pop(key, None)
    for m in MEDIA.pop(key, []):
        m.disconnect()


def request_count(key):
    return sum(m.requests for m in MEDIA.get(key, []))


# -- local workaround for a small bug in mc/vfs.py: VfsTransport.put_file returns None instead
# of the number of bytes written; dromedary's Rust path-filtering/chroot decorators stacked on
# top of a vfs+ transport need the int.
def _patch_vfs_put_file():
    from mc import vfs
    if getattr(vfs.VfsTransport.put_file, "_returns_len", False):
        return
    orig = vfs.VfsTransport.put_file

    def put_file(self, relpath, f, mode=None):
        data = f.read()
        r = orig(self, relpath, BytesIO(data), mode)
        return len(data) if r is None else r

    put_file._returns_len = True
    vfs.VfsTransport.put_file = put_file


_patch_vfs_put_file()
