"""C50 - Command-line splitting inverts shell-style quoting.

Part A (round trip): every argument list over the alphabet {a, space, ", ', backslash}
(quick: 1 arg <= 5 chars, 2 args <= 3 chars each, 3 args <= 2 chars each; thorough:
<= 7 / <= 4 / <= 3) is quoted by every applicable style the documented rules permit
(whole argument in double quotes; in single quotes when enabled; bare with escaped
quotes when it has no whitespace; only the whitespace runs quoted; all quote
characters backslash-escaped inside double quotes), styles chosen independently per
argument for lists of <= 2 arguments, joined with one space (and with doubled /
leading / trailing spaces), with single quotes enabled and disabled, and must be
split back by the real breezy.cmdline.split into exactly the original list.
Quoting rule used (from the rules documented in breezy/cmdline.py: 2N backslashes
before a quote -> N backslashes, 2N+1 -> N backslashes and a literal quote, N
backslashes not before a quote -> N backslashes): a run of N backslashes is written
as 2N when a quote character follows (literal or the closing quote) and a literal
active quote character gets one more backslash.
Part B (no loss / no invention): every raw string up to 7 (thorough 9) characters
over the same alphabet, both settings: the concatenated tokens are a subsequence of
the input, every non-syntax character (not whitespace, backslash or an enabled quote
character) is kept in order, a string without enabled quote characters is split
exactly at whitespace, split() agrees with Splitter's tokens, and (secondary) the
result equals a small reference tokenizer written from the documented rules.
"""
import itertools

from mc import par
from mc.evidence import HarnessError

from . import _u5

ID = "C50"
LEVEL = "exploration"
TECHNIQUE = "exhaustive small-alphabet enumeration of argument lists x quoting styles and of raw strings on the real splitter"

ALPHA = ("a", " ", '"', "'", "\\")
STYLES = ("dq", "sq", "bare", "seg", "dq-esc")


def _escape(arg, quotes, literal_escaped, closing=True):
    """Write arg so that the documented backslash rules give it back.
    quotes: enabled quote characters; literal_escaped: quote characters that must be written
    as backslash-quote here; closing: a quote character follows the end of arg."""
    out = []
    i, n = 0, len(arg)
    while i < n:
        c = arg[i]
        if c == "\\":
            j = i
            while j < n and arg[j] == "\\":
                j += 1
            k = j - i
            nxt = arg[j] if j < n else None
            if (nxt is None and closing) or (nxt is not None and nxt in quotes):
                out.append("\\" * (2 * k))
            else:
                out.append("\\" * k)
            i = j
            continue
        if c in literal_escaped:
            out.append("\\" + c)
        else:
            out.append(c)
        i += 1
    return "".join(out)


def quote(arg, style, sq):
    """Quoted form of arg in the given style, or None if the style does not apply."""
    quotes = '"\'' if sq else '"'
    if style == "dq":
        return '"' + _escape(arg, quotes, '"') + '"'
    if style == "dq-esc":
        if not any(c in quotes for c in arg):
            return None
        return '"' + _escape(arg, quotes, quotes) + '"'
    if style == "sq":
        if not sq:
            return None
        return "'" + _escape(arg, quotes, "'") + "'"
    if style == "bare":
        if arg == "" or " " in arg:
            return None
        return _escape(arg, quotes, quotes, closing=False)
    if style == "seg":
        if " " not in arg:
            return None
        # quote only the whitespace runs: pieces alternate bare / "spaces"
        out = []
        i, n = 0, len(arg)
        while i < n:
            j = i
            if arg[i] == " ":
                while j < n and arg[j] == " ":
                    j += 1
                out.append('"' + arg[i:j] + '"')
            else:
                while j < n and arg[j] != " ":
                    j += 1
                # a quote character follows this bare piece (the opening quote of the space run) unless at the end
                out.append(_escape(arg[i:j], quotes, quotes, closing=j < n))
            i = j
        return "".join(out)
    raise HarnessError(style)


def ref_split(s, quotes):
    """Reference tokenizer written from the documented rules (not from the state machine)."""
    out = []
    i, n = 0, len(s)
    while True:
        while i < n and s[i].isspace():
            i += 1
        if i >= n:
            return out
        tok = []
        saw_quote = False
        inq = None
        while i < n:
            c = s[i]
            if c == "\\":
                j = i
                while j < n and s[j] == "\\":
                    j += 1
                k = j - i
                if j < n and s[j] in quotes:
                    tok.append("\\" * (k // 2))
                    if k % 2:
                        tok.append(s[j])
                        j += 1
                else:
                    tok.append("\\" * k)
                i = j
                continue
            if inq is not None:
                if c == inq:
                    inq = None
                else:
                    tok.append(c)
                i += 1
                continue
            if c.isspace():
                break
            if c in quotes:
                inq = c
                saw_quote = True
            else:
                tok.append(c)
            i += 1
        t = "".join(tok)
        if t or saw_quote:
            out.append(t)


def is_subsequence(small, big):
    it = iter(big)
    return all(ch in it for ch in small)


def words(maxlen):
    for k in range(0, maxlen + 1):
        for w in itertools.product(ALPHA, repeat=k):
            yield "".join(w)


def _call_split(cmdline, s, sq, vs, inp, site):
    try:
        return cmdline.split(s, single_quotes_allowed=sq)
    except Exception as e:  # noqa
        from mc import boot
        vs.add("%s:%s:%s" % (site, type(e).__name__, _u5.innermost_repo_frame(e, boot.REPO)),
               dict(input=inp, error=repr(e)))
        return None


_QCACHE = {}


def _quoted(a, sq):
    r = _QCACHE.get((a, sq))
    if r is None:
        r = []
        for st in STYLES:
            q = quote(a, st, sq)
            if q is not None:
                r.append((st, q))
        _QCACHE[(a, sq)] = r
    return r


def check_list(cmdline, args, acc, vs, independent, seps):
    for sq in (True, False):
        per_arg = [_quoted(a, sq) for a in args]
        if independent:
            combos = itertools.product(*per_arg)
        else:
            combos = []
            for st in STYLES:
                row = []
                for a, opts in zip(args, per_arg):
                    d = dict(opts)
                    row.append((st, d[st]) if st in d else ("dq", d["dq"]))
                if any(x[0] == st for x in row):
                    combos.append(tuple(row))
        for combo in combos:
            for sep in seps:
                if sep == " ":
                    line = " ".join(q for _, q in combo)
                else:
                    line = " " + "  ".join(q for _, q in combo) + " "
                acc.n += 1
                inp = {"args": list(args), "styles": [st for st, _ in combo], "line": line, "single_quotes_allowed": sq}
                got = _call_split(cmdline, line, sq, vs, inp, "split(quoted)")
                if got is None:
                    continue
                acc.outcomes.add((len(args), tuple(st for st, _ in combo), sq, got == list(args)))
                if got != list(args):
                    kind = "lost-or-merged-args" if len(got) != len(args) else "arg-changed"
                    vs.add("split(quote(args)):%s:%s" % (kind, "sq" if sq else "nosq"), dict(input=inp, got=got))


def _list_work(chunk):
    from breezy import cmdline
    acc = par.Acc()
    vs = _u5.SmallestViolations(acc)
    for shape, first, lens in chunk:
        # lens: max length of the remaining args; shape: number of args
        rest = [list(words(l)) for l in lens]
        for tail in itertools.product(*rest):
            args = (first,) + tail
            if any(any(c in a for c in ' "\'\\') or a == "" for a in args):
                acc.count("nontrivial")
            check_list(cmdline, args, acc, vs, independent=shape <= 2,
                       seps=(" ", "  ") if shape <= 2 else (" ",))
        acc.sample({"args": [first] + list(tail), "quoted": {st: quote(first, st, True) for st in STYLES}})
    vs.flush()
    return acc


def _raw_work(chunk):
    from breezy import cmdline
    acc = par.Acc()
    vs = _u5.SmallestViolations(acc)
    for prefix, maxlen in chunk:
        tails = [""] if maxlen is None else list(words(maxlen - len(prefix)))
        for tail in tails:
            s = prefix + tail
            for sq in (True, False):
                quotes = '"\'' if sq else '"'
                acc.n += 1
                inp = {"line": s, "single_quotes_allowed": sq}
                got = _call_split(cmdline, s, sq, vs, inp, "split(raw)")
                if got is None:
                    continue
                if any(c in quotes or c == "\\" for c in s):
                    acc.count("nontrivial")
                tag = "sq" if sq else "nosq"
                toks = [t for _, t in cmdline.Splitter(s, single_quotes_allowed=sq)]
                if toks != got:
                    vs.add("split-vs-Splitter:differ:" + tag, dict(input=inp, split=got, splitter=toks))
                joined = "".join(got)
                acc.outcomes.add((len(got), len(s) - len(joined)))
                if not is_subsequence(joined, s):
                    vs.add("split(raw):invents-or-reorders-characters:" + tag, dict(input=inp, got=got))
                syntax = set(quotes) | {"\\", " "}
                if [c for c in s if c not in syntax] != [c for c in joined if c not in syntax]:
                    vs.add("split(raw):loses-non-syntax-characters:" + tag, dict(input=inp, got=got))
                if not any(c in quotes for c in s) and got != s.split():
                    vs.add("split(raw):no-quotes-but-not-whitespace-split:" + tag, dict(input=inp, got=got, expected=s.split()))
                ref = ref_split(s, quotes)
                if ref != got:
                    vs.add("split(raw):differs-from-documented-rules-reference:" + tag, dict(input=inp, got=got, reference=ref))
        acc.sample({"line": prefix, "split": cmdline.split(prefix)})
    vs.flush()
    return acc


def run(ctx):
    l1, l2, l3 = ctx.q((5, 3, 2), (7, 4, 3))
    rawlen = ctx.q(7, 9)
    # self-test of the harness's own quoting against its own reference tokenizer on a tiny space
    for a in words(3):
        for sq in (True, False):
            for st in STYLES:
                q = quote(a, st, sq)
                if q is not None and ref_split(q, '"\'' if sq else '"') != [a]:
                    raise HarnessError("harness quoting/reference disagree: %r %s %r" % (a, st, q))
    items = []
    for first in words(l1):
        items.append((1, first, ()))
    for first in words(l2):
        items.append((2, first, (l2,)))
    for first in words(l3):
        items.append((3, first, (l3, l3)))
    # determinism audit on the first items
    a1, a2 = _list_work(items[:25]), _list_work(items[:25])
    if (a1.n, a1.violations, sorted(a1.outcomes, key=repr)) != (a2.n, a2.violations, sorted(a2.outcomes, key=repr)):
        raise HarnessError("determinism audit failed")
    accA = par.merge(par.pmap(_list_work, items, seed=ctx.seed))
    plen = 3
    ritems = [(w, None) for w in words(plen - 1)] + [(w, rawlen) for w in words(plen) if len(w) == plen]
    accB = par.merge(par.pmap(_raw_work, ritems, seed=ctx.seed))
    _u5.report_smallest(ctx, [accA, accB])
    n_lists = len(list(words(l1))) + len(list(words(l2))) ** 2 + len(list(words(l3))) ** 3
    return {
        "evaluations": accA.n + accB.n,
        "roundtrip_evaluations": accA.n,
        "argument_lists": n_lists,
        "raw_string_evaluations": accB.n,
        "distinct_nontrivial": accA.counters.get("nontrivial", 0) + accB.counters.get("nontrivial", 0),
        "rule": "part A: every list of 1 arg <=%d chars, 2 args <=%d, 3 args <=%d over %r x applicable quoting styles x "
                "{single quotes on, off} x separators; non-trivial (counted per distinct list) = some argument is empty or "
                "contains a space, quote or backslash; part B: every raw string <=%d chars x 2 settings, non-trivial = "
                "contains a backslash or an enabled quote; all enumerated once" % (l1, l2, l3, ALPHA, rawlen),
        "distinct_outcomes": len(accA.outcomes) + len(accB.outcomes),
        "roundtrip_failures": sum(1 for o in accA.outcomes if not o[3]),
        "max_raw_len": rawlen,
        "samples": accA.samples[:3] + accB.samples[:2],
        "exhaustive": True,
    }


def replay(ctx, data):
    """Re-split the recorded line; True if the signature is gone."""
    from breezy import cmdline
    inp = data["first"]["input"]
    acc = par.Acc()
    vs = _u5.SmallestViolations(acc)
    sq = inp["single_quotes_allowed"]
    if "args" in inp:
        got = _call_split(cmdline, inp["line"], sq, vs, inp, "split(quoted)")
        if got is not None and got != list(inp["args"]):
            kind = "lost-or-merged-args" if len(got) != len(inp["args"]) else "arg-changed"
            vs.add("split(quote(args)):%s:%s" % (kind, "sq" if sq else "nosq"), dict(input=inp, got=got))
        vs.flush()
    else:
        # a raw string: run the raw worker on exactly this string
        a = _raw_work([(inp["line"], None)])
        acc.violations.extend(a.violations)
    return data["signature"] not in [s for s, _ in acc.violations]
