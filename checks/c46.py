"""C46 - clean-tree deletes only what was asked for.

Real bzr (2a dirstate) and git working trees on /dev/shm.  A layout is the base
tree (versioned ignore file, `f`, `d/v`) plus a subset of a feature alphabet:
unknown / ignored / detritus-named files at the root and in a versioned
directory, unknown / ignored / detritus-named directories with content,
versioned files and a versioned directory with detritus names, nested bzr and
git branches (directly at an unversioned path, below an unversioned directory,
in a versioned directory, with ignored / detritus names), symlinks to a file
and a directory outside the tree, to a branch outside the tree, to a versioned
directory, and a symlink inside an unknown directory.  Every subset of the
alphabet up to a bounded size is built and, for each, every one of
2^3 category subsets x {dry run, no prompt, prompt answered yes, prompt
answered no} is run through breezy.clean_tree.clean_tree (plus the
`clean-tree` command object with no category flag) with a byte-exact snapshot
of the tree's parent directory (tree, nested control directories and a
sentinel directory next to the tree) before and after.

Oracle (from the statement only): nothing is created or modified; every
deleted path is an unversioned path that, or an unversioned ancestor of which,
belongs to a requested category by the harness' own naming rules (all readings
of "category of a path below an unversioned directory" are accepted); never a
versioned path, a directory holding versioned files, anything in a nested
branch, the tree's control directory or anything outside the tree; a dry run
and a declined prompt delete nothing; no exception.
"""
import contextlib
import io
import itertools
import os
import shutil
import stat
import traceback

from mc import boot, par, wt
from mc.evidence import HarnessError

ID = "C46"
LEVEL = "exploration"
TECHNIQUE = "exhaustive small-scope layout x option enumeration on real bzr and git working trees with before/after directory snapshots"

DETRITUS_SUFFIXES = (".THIS", ".BASE", ".OTHER", "~", ".tmp")   # `brz help clean-tree`: backups, conflict files, temp files
IGN = {"bzr": ".bzrignore", "git": ".gitignore"}


# ---- the feature alphabet ----------------------------------------------------
# Each feature: name -> list of actions.  Actions:
#   ("file", path)  ("dir", path)  ("link", path, target)  ("nested", path, kind)
#   ("version", path)   (path becomes versioned: added, not committed)
FEATURES = [
    ("u", [("file", "u")]),
    ("d/u", [("file", "d/u")]),
    ("i.ign", [("file", "i.ign")]),
    ("d/i.ign", [("file", "d/i.ign")]),
    ("f.BASE", [("file", "f.BASE")]),
    ("f~", [("file", "f~")]),
    ("d/x.tmp", [("file", "d/x.tmp")]),
    ("f.THIS+f.OTHER", [("file", "f.THIS"), ("file", "f.OTHER")]),
    ("ud/", [("dir", "ud"), ("file", "ud/x"), ("file", "ud/y~"), ("file", "ud/i.ign")]),
    ("ud3/sub/", [("dir", "ud3"), ("dir", "ud3/sub"), ("file", "ud3/sub/x")]),
    ("o.ign/", [("dir", "o.ign"), ("file", "o.ign/x")]),
    ("t.tmp/", [("dir", "t.tmp"), ("file", "t.tmp/x")]),
    ("e/", [("dir", "e")]),
    ("versioned k.tmp d/k~", [("file", "k.tmp"), ("version", "k.tmp"), ("file", "d/k~"), ("version", "d/k~")]),
    ("versioned dd.tmp/v + dd.tmp/u", [("dir", "dd.tmp"), ("file", "dd.tmp/v"), ("version", "dd.tmp"),
                                        ("version", "dd.tmp/v"), ("file", "dd.tmp/u")]),
    ("nested bzr nb/", [("nested", "nb", "bzr")]),
    ("nested git ng/", [("nested", "ng", "git")]),
    ("nested bzr ud2/nb/", [("dir", "ud2"), ("nested", "ud2/nb", "bzr")]),
    ("nested git ud5/ng/", [("dir", "ud5"), ("nested", "ud5/ng", "git")]),
    ("nested bzr d/nb/", [("nested", "d/nb", "bzr")]),
    ("nested git d/ng/", [("nested", "d/ng", "git")]),
    ("nested bzr p.ign/nb/", [("dir", "p.ign"), ("nested", "p.ign/nb", "bzr")]),
    ("nested bzr n.ign/", [("nested", "n.ign", "bzr")]),
    ("nested git nt.tmp/", [("nested", "nt.tmp", "git")]),
    ("link lf -> outside file", [("link", "lf", "../sentinel/s")]),
    ("link ld -> outside dir", [("link", "ld", "../sentinel")]),
    ("link li -> d", [("link", "li", "d")]),
    ("link ud4/l -> outside dir", [("dir", "ud4"), ("link", "ud4/l", "../../sentinel")]),
    ("link lb -> outside branch", [("link", "lb", "../sentinel/nbout")]),
    ("link l.tmp -> outside dir", [("link", "l.tmp", "../sentinel")]),
]
FNAMES = [f[0] for f in FEATURES]
FDICT = dict(FEATURES)

CATSETS = [cs for k in range(4) for cs in itertools.combinations(("unknown", "ignored", "detritus"), k)]
MODES = ("dry", "force", "yes", "no")


def own_categories(rel):
    """Categories of an unversioned path by its own name (harness rules, from the documentation:
    detritus = conflict/backup/temp names; ignored = matches `*.ign` (tree ignore file) or `*~`
    (default user ignores); unknown = unversioned and not ignored)."""
    cats = set()
    if rel.endswith(DETRITUS_SUFFIXES):
        cats.add("detritus")
    base = rel.rsplit("/", 1)[-1]
    if base.endswith(".ign") or base.endswith("~"):
        cats.add("ignored")
    else:
        cats.add("unknown")
    return cats


# ---- per worker templates -----------------------------------------------------
_T = {}


def templates():
    if _T:
        return _T
    base = boot.scratch("c46tmpl")
    for kind in ("bzr", "git"):
        root = os.path.join(base, kind)
        tree = wt.make_tree(kind, root)
        with open(os.path.join(root, IGN[kind]), "w") as f:
            f.write("*.ign\n")
        with open(os.path.join(root, "f"), "w") as f:
            f.write("f\n")
        os.mkdir(os.path.join(root, "d"))
        with open(os.path.join(root, "d", "v"), "w") as f:
            f.write("v\n")
        tree.add([IGN[kind], "f", "d", "d/v"] if kind == "bzr" else [IGN[kind], "f", "d/v"])
        kw = {"rev_id": b"base-1"} if kind == "bzr" else {}
        tree.commit("base", timestamp=1_000_000_000.0, timezone=0, committer="C <c@example.com>", **kw)
        # template of a nested branch: one committed file and one unknown file
        nroot = os.path.join(base, "nested-" + kind)
        nt = wt.make_tree(kind, nroot)
        with open(os.path.join(nroot, "wf"), "w") as f:
            f.write("nested working file\n")
        nt.add(["wf"])
        kw = {"rev_id": b"nested-1"} if kind == "bzr" else {}
        nt.commit("nested", timestamp=1_000_000_000.0, timezone=0, committer="C <c@example.com>", **kw)
        with open(os.path.join(nroot, "x~"), "w") as f:
            f.write("unknown in nested\n")
        _T[kind] = root
        _T["nested-" + kind] = nroot
    _T["base"] = base
    return _T


def full_snapshot(root):
    """{rel: ('file', bytes, mode) | ('dir',) | ('link', target)} for everything below root (nothing skipped)."""
    out = {}
    for dp, dns, fns in os.walk(root):
        rel = os.path.relpath(dp, root)
        rel = "" if rel == "." else rel
        for d in list(dns):
            p = os.path.join(dp, d)
            r = rel + "/" + d if rel else d
            if os.path.islink(p):
                out[r] = ("link", os.readlink(p))
                dns.remove(d)
            else:
                out[r] = ("dir",)
        for fn in fns:
            p = os.path.join(dp, fn)
            r = rel + "/" + fn if rel else fn
            if os.path.islink(p):
                out[r] = ("link", os.readlink(p))
            else:
                with open(p, "rb") as f:
                    out[r] = ("file", f.read(), stat.S_IMODE(os.lstat(p).st_mode))
    return out


def quick_snapshot(root):
    """Like full_snapshot but files are represented by (size, mtime_ns, inode, mode) - lstat only."""
    out = {}
    stack = [("", root)]
    while stack:
        rel, path = stack.pop()
        with os.scandir(path) as it:
            for e in it:
                r = rel + "/" + e.name if rel else e.name
                if e.is_symlink():
                    out[r] = ("link", os.readlink(e.path))
                elif e.is_dir(follow_symlinks=False):
                    out[r] = ("dir",)
                    stack.append((r, e.path))
                else:
                    st = e.stat(follow_symlinks=False)
                    out[r] = ("file", st.st_size, st.st_mtime_ns, st.st_ino, stat.S_IMODE(st.st_mode))
    return out


def quick_entry(path):
    st = os.lstat(path)
    if stat.S_ISLNK(st.st_mode):
        return ("link", os.readlink(path))
    if stat.S_ISDIR(st.st_mode):
        return ("dir",)
    return ("file", st.st_size, st.st_mtime_ns, st.st_ino, stat.S_IMODE(st.st_mode))


def restore(root, before, missing):
    for r in sorted(missing, key=lambda p: p.split("/")):
        p = os.path.join(root, r)
        v = before[r]
        if v[0] == "dir":
            os.mkdir(p)
        elif v[0] == "link":
            os.symlink(v[1], p)
        else:
            with open(p, "wb") as f:
                f.write(v[1])
            os.chmod(p, v[2])


def build(kind, feats, work):
    """Materialise a layout in `work`; returns (tree root, model).
    model: versioned (set of rels), nested (dict rel -> kind)."""
    T = templates()
    if os.path.exists(work):
        shutil.rmtree(work)
    os.mkdir(work)
    root = os.path.join(work, "t")
    shutil.copytree(T[kind], root, symlinks=True)
    sent = os.path.join(work, "sentinel")
    os.mkdir(sent)
    with open(os.path.join(sent, "s"), "w") as f:
        f.write("sentinel\n")
    os.mkdir(os.path.join(sent, "sub"))
    with open(os.path.join(sent, "sub", "x~"), "w") as f:
        f.write("outside detritus\n")
    shutil.copytree(T["nested-bzr"], os.path.join(sent, "nbout"), symlinks=True)
    versioned = {IGN[kind], "f", "d", "d/v"}
    nested = {}
    to_version = []
    for name in feats:
        for act in FDICT[name]:
            p = os.path.join(root, act[1])
            if act[0] == "file":
                with open(p, "w") as f:
                    f.write("content of %s\n" % act[1])
            elif act[0] == "dir":
                os.mkdir(p)
            elif act[0] == "link":
                os.symlink(act[2], p)
            elif act[0] == "nested":
                shutil.copytree(T["nested-" + act[2]], p, symlinks=True)
                nested[act[1]] = act[2]
            elif act[0] == "version":
                to_version.append(act[1])
                versioned.add(act[1])
    if to_version:
        tree = wt.open_tree(root)
        paths = to_version
        if kind == "git":
            paths = [p for p in to_version if not os.path.isdir(os.path.join(root, p))]
        tree.add(paths)
        with tree.lock_read():
            for p in paths:
                if not tree.is_versioned(p):
                    raise HarnessError("could not version %r in a %s tree" % (p, kind))
    return root, {"versioned": versioned, "nested": nested}


def classify(rel, model, kind):
    """rel is relative to the work dir ('t/...' or 'sentinel/...').  Returns
    ('outside',) | ('control',) | ('versioned',) | ('nested', nkind, where) | ('unversioned', chain_of_unversioned_rels)."""
    if not (rel == "t" or rel.startswith("t/")):
        return ("outside",)
    if rel == "t":
        return ("versioned",)
    r = rel[2:]
    parts = r.split("/")
    if parts[0] in (".bzr", ".git"):
        return ("control",)
    for i in range(1, len(parts) + 1):
        pre = "/".join(parts[:i])
        if pre in model["nested"]:
            parent = "/".join(parts[:i - 1])
            if parent == "":
                where = "direct"
            elif parent in model["versioned"]:
                where = "in-versioned-dir"
            else:
                where = "below-unversioned-dir"
            return ("nested", model["nested"][pre], where)
    if r in model["versioned"]:
        return ("versioned",)
    chain = []
    for i in range(1, len(parts) + 1):
        pre = "/".join(parts[:i])
        if pre not in model["versioned"]:
            chain.append(pre)
    return ("unversioned", chain)


def holds_versioned(r, model):
    return any(v == r or v.startswith(r + "/") for v in model["versioned"])


def innermost_repo_frame(tb):
    repo = os.path.realpath(boot.REPO) + os.sep
    name = "?"
    for fs in traceback.extract_tb(tb):
        if os.path.realpath(fs.filename).startswith(repo):
            name = "%s:%s" % (os.path.relpath(os.path.realpath(fs.filename), repo), fs.name)
    return name


def run_clean(root, cats, mode):
    from breezy import clean_tree, ui
    kw = {c: True for c in cats}
    old = ui.ui_factory
    try:
        if mode == "cmd":
            from breezy.builtins import cmd_clean_tree
            c = cmd_clean_tree()
            c.outf = io.StringIO()
            c.run(directory=root, force=True, **kw)
        elif mode == "dry":
            clean_tree.clean_tree(root, dry_run=True, no_prompt=True, **kw)
        elif mode == "force":
            clean_tree.clean_tree(root, no_prompt=True, **kw)
        else:
            ui.ui_factory = ui.CannedInputUIFactory([mode == "yes"])
            clean_tree.clean_tree(root, no_prompt=False, **kw)
    finally:
        ui.ui_factory = old


def judge(kind, feats, cats, mode, before, after, model, acc, exc):
    """Compare snapshots; report violations.  Returns set of deleted rels."""
    det = {"tree": kind, "layout": list(feats), "categories": list(cats), "mode": mode}
    if exc is not None:
        acc.violation("clean_tree:%s:%s:%s" % (exc[0], exc[1], kind), dict(det, error=exc[2]))
    requested = set(cats) if mode != "cmd" or cats else {"unknown"}
    deleted = [r for r in before if r not in after]
    created = [r for r in after if r not in before]
    changed = [r for r in before if r in after and before[r] != after[r]]
    # the tree's own control directory may be touched by locking / dirstate hash-cache updates only
    changed = [r for r in changed if classify(r, model, kind)[0] != "control"]
    created = [r for r in created if classify(r, model, kind)[0] != "control"]
    if created or changed:
        acc.violation("clean_tree:created-or-modified:%s" % kind, dict(det, created=sorted(created), changed=sorted(changed)))
    if deleted and mode in ("dry", "no"):
        acc.violation("clean_tree:deleted-on-%s:%s" % ("dry-run" if mode == "dry" else "declined-prompt", kind),
                      dict(det, deleted=sorted(deleted)))
    seen = set()
    for rel in sorted(deleted, key=lambda p: p.split("/")):
        c = classify(rel, model, kind)
        sig = None
        if c[0] == "outside":
            sig = "clean_tree:deleted-outside-tree:%s" % kind
        elif c[0] == "control":
            sig = "clean_tree:deleted-control-file:%s" % kind
        elif c[0] == "versioned":
            sig = "clean_tree:deleted-versioned-path:%s" % kind
        elif c[0] == "nested":
            sig = "clean_tree:nested-%s-branch-deleted:%s:%s" % (c[1], c[2], kind)
        else:
            r = rel[2:]
            if before[rel][0] == "dir" and holds_versioned(r, model):
                sig = "clean_tree:deleted-directory-holding-versioned:%s" % kind
            elif not any(own_categories(q) & requested for q in c[1]):
                sig = "clean_tree:deleted-unrequested-category:%s" % kind
        if sig and sig not in seen:
            seen.add(sig)
            acc.violation(sig, dict(det, first_deleted=rel, deleted=sorted(deleted)[:12], n_deleted=len(deleted)))
    return deleted, bool(created or changed)


def _work(chunk):
    acc = par.Acc()
    work = os.path.join(boot.scratch("c46w"), "w")
    for kind, feats in chunk:
        root, model = build(kind, feats, work)
        full = full_snapshot(work)
        before = quick_snapshot(work)
        if set(full) != set(before):
            raise HarnessError("snapshot functions disagree")
        combos = [(cs, m) for cs in CATSETS for m in MODES] + [((), "cmd")]
        for cats, mode in combos:
            exc = None
            with contextlib.redirect_stdout(io.StringIO()), contextlib.redirect_stderr(io.StringIO()):
                try:
                    run_clean(root, cats, mode)
                except Exception as e:  # noqa
                    exc = (type(e).__name__, innermost_repo_frame(e.__traceback__), str(e)[:300])
            after = quick_snapshot(work)
            acc.n += 1
            deleted, dirty = judge(kind, feats, cats, mode, before, after, model, acc, exc)
            acc.outcomes.add((kind, tuple(sorted(r for r in deleted if "/.bzr/" not in r and "/.git/" not in r))))
            if deleted:
                acc.nt((kind, feats, cats, mode))
                acc.count("runs_that_deleted")
                acc.sample({"tree": kind, "layout": list(feats), "categories": list(cats), "mode": mode,
                            "deleted": sorted(r for r in deleted if "/.bzr/" not in r and "/.git/" not in r)[:8]})
            if dirty:
                # something was created or modified, not only deleted: rebuild
                root, model = build(kind, feats, work)
                if full_snapshot(work) != full:
                    raise HarnessError("layout rebuild is not deterministic: %r" % (feats,))
                before = quick_snapshot(work)
            elif deleted:
                restore(work, full, deleted)
                before = after
                for r in deleted:
                    before[r] = quick_entry(os.path.join(work, r))
            else:
                before = after    # absorbs lock / dirstate rewrites inside the tree's own control directory
        acc.count("layouts")
    shutil.rmtree(os.path.dirname(work), ignore_errors=True)
    return acc


def layouts(max_size):
    for k in range(0, max_size + 1):
        yield from itertools.combinations(FNAMES, k)


def report(ctx, acc):
    best = {}
    for sig, d in acc.violations:
        k = (len(d.get("layout", [])), len(d.get("categories", [])), repr(d.get("layout")), repr(d.get("categories")), d.get("mode"))
        if sig not in best or k < best[sig][0]:
            best[sig] = (k, d)
    for sig in sorted(best):
        ctx.violation(sig, best[sig][1])


def run(ctx):
    size = ctx.q(2, 3)
    items = [(kind, feats) for feats in layouts(size) for kind in ("bzr", "git")]
    # determinism audit: first layouts twice
    a1 = _work(items[:6])
    a2 = _work(items[:6])
    if (a1.n, sorted(a1.outcomes), a1.violations) != (a2.n, sorted(a2.outcomes), a2.violations):
        raise HarnessError("C46 not deterministic on the first layouts")
    acc = par.merge(par.pmap(_work, items, seed=ctx.seed))
    report(ctx, acc)
    ctx.assumptions.append("ignored = `*.ign` from the versioned ignore file or `*~` from the default user ignores; "
                           "detritus names = .THIS/.BASE/.OTHER/~/.tmp; bzr trees are format 2a, git trees use the dulwich index")
    ctx.assumptions.append("a path below an unversioned directory may be deleted when the path itself or any unversioned "
                           "ancestor is in a requested category (all readings accepted)")
    return {
        "evaluations": acc.n,
        "layouts": acc.counters.get("layouts", 0),
        "features": len(FNAMES),
        "max_features_per_layout": size,
        "option_combinations_per_layout": len(CATSETS) * len(MODES) + 1,
        "distinct_nontrivial": len(acc.nontrivial),
        "runs_that_deleted": acc.counters.get("runs_that_deleted", 0),
        "distinct_outcomes": len(acc.outcomes),
        "rule": "every subset of <=%d of %d layout features x {bzr, git} x 8 category subsets x {dry run, no prompt, prompt yes, prompt no} "
                "+ the command with no category flag; non-trivial = the run deleted at least one path" % (size, len(FNAMES)),
        "samples": acc.samples[:4],
        "exhaustive": True,
    }


def replay(ctx, data):
    d = data["first"]
    acc = par.Acc()
    work = os.path.join(boot.scratch("c46r"), "w")
    kind, feats, cats, mode = d["tree"], tuple(d["layout"]), tuple(d["categories"]), d["mode"]
    root, model = build(kind, feats, work)
    before = quick_snapshot(work)
    exc = None
    try:
        run_clean(root, cats, mode)
    except Exception as e:  # noqa
        exc = (type(e).__name__, innermost_repo_frame(e.__traceback__), str(e)[:300])
    judge(kind, feats, cats, mode, before, quick_snapshot(work), model, acc, exc)
    for sig, det in acc.violations:
        print("  ", sig, det.get("first_deleted"))
    return not any(sig == data["signature"] for sig, _ in acc.violations)
