"""C07 - Autopack planning is well-formed for every pack size distribution.

Exhaustive enumeration of RepositoryPackCollection.plan_autopack_combinations
on real ExistingPack objects (tie-breaking in the sort compares the packs) for
every multiset of per-pack revision counts from a corner alphabet up to a
bounded number of packs, and every total in {sum, sum-1, sum-2, ceil(sum/2)}
(totals below the sum model revisions duplicated across packs).  An end-to-end
part performs sequences of real commits / fetches and checks the pack count
after every step against the digit-sum bound.
"""
import itertools

from mc import par
from mc.evidence import HarnessError

ID = "C07"
LEVEL = "exploration"
TECHNIQUE = "exhaustive small-scope input enumeration on the real planner + bounded operation sequences on a real repository"

ALPHABET = (1, 2, 3, 5, 9, 10, 11, 19, 20, 99, 100, 101)

_W = {}


def world():
    """A real 2a repository with 12 one-revision packs (autopack disabled while building)."""
    if _W:
        return _W
    from breezy.repository import Repository
    from mc import world as mw
    from mc.vfs import new_store
    store = new_store()
    b = mw.make_branch(store.transport("b"), "2a")
    from breezy.bzr import pack_repo
    orig = pack_repo.RepositoryPackCollection._max_pack_count
    pack_repo.RepositoryPackCollection._max_pack_count = lambda self, total: 10 ** 6
    try:
        for i in range(12):
            mw.commit_spec(b, b"r%d" % i, [b"r%d" % (i - 1)] if i else [], {"a": mw.F(b"a-id", b"%d\n" % i)})
    finally:
        pack_repo.RepositoryPackCollection._max_pack_count = orig
    r = Repository.open(store.url + "b")
    r.lock_read()
    packs = r._pack_collection.all_packs()
    if len(packs) != 12:
        raise HarnessError("expected 12 packs, got %d" % len(packs))
    _W.update(repo=r, pc=r._pack_collection, packs=sorted(packs, key=lambda p: p.name))
    return _W


def digit_sum(n):
    return sum(int(c) for c in str(n))


def totals(s):
    out = []
    for t in (s, s - 1, s - 2, (s + 1) // 2):
        if t >= 1 and t not in out:
            out.append(t)
    return out


def check_plan(pc, packs, counts, total, acc):
    existing = [(c, packs[i]) for i, c in enumerate(counts)]
    dist = pc.pack_distribution(total)
    bound = len(dist)
    if bound != digit_sum(total):
        acc.violation("pack_distribution:not-digit-sum", {"total": total, "dist": dist})
        return
    acc.n += 1
    kind = "eq" if total == sum(counts) else "lt"
    try:
        plan = pc.plan_autopack_combinations(list(existing), list(dist))
    except Exception as e:  # noqa
        acc.violation("plan:%s:total%ssum" % (type(e).__name__, "==" if kind == "eq" else "<"),
                      {"counts": list(counts), "total": total})
        return
    npacks = len(counts)
    if npacks > bound:
        acc.nt((counts, total))
    if npacks <= bound:
        if plan != []:
            acc.violation("plan:non-empty-within-bound", {"counts": list(counts), "total": total})
        return
    if plan == []:
        # the statement allows "plans nothing" only implicitly when within the bound; when over the
        # bound a no-op plan leaves more packs than the digit sum
        acc.violation("plan:empty-although-over-bound:total%ssum" % ("==" if kind == "eq" else "<"),
                      {"counts": list(counts), "total": total})
        return
    if len(plan) != 1:
        acc.violation("plan:more-than-one-combination", {"counts": list(counts), "total": total})
        return
    cnt, plist = plan[0]
    if len(plist) < 2:
        acc.violation("plan:fewer-than-two-packs", {"counts": list(counts), "total": total})
        return
    by_name = {packs[i].name: c for i, c in enumerate(counts)}
    if len({p.name for p in plist}) != len(plist) or cnt != sum(by_name[p.name] for p in plist):
        acc.violation("plan:count-not-sum", {"counts": list(counts), "total": total, "claimed": cnt})
        return
    after = npacks - len(plist) + 1
    if after > bound:
        acc.violation("plan:still-over-bound:total%ssum" % ("==" if kind == "eq" else "<"),
                      {"counts": list(counts), "total": total, "after": after, "bound": bound})


def _work(chunk):
    w = world()
    acc = par.Acc()
    for counts in chunk:
        for total in totals(sum(counts)):
            check_plan(w["pc"], w["packs"], counts, total, acc)
        acc.sample({"counts": list(counts), "totals": totals(sum(counts))})
    return acc


# ---- end to end -----------------------------------------------------------

def _e2e(chunk):
    """Sequences of real operations; after each, #packs <= digit_sum(#revisions)."""
    from breezy.repository import Repository
    from mc import world as mw
    from mc.vfs import new_store
    acc = par.Acc()
    for fmt, seq in chunk:
        store = new_store()
        b = mw.make_branch(store.transport("t"), fmt)
        src = mw.make_branch(store.transport("s"), fmt)
        n = 0
        sn = 0
        for step in seq:
            if step == 1:
                mw.commit_spec(b, b"t%d" % n, [b.last_revision()] if n else [], {"a": mw.F(b"a-id", b"t%d\n" % n)})
                n += 1
            else:
                tip = None
                for _ in range(step):
                    tip = b"s%d" % sn
                    mw.commit_spec(src, tip, [src.last_revision()] if sn else [], {"a": mw.F(b"a-id", b"s%d\n" % sn)})
                    sn += 1
                b.repository.fetch(src.repository, revision_id=tip)
            r = Repository.open(store.url + "t")
            with r.lock_read():
                total = len(r.all_revision_ids())
                npacks = len(r._pack_collection.names())
            acc.n += 1
            if npacks > 1:
                acc.nt((fmt, tuple(seq), acc.n))
            if npacks > digit_sum(total):
                acc.violation("e2e:pack-count-over-digit-sum", {"format": fmt, "sequence": list(seq),
                                                                "revisions": total, "packs": npacks})
                break
        store.close()
    return acc


def run(ctx):
    maxp = ctx.q(7, 9)
    items = []
    for k in range(1, maxp + 1):
        items.extend(itertools.combinations_with_replacement(ALPHABET, k))
    accs = par.pmap(_work, items, seed=ctx.seed)
    acc = par.merge(accs)
    # end to end: all sequences over {commit, fetch 2, fetch 11} up to a length
    steps = (1, 2, 11)
    seqs = []
    L = ctx.q(3, 4)
    for k in range(1, L + 1):
        for s in itertools.product(steps, repeat=k):
            seqs.append(s + (1,) * ctx.q(10, 21))   # then a run of single commits through the 10/20 boundaries
    e2e_items = [(fmt, s) for fmt in ("2a", "pack-0.92") for s in seqs]
    acc2 = par.merge(par.pmap(_e2e, e2e_items, seed=ctx.seed))
    for a in (acc, acc2):
        best = {}
        for sig, d in a.violations:
            k = (len(d.get("counts", d.get("sequence", []))), sum(d.get("counts", [0])))
            if sig not in best or k < best[sig][0]:
                best[sig] = (k, d)
        for sig in sorted(best):
            ctx.violation(sig, best[sig][1])
    ctx.assumptions.append("counts drawn from the corner alphabet %r; totals in {sum, sum-1, sum-2, ceil(sum/2)}" % (ALPHABET,))
    return {
        "evaluations": acc.n + acc2.n,
        "plans_evaluated": acc.n,
        "e2e_steps_checked": acc2.n,
        "distinct_nontrivial": len(acc.nontrivial) + len(acc2.nontrivial),
        "rule": "every multiset of <=%d counts over %r x 4 totals; non-trivial = more packs than the digit sum of the total (a plan is required); e2e: every sequence <=%d over {commit, fetch 2, fetch 11} followed by a run of commits, non-trivial = more than one pack present" % (maxp, ALPHABET, L),
        "multisets": len(items),
        "max_packs": maxp,
        "samples": acc.samples[:3] + [{"e2e": list(e2e_items[0][1]), "format": e2e_items[0][0]}],
        "exhaustive": True,
    }
