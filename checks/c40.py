"""C40 - Bundles and merge directives reproduce the revisions they carry.

Bounded exhaustive enumeration over native histories (every connected DAG <= n
revisions x every assignment of whole-tree states from checks/_hist.STATES:
renames, exec flips, symlinks, kind changes, binary/empty files, merges), built
with real commits behind the vfs seam, for repository/bundle format pairs
(2a, v4), (2a, 0.9), (pack-0.92, 0.8) [thorough: + (pack-0.92, 0.9/4)] and EVERY
(base, target) pair with base = null: or a proper ancestor of target:
 B  (plus, for the same formats, 4-revision histories [a,b,a,c] in which revision 2 undoes revision 1, bundled
    from revision 0: entries unchanged w.r.t. the base whose last-changed revision lies inside the range)
    write_bundle -> read_bundle -> install_revisions into a fresh repository that
    holds exactly the ancestry of base: the bundle must list exactly the unique
    ancestors, every one must be installed and its Testament and StrictTestament3
    texts must equal the source's; the reader's target is the target.
 M  merge equivalence on real working trees (/dev/shm): for every ordered pair
    (this, other) with other not an ancestor of this, a MergeDirective2 with bundle
    (from_objects, submit branch at this), serialised and parsed back, merged with
    Merger.from_mergeable must give the same tree, conflicts and pending merges as
    merge_from_branch from the source branch; same for a bare v4 / 0.9 bundle.
 D  field round trip: MergeDirective2 and MergeDirective (v1) over a grammar of
    payload kind x message x timezone x time x branch fields: from_lines(to_lines(md))
    has equal fields, to_lines is a fixpoint, patch verification says 'verified'.
 T  tampering: for a fixed list of artefacts (bundles of the three formats, merge
    directive with patch+bundle) every single-line deletion, duplication and one
    byte flip per line and one blank inserted per line: reading+installing must raise, or the directive's patch
    check must say 'failed', or whatever is installed must have testaments identical
    to the source (harmless).
"""
import itertools
import json
import os
import re
import resource
import select
import shutil
import signal
import tempfile
import traceback
from io import BytesIO

from mc import boot, gen, par
from mc.evidence import HarnessError
from checks import _hist

ID = "C40"
LEVEL = "exploration"
TECHNIQUE = "exhaustive small-scope history x (base,target) x format enumeration with testament oracle; exhaustive single-line tampering of fixed artefacts"

PAIRS_QUICK = (("2a", "4"), ("2a", "0.9"), ("pack-0.92", "0.8"))
PAIRS_THOROUGH = PAIRS_QUICK + (("pack-0.92", "0.9"), ("pack-0.92", "4"))
NULL = b"null:"


def code_error(e):
    """Exceptions that are failures of the code under test: every Exception, plus Rust panics, which surface as
    pyo3_runtime.PanicException (a BaseException).  Anything else (KeyboardInterrupt, SystemExit...) is re-raised."""
    if isinstance(e, Exception) or type(e).__name__ == "PanicException":
        return
    raise e


def sig_exc(stage, e):
    fn = "?"
    for fr in traceback.extract_tb(e.__traceback__):
        if fr.filename.startswith(boot.REPO + "/"):
            fn = "%s.%s" % (os.path.basename(fr.filename)[:-3], fr.name)
    return "%s:%s:%s" % (stage, type(e).__name__, fn)


def testaments(repo, revid):
    from breezy.bzr.testament import StrictTestament3, Testament
    return (Testament.from_revision(repo, revid).as_text(), StrictTestament3.from_revision(repo, revid).as_text())


def ancestors(dag, i):
    return gen.dag_ancestors(dag, i)


def kinds(spec):
    return {e.fid: e.kind for e in spec.values()}


def kind_change_in_bundle(dag, assign, base, bundled):
    """True when some bundled revision changes the kind of a file id with respect to one of its parents or the
    bundle base (the patch-based formats 0.8/0.9 have no action for that)."""
    for i in bundled:
        ki = kinds(_hist.STATES[assign[i]])
        others = list(dag[i]) + ([base] if base is not None else [])
        for p in others:
            kp = kinds(_hist.STATES[assign[p]])
            if any(f in kp and kp[f] != k for f, k in ki.items()):
                return True
    return False


def base_target_pairs(dag):
    out = []
    for t in range(len(dag)):
        out.append((None, t))
        for b in sorted(ancestors(dag, t) - {t}):
            out.append((b, t))
    return out


# ---- part B ---------------------------------------------------------------------------

def check_bundles(dag, assign, pairs, acc, only_pairs=None):
    from breezy.bzr.bundle.serializer import read_bundle, write_bundle
    from mc import world as mw
    from mc.vfs import new_store
    hist = {"dag": [list(p) for p in dag], "states": list(assign)}
    for repo_fmt, bfmt in pairs:
        store = new_store()
        try:
            src = mw.make_branch(store.transport("src"), repo_fmt)
            ids = _hist.commit_history(src, dag, assign)
            repo = src.repository
            with repo.lock_read():
                want = {r: testaments(repo, r) for r in ids}
            k = 0
            for b, t in (only_pairs if only_pairs is not None else base_target_pairs(dag)):
                k += 1
                d = dict(hist, repo_format=repo_fmt, bundle_format=bfmt, base=b, target=t)
                sfx = ":v" + bfmt
                base_id = NULL if b is None else ids[b]
                expect = ancestors(dag, t) - (ancestors(dag, b) if b is not None else set())
                out = BytesIO()
                acc.n += 1
                if len(expect) > 1 or (b is not None and assign[b] != assign[t]):
                    acc.nt((dag, assign, bfmt, b, t))
                try:
                    listed = write_bundle(repo, ids[t], base_id, out, format=bfmt)
                except BaseException as e:  # noqa
                    code_error(e)
                    acc.violation(sig_exc("write", e) + sfx, dict(d, error=str(e)[:300]))
                    continue
                if set(listed) != {ids[i] for i in expect}:
                    acc.violation("write:wrong-revision-set" + sfx, dict(d, listed=sorted(listed)))
                tgt = mw.make_branch(store.transport("t%d" % k), repo_fmt)
                if b is not None:
                    tgt.repository.fetch(repo, revision_id=ids[b])
                try:
                    info = read_bundle(BytesIO(out.getvalue()))
                    ret = info.install_revisions(tgt.repository)
                except BaseException as e:  # noqa
                    code_error(e)
                    kc = ":kind-change-in-bundle" if kind_change_in_bundle(dag, assign, b, expect) else ""
                    acc.violation(sig_exc("install", e) + sfx + kc, dict(d, error=str(e)[:300]))
                    continue
                if info.target != ids[t] or ret != ids[t]:
                    acc.violation("install:wrong-target" + sfx, dict(d, got=info.target, returned=ret))
                trepo = tgt.repository
                with trepo.lock_read():
                    for i in sorted(expect):
                        if not trepo.has_revision(ids[i]):
                            acc.violation("install:revision-missing" + sfx, dict(d, rev=i))
                            continue
                        got = testaments(trepo, ids[i])
                        acc.count("testament_comparisons")
                        if got != want[ids[i]]:
                            which = "testament" if got[0] != want[ids[i]][0] else "strict-testament3"
                            acc.violation("install:%s-differs%s" % (which, sfx),
                                          dict(d, rev=i, want=want[ids[i]][1].decode("utf-8", "replace")[:600],
                                               got=got[1].decode("utf-8", "replace")[:600]))
                    extra = set(trepo.all_revision_ids()) - {ids[i] for i in ancestors(dag, t)}
                    if extra:
                        acc.violation("install:unexpected-revisions" + sfx, dict(d, extra=sorted(extra)))
                acc.outcomes.add((bfmt, len(expect)))
        finally:
            store.close()


def _work_b(chunk):
    acc = par.Acc()
    for item in chunk:
        dag, assign, pairs = item[:3]
        check_bundles(dag, assign, pairs, acc, only_pairs=item[3] if len(item) > 3 else None)
        acc.sample({"dag": [list(p) for p in dag], "states": list(assign), "formats": [list(p) for p in pairs]})
    return acc


# ---- part B2: a change that is undone inside the bundled range ----------------------------------

UNDO_DAGS = (
    ((), (0,), (1,), (2,)),        # linear: A, B (change), C (= A again), D
    ((), (0,), (1,), (0, 2)),      # A, B, C (= A again), D = merge of A's line with C: entries keep C as last-changed
)
UNDO_PAIRS = ((0, 3), (0, 2), (None, 3), (1, 3))


def undo_histories(state_ids, thorough):
    """4-revision histories [a, b, a, c]: revision 2 restores revision 0's tree (content, exec bits, names, link
    targets, kinds go x -> y -> x), revision 3 is a or another state.  Bundled from revision 0 to revision 3 an entry
    is unchanged with respect to the base although its last-changed revision is neither the base's nor the
    target's - the patch based writers (0.8/0.9) must record that explicitly."""
    out = []
    for dag in UNDO_DAGS:
        for a in state_ids:
            for b in state_ids:
                if a == b:
                    continue
                cs = state_ids if thorough else (a, state_ids[(state_ids.index(a) + 1) % len(state_ids)])
                for c in cs:
                    out.append((dag, (a, b, a, c)))
    return out


# ---- part M ---------------------------------------------------------------------------

def wt_state(tree):
    from mc import wt
    with tree.lock_read():
        conflicts = sorted(str(c) for c in tree.conflicts())
        parents = list(tree.get_parent_ids())
    snap = wt.dir_snapshot(tree.basedir)
    return {"versioned": wt.wt_dump(tree), "disk": sorted(snap.items()), "conflicts": conflicts, "parents": parents}


def check_merges(dag, assign, acc, base_dir):
    from breezy import merge_directive
    from breezy.bzr.bundle.serializer import read_bundle, write_bundle
    from breezy.controldir import ControlDir
    from breezy.merge import Merge3Merger, Merger
    from mc import world as mw
    hist = {"dag": [list(p) for p in dag], "states": list(assign)}
    root = tempfile.mkdtemp(prefix="m-", dir=base_dir)
    try:
        src = mw.make_branch(os.path.join(root, "src"), "2a")
        ids = _hist.commit_history(src, dag, assign)
        n = len(dag)
        k = 0
        for this, other in itertools.permutations(range(n), 2):
            if other in ancestors(dag, this):
                continue
            for kind in ("directive", "bundle-4", "bundle-0.9"):
                k += 1
                d = dict(hist, this=this, other=other, kind=kind)
                acc.n += 1
                acc.nt((dag, assign, this, other, kind))

                def make_tree(name):
                    b = src.controldir.sprout(os.path.join(root, name), revision_id=ids[this]).open_branch()
                    return b.controldir.open_workingtree()
                try:
                    ta = make_tree("a%d" % k)
                    tb = make_tree("b%d" % k)
                except BaseException as e:  # noqa
                    code_error(e)
                    raise HarnessError("cannot sprout: %r" % (e,))
                # reference: merge from the source branch
                try:
                    with tb.lock_write():
                        tb.merge_from_branch(src, to_revision=ids[other])
                    ref = wt_state(tb)
                except BaseException as e:  # noqa
                    code_error(e)
                    # no tree to compare with (e.g. UnrelatedBranches): the clause does not apply
                    acc.count("reference_merge_raises:" + type(e).__name__)
                    shutil.rmtree(os.path.join(root, "a%d" % k), ignore_errors=True)
                    shutil.rmtree(os.path.join(root, "b%d" % k), ignore_errors=True)
                    continue
                # mergeable
                try:
                    if kind == "directive":
                        md = merge_directive.MergeDirective2.from_objects(
                            repository=src.repository, revision_id=ids[other], time=1_000_000_500, timezone=0,
                            target_branch=ta.branch.base, local_target_branch=ta.branch, include_patch=True,
                            include_bundle=True)
                        mergeable = merge_directive.MergeDirective.from_lines(md.to_lines())
                    else:
                        with src.repository.lock_read():
                            lca = src.repository.get_graph().find_unique_lca(ids[other], ids[this])
                        out = BytesIO()
                        write_bundle(src.repository, ids[other], lca, out, format=kind.split("-")[1])
                        mergeable = read_bundle(BytesIO(out.getvalue()))
                    with ta.lock_write():
                        merger, verified = Merger.from_mergeable(ta, mergeable)
                        merger.merge_type = Merge3Merger
                        merger.do_merge()
                        merger.set_pending()
                    got = wt_state(ta)
                    if kind == "directive" and verified != "verified":
                        acc.violation("merge:fresh-directive-patch-not-verified", dict(d, verified=verified))
                except BaseException as e:  # noqa
                    code_error(e)
                    got = ("raises", type(e).__name__)
                    if ref != got:
                        kc = ""
                        with src.repository.lock_read():
                            lca_id = src.repository.get_graph().find_unique_lca(ids[other], ids[this])
                        li = ids.index(lca_id) if lca_id in ids else None
                        bundled = ancestors(dag, other) - (ancestors(dag, li) if li is not None else set())
                        if kind_change_in_bundle(dag, assign, li, bundled):
                            kc = ":kind-change-in-bundle"
                        acc.violation(sig_exc("merge-" + kind, e) + kc, dict(d, error=str(e)[:300]))
                        continue
                acc.count("merge_comparisons")
                if got != ref:
                    if isinstance(got, dict) and isinstance(ref, dict):
                        field = [f for f in ("versioned", "disk", "conflicts", "parents") if got[f] != ref[f]][0]
                        g, w = got[field], ref[field]
                    else:
                        field = "raises"
                        g = got if not isinstance(got, dict) else "no exception"
                        w = ref if not isinstance(ref, dict) else "no exception"
                    acc.violation("merge:%s-differs-from-branch-merge:%s" % (field, kind.split("-")[0]),
                                  dict(d, got=g, want=w))
                elif isinstance(got, dict):
                    acc.outcomes.add(("merge", bool(got["conflicts"])))
                shutil.rmtree(os.path.join(root, "a%d" % k), ignore_errors=True)
                shutil.rmtree(os.path.join(root, "b%d" % k), ignore_errors=True)
    finally:
        shutil.rmtree(root, ignore_errors=True)


def _work_m(chunk):
    acc = par.Acc()
    base = boot.scratch("c40m")
    for dag, assign in chunk:
        check_merges(dag, assign, acc, base)
        acc.sample({"merge_history": {"dag": [list(p) for p in dag], "states": list(assign)}})
    shutil.rmtree(base, ignore_errors=True)
    return acc


# ---- part D ---------------------------------------------------------------------------

MD_FIELDS2 = ("revision_id", "testament_sha1", "time", "timezone", "target_branch", "patch", "source_branch",
              "message", "bundle", "base_revision_id")
MD_FIELDS1 = ("revision_id", "testament_sha1", "time", "timezone", "target_branch", "patch", "patch_type",
              "source_branch", "message")


def field_diff(md, md2, fields):
    out = {}
    for f in fields:
        a, b = getattr(md, f), getattr(md2, f)
        if f == "time":
            a, b = int(a), int(b)
        if a != b:
            out[f] = [a, b]
    return out


def check_directive_fields(acc, thorough):
    from breezy import merge_directive
    from mc import world as mw
    from mc.vfs import new_store
    store = new_store()
    src = mw.make_branch(store.transport("src"), "2a")
    dag = ((), (0,), (0,), (1, 2))
    ids = _hist.commit_history(src, dag, (1, 2, 3, 5))
    tgt = mw.make_branch(store.transport("tgt"), "2a")
    tgt.pull(src, stop_revision=ids[1])
    messages = (None, "one line", "two\nlines", "trailing space ", "caf\xe9 €", "# Begin patch", "")
    zones = (0, 3600, -5400, 19800, -43200) if thorough else (0, 3600, -5400)
    times = (1_000_000_500, 1_700_000_000.0)    # not 0: format_patch_date deliberately writes the epoch in UTC
    payloads = ((True, True), (False, True), (True, False), (False, False))
    for (inc_patch, inc_bundle), msg, tz, tm, rev in itertools.product(payloads, messages, zones, times, (ids[3], ids[2])):
        d = {"include_patch": inc_patch, "include_bundle": inc_bundle, "message": msg, "timezone": tz, "time": tm,
             "revision": rev}
        acc.n += 1
        acc.nt(("md2", inc_patch, inc_bundle, msg, tz, tm, rev))
        try:
            md = merge_directive.MergeDirective2.from_objects(
                repository=src.repository, revision_id=rev, time=tm, timezone=tz, target_branch=tgt.base,
                local_target_branch=tgt, include_patch=inc_patch, include_bundle=inc_bundle,
                public_branch=None if inc_bundle else src.base, message=msg)
            lines = md.to_lines()
            md2 = merge_directive.MergeDirective.from_lines(lines)
        except BaseException as e:  # noqa
            code_error(e)
            acc.violation(sig_exc("directive2", e), dict(d, error=str(e)[:300]))
            continue
        if type(md2) is not merge_directive.MergeDirective2:
            acc.violation("directive2:parsed-as-other-class", dict(d, cls=type(md2).__name__))
            continue
        diff = field_diff(md, md2, MD_FIELDS2)
        if diff:
            acc.violation("directive2:fields-differ:" + "+".join(sorted(diff)), dict(d, fields=diff))
        elif md2.to_lines() != lines:
            acc.violation("directive2:to_lines-not-a-fixpoint", d)
        if inc_patch:
            try:
                v = md2.get_merge_request(src.repository)[2]
            except BaseException as e:  # noqa
                code_error(e)
                acc.violation(sig_exc("directive2-verify", e), dict(d, error=str(e)[:300]))
            else:
                acc.outcomes.add(("verify", v))
                if v != "verified":
                    acc.violation("directive2:untampered-patch-not-verified", dict(d, status=v))
    # version 1 directives
    for ptype, msg, tz, tm in itertools.product(("bundle", "diff", None), messages, zones, times):
        d = {"patch_type": ptype, "message": msg, "timezone": tz, "time": tm}
        acc.n += 1
        acc.nt(("md1", ptype, msg, tz, tm))
        try:
            with src.lock_write():      # the version-1 from_objects expects its caller (bzr send) to hold the lock
                md = merge_directive.MergeDirective.from_objects(
                    repository=src.repository, revision_id=ids[3], time=tm, timezone=tz, target_branch=tgt.base,
                    patch_type=ptype, local_target_branch=tgt, public_branch=src.base if ptype != "bundle" else None,
                    message=msg)
            lines = md.to_lines()
            md2 = merge_directive.MergeDirective.from_lines(lines)
        except BaseException as e:  # noqa
            code_error(e)
            acc.violation(sig_exc("directive1", e), dict(d, error=str(e)[:300]))
            continue
        diff = field_diff(md, md2, MD_FIELDS1)
        if diff:
            acc.violation("directive1:fields-differ:" + "+".join(sorted(diff)), dict(d, fields=diff))
        elif md2.to_lines() != lines:
            acc.violation("directive1:to_lines-not-a-fixpoint", d)
    store.close()


# ---- part T ---------------------------------------------------------------------------

TAMPER_HISTORIES = (
    (((), (0,), (0,), (1, 2)), (1, 2, 3, 5), 0, 3),
    (((), (0,), (1,)), (1, 4, 1), 0, 2),
    (((), (0,)), (0, 5), None, 1),
)


HANG_CPU_SECONDS = 10      # CPU time (not wall time: the machine may be loaded) granted to one read+install attempt
WALL_LIMIT = 1200
LAST_CHILD = {}


def run_isolated(fn, cpu_limit):
    """Run fn() in a forked child whose CPU time is limited by the kernel (the reader under test may loop for ever
    inside native code, where no Python-level watchdog can interrupt it).  Returns fn's JSON-able result, or None
    when the child was killed for exceeding the CPU limit."""
    r, w = os.pipe()
    pid = os.fork()
    if pid == 0:
        try:
            os.close(r)
            resource.setrlimit(resource.RLIMIT_CPU, (int(cpu_limit), int(cpu_limit) + 1))
            try:
                res = fn()
            except BaseException as e:  # noqa
                res = ["harness-error", repr(e)]
            os.write(w, json.dumps(res).encode("utf-8"))
        finally:
            os._exit(0)
    os.close(w)
    try:
        data = b""
        while True:
            ready, _, _ = select.select([r], [], [], WALL_LIMIT)
            if not ready:
                os.kill(pid, signal.SIGKILL)
                raise HarnessError("tamper attempt exceeded %d s wall without using its CPU allowance" % WALL_LIMIT)
            chunk = os.read(r, 65536)
            if not chunk:
                break
            data += chunk
    finally:
        os.close(r)
        _, status, ru = os.wait4(pid, 0)
        LAST_CHILD.update(signal=os.WTERMSIG(status) if os.WIFSIGNALED(status) else None,
                          cpu=round(ru.ru_utime + ru.ru_stime, 2))
    if data:
        return json.loads(data.decode("utf-8"))
    if os.WIFSIGNALED(status) and os.WTERMSIG(status) in (signal.SIGXCPU, signal.SIGKILL):
        return None
    raise HarnessError("tamper child ended with status %r and no result" % (status,))


class Hang(BaseException):
    pass


def _on_alarm(signum, frame):
    raise Hang()


def run_inprocess(fn, store, snap, limit):
    """Run fn() in this process on a store restored from snap, with a wall-clock watchdog (pure-Python readers)."""
    store.restore(snap)
    old = signal.signal(signal.SIGALRM, _on_alarm)
    signal.setitimer(signal.ITIMER_REAL, max(60.0, 6 * limit))
    try:
        return fn()
    except Hang:
        return None
    finally:
        signal.setitimer(signal.ITIMER_REAL, 0)
        signal.signal(signal.SIGALRM, old)
        store.restore(snap)


def norm_patch(p):
    """The tolerance MergeDirective2._verify_patch documents: line endings and trailing blanks."""
    if p is None:
        return None
    return re.sub(b" *\n", b"\n", re.sub(b"\r\n?", b"\n", p))


def mutations(text):
    """Every single-line deletion, duplication, one byte flip per line (middle byte, lowest bit) and one blank
    inserted in the middle of a line."""
    lines = text.splitlines(True)
    for i, line in enumerate(lines):
        yield ("delete", i), b"".join(lines[:i] + lines[i + 1:])
        yield ("duplicate", i), b"".join(lines[:i + 1] + lines[i:])
        body = line.rstrip(b"\r\n")
        if body:
            j = len(body) // 2
            flipped = body[:j] + bytes([body[j] ^ 1]) + body[j + 1:] + line[len(body):]
            yield ("flip", i), b"".join(lines[:i] + [flipped] + lines[i + 1:])
            spaced = body[:j] + b" " + body[j:] + line[len(body):]
            yield ("space", i), b"".join(lines[:i] + [spaced] + lines[i + 1:])


def build_artefact(kind, repo_fmt, bfmt, hidx):
    from breezy import merge_directive
    from breezy.bzr.bundle.serializer import write_bundle
    from mc import world as mw
    from mc.vfs import new_store
    store = new_store()
    dag, assign, b, t = TAMPER_HISTORIES[hidx]
    src = mw.make_branch(store.transport("src"), repo_fmt)
    ids = _hist.commit_history(src, dag, assign)
    base = mw.make_branch(store.transport("base"), repo_fmt)
    if b is not None:
        base.pull(src, stop_revision=ids[b])
    if kind == "bundle":
        out = BytesIO()
        write_bundle(src.repository, ids[t], NULL if b is None else ids[b], out, format=bfmt)
        text = out.getvalue()
    else:
        md = merge_directive.MergeDirective2.from_objects(
            repository=src.repository, revision_id=ids[t], time=1_000_000_500, timezone=0,
            target_branch=base.base, local_target_branch=base, include_patch=True, include_bundle=True)
        text = b"".join(md.to_lines())
    with src.repository.lock_read():
        want = {r: testaments(src.repository, r) for r in ids}
    # warm-up (lazy imports) with the untouched artefact on a scratch copy; it must install cleanly
    warm = mw.make_branch(store.transport("warm"), repo_fmt)
    if b is not None:
        warm.pull(src, stop_revision=ids[b])
    if kind == "bundle":
        from breezy.bzr.bundle.serializer import read_bundle
        read_bundle(BytesIO(text)).install_revisions(warm.repository)
    else:
        md2 = merge_directive.MergeDirective.from_lines(text.splitlines(True))
        md2.install_revisions(warm.repository)      # (whether it verifies is checked in parts D and M)
    with warm.repository.lock_read():
        if testaments(warm.repository, ids[t]) != want[ids[t]]:
            raise HarnessError("untouched artefact does not reproduce the target")
    snap = store.walk()
    return (store, src, ids, want, text, snap, list(mutations(text)))


def _work_t(chunk):
    """chunk items: (kind, repo_fmt, bfmt, hist index, lo, hi) = a slice of the artefact's mutation list."""
    from breezy import merge_directive
    from breezy.branch import Branch
    from breezy.bzr.bundle.serializer import read_bundle
    acc = par.Acc()
    cache = {}
    limits = {}
    for kind, repo_fmt, bfmt, hidx, lo, hi in sorted(chunk):
        key = (kind, repo_fmt, bfmt, hidx)
        if key not in cache:
            for v in cache.values():
                v[0].close()
            cache.clear()
            cache[key] = build_artefact(*key)
        store, src, ids, want, text, snap, muts = cache[key]
        dag, assign, b, t = TAMPER_HISTORIES[hidx]
        for (op, line), mutated in muts[lo:hi]:
            d = {"artefact": kind, "repo_format": repo_fmt, "bundle_format": bfmt, "dag": [list(p) for p in dag],
                 "states": list(assign), "base": b, "target": t, "mutation": op, "line": line,
                 "line_text": text.splitlines(True)[line][:80]}
            acc.n += 1
            if mutated == text:
                acc.count("mutation_is_identity")
                continue
            acc.nt((key, op, line))
            orig_patch = None
            if kind == "directive":
                orig_patch = merge_directive.MergeDirective.from_lines(text.splitlines(True)).patch

            def attempt(mutated=mutated, orig_patch=orig_patch):
                repo = Branch.open(store.url + "base").repository
                try:
                    if kind == "bundle":
                        info = read_bundle(BytesIO(mutated))
                        info.install_revisions(repo)
                    else:
                        md = merge_directive.MergeDirective.from_lines(mutated.splitlines(True))
                        md.install_revisions(repo)
                        status = md.get_merge_request(repo)[2]
                        if status == "failed":
                            return ["patch-check-failed", None, None]
                        if md.patch is not None and norm_patch(md.patch) != norm_patch(orig_patch):
                            # the preview patch was altered beyond the documented tolerance and nobody said 'failed'
                            return ["undetected", "altered-preview-patch-" + str(status), ""]
                except BaseException as e:  # noqa
                    code_error(e)
                    return ["raises:" + type(e).__name__, None, None]
                # nothing complained: whatever is now in the repository must be what the source has
                repo = Branch.open(store.url + "base").repository
                with repo.lock_read():
                    for r in sorted(repo.all_revision_ids()):
                        if r not in want:
                            return ["undetected", "foreign-revision-installed", r.decode("latin-1")]
                        try:
                            if testaments(repo, r) != want[r]:
                                return ["undetected", "testament-differs", r.decode("latin-1")]
                        except BaseException as e:  # noqa
                            code_error(e)
                            return ["undetected", "installed-revision-unreadable:" + type(e).__name__, r.decode("latin-1")]
                return ["harmless", None, None]
            # Only artefacts that contain a pack container (v4 bundle, directive with a v4 bundle) can drive native
            # code into a loop no Python watchdog can interrupt: those attempts run in a forked child under a kernel
            # CPU limit.  The text formats 0.8/0.9 are read by pure Python: in-process, store restored from the
            # snapshot each time, with a SIGALRM watchdog (forking is expensive and scales badly across workers).
            isolate = kind == "directive" or bfmt == "4"
            if not isolate:
                limits.setdefault(key, 20.0)
            if key not in limits:
                # calibrate on the untouched artefact under the present machine load: the limit is 40x what a
                # clean read+install costs in a forked child, at least HANG_CPU_SECONDS
                base_res = run_isolated(lambda: attempt(text), 120)
                if base_res is None or base_res[0] not in ("harmless", "patch-check-failed"):
                    raise HarnessError("untouched artefact: %r" % (base_res,))
                if base_res[0] != "harmless":
                    acc.violation("tamper:untouched-artefact-rejected:%s" % (kind if kind != "bundle" else "v" + bfmt),
                                  {"artefact": kind, "outcome": base_res[0]})
                limits[key] = max(HANG_CPU_SECONDS, 40 * LAST_CHILD["cpu"])
                acc.count("calibration_runs")
            if isolate:
                res = run_isolated(attempt, limits[key])
            else:
                res = run_inprocess(attempt, store, snap, limits[key])
            tag = kind if kind != "bundle" else "v" + bfmt
            if res is None:
                outcome = "hang"
                acc.violation("tamper:reader-does-not-terminate:%s" % tag, dict(d, cpu_seconds_allowed=round(limits[key], 1), child=dict(LAST_CHILD)))
            elif res[0] == "harness-error":
                raise HarnessError(res[1])
            else:
                outcome = res[0]
                if outcome == "undetected":
                    acc.violation("tamper:undetected:%s:%s:%s" % (tag, op, res[1]), dict(d, revision=res[2]))
            acc.outcomes.add(outcome)
            acc.sample({"tamper": {"artefact": tag, "mutation": op, "line": line, "outcome": outcome}})
            acc.count("tamper_" + outcome.split(":")[0])
    for v in cache.values():
        v[0].close()
    return acc


def tamper_items(thorough):
    arts = []
    hs = range(len(TAMPER_HISTORIES)) if thorough else (0,)
    for h in hs:
        for repo_fmt, bfmt in PAIRS_QUICK:
            arts.append(("bundle", repo_fmt, bfmt, h))
        arts.append(("directive", "2a", "4", h))
    only = os.environ.get("VERIF_C40_TAMPER")        # development aid: restrict to one artefact kind
    if only:
        arts = [a for a in arts if a[0] == only]
    items = []
    sizes = []
    for a in arts:
        built = build_artefact(*a)
        nm = len(built[6])
        built[0].close()
        sizes.append(nm)
        # forked attempts (v4 / directive) are kept in few, large slices: concurrent forking is disproportionately
        # expensive; the in-process ones are spread in slices of 12
        step = 40 if (a[0] == "directive" or a[2] == "4") else 12
        for lo in range(0, nm, step):
            items.append(a + (lo, min(nm, lo + step)))
    return items, arts, sizes


def _work_all(chunk):
    by = {"B": [], "M": [], "T": []}
    for tag, item in chunk:
        by[tag].append(item)
    return (_work_b(by["B"]) if by["B"] else par.Acc(), _work_m(by["M"]) if by["M"] else par.Acc(),
            _work_t(by["T"]) if by["T"] else par.Acc())


def run(ctx):
    pairs = PAIRS_THOROUGH if ctx.thorough else PAIRS_QUICK
    parts = os.environ.get("VERIF_C40_PARTS", "BMDT")
    if ctx.thorough:
        hs = _hist.histories(3, 7) + _hist.histories(4, 3, min_n=4, state_ids=(1, 2, 3))
        bound = "connected DAGs <= 3 revisions x 7 tree states, 4 revisions x 3 tree states (1-3)"
        hm = _hist.histories(3, 6)
        mbound = "connected DAGs (2-3 revisions) x 6 tree states (0-5)"
    else:
        hs = _hist.histories(2, 5, state_ids=(1, 2, 3, 4, 5)) + _hist.histories(3, 4, min_n=3, state_ids=(1, 2, 3, 4))
        bound = "connected DAGs <= 2 revisions x 5 tree states (1-5), 3 revisions x 4 tree states (1-4)"
        hm = _hist.histories(2, 3, state_ids=(1, 3, 4)) + _hist.histories(3, 2, min_n=3, state_ids=(1, 3))
        mbound = "connected DAGs of 2 revisions x 3 tree states (1, 3, 4), 3 revisions x 2 tree states (1, 3)"
    hm = [h for h in hm if len(h[0]) >= 2]
    stride = int(os.environ.get("VERIF_DEV_STRIDE", "1") or 1)     # development aid only: every k-th history
    hs, hm = hs[::stride], hm[::stride]
    accb, accm, accd, acct = par.Acc(), par.Acc(), par.Acc(), par.Acc()
    undo_n = 0
    arts, sizes = [], []
    # parts B, M and T share one pool (the few long forked tamper slices overlap with the many short items)
    work = []
    if "T" in parts:
        titems, arts, sizes = tamper_items(ctx.thorough)
        work += [("T", it) for it in titems]
    if "B" in parts:
        hu = undo_histories((1, 2, 3, 4, 5, 6) if ctx.thorough else (1, 2, 3, 4, 5), ctx.thorough)[::stride]
        undo_n = len(hu)
        work += [("B", (d, a, pairs)) for d, a in hs] + [("B", (d, a, pairs, UNDO_PAIRS)) for d, a in hu]
    if "M" in parts:
        work += [("M", h) for h in hm]
    for rb, rm, rt in par.pmap(_work_all, work, seed=ctx.seed):
        accb.merge(rb)
        accm.merge(rm)
        acct.merge(rt)
    if "D" in parts:
        check_directive_fields(accd, ctx.thorough)
    if parts != "BMDT" or os.environ.get("VERIF_C40_TAMPER"):
        ctx.assumptions.append("PARTIAL RUN: only parts %s %s" % (parts, os.environ.get("VERIF_C40_TAMPER", "")))

    def size(d):
        return (len(d.get("dag", [])), sum(len(p) for p in d.get("dag", [])), sum(d.get("states", [])),
                d.get("line", 0))
    for a in (accb, accm, accd, acct):
        best = {}
        for sig, d in a.violations:
            if sig not in best or size(d) < size(best[sig]):
                best[sig] = d
        for sig in sorted(best):
            ctx.violation(sig, best[sig])
    ctx.assumptions.append("bundle format 0.8 cannot carry rich-root repositories (documented IncompatibleBundleFormat): "
                           "it is exercised on pack-0.92, formats 4 and 0.9 on 2a")
    ctx.assumptions.append("tampering model: single-line deletion, single-line duplication, one bit flipped in / one blank inserted at the middle byte of a "
                           "line; 'detected' = an exception or patch verification 'failed'; 'harmless' = every revision in the "
                           "repository afterwards has the source's testaments")
    ctx.assumptions.append("merge equivalence uses Merge3Merger on 2a working trees; THIS tree = checkout of the 'this' revision")
    return {
        "evaluations": accb.n + accm.n + accd.n + acct.n,
        "bundle_installs": accb.n,
        "merge_cases": accm.n,
        "directive_field_cases": accd.n,
        "tamper_mutations": acct.n,
        "distinct_nontrivial": len(accb.nontrivial) + len(accm.nontrivial) + len(accd.nontrivial) + len(acct.nontrivial),
        "rule": "B: (history, format, base, target) non-trivial when >1 revision is bundled or base and target trees differ; "
                "M: every (this, other) pair; D: every grammar element; T: every mutation that changes the artefact",
        "bound": bound,
        "undo_histories": undo_n,
        "undo_bound": "4-revision histories [a,b,a,c] on a chain and on A,B,C,merge(A,C); pairs (base,target) in %r" % (UNDO_PAIRS,),
        "merge_bound": mbound,
        "formats": [list(p) for p in pairs],
        "counters": {"B": accb.counters, "M": accm.counters, "T": acct.counters},
        "outcomes": sorted(str(o) for o in (accb.outcomes | accm.outcomes | accd.outcomes | acct.outcomes)),
        "tamper_artefacts": [list(a) + [n] for a, n in zip(arts, sizes)],
        "samples": (accb.samples[:2] + accm.samples[:1] + acct.samples[:2]) or [{"directive_field_cases": accd.n}],
        "exhaustive": stride == 1 and parts == "BMDT" and not os.environ.get("VERIF_C40_TAMPER"),
        **({"capped": "VERIF_DEV_STRIDE=%d / parts %s" % (stride, parts)} if stride > 1 or parts != "BMDT" else {}),
    }
