"""C10 - All tree-comparison implementations report the same changes.

Enumerates ALL ordered pairs (source, target) of trees from a declarative space (file ids A, B
in {absent, a, b, inside the directory} x content x exec; directory id D in {absent, d, e};
id K in {absent, file, directory}: renames, swaps, reparenting, directory renames with
children, kind/content/exec changes, adds, removes) plus unversioned files, in three settings:
  wt   - real 2a dirstate working tree (target, with unversioned files) against its basis:
         InterTree.get -> InterDirStateTree (compiled dirstate walk)
  rev  - revision tree against revision tree in a 2a repository: InterTree.get -> InterCHKRevisionTree
  git  - git working tree against its basis and git revision trees: InterGitTrees
and, for every pair, every specific_files filter that is a subset of size <= 2 (quick) / <= 3
(thorough) of the paths present in either tree + an unversioned + an absent path, None and [],
x include_unchanged x want_unversioned.  Oracle (bzr): the optimised iter_changes returns the
same multiset of change tuples (all fields) or the same exception as the generic
InterInventoryTree.iter_changes constructed explicitly on the same pair; applying the reported
changes as an inventory delta to the source succeeds (parents included) and, unfiltered, yields
exactly the target; unfiltered changes equal a reference diff computed from the declarative
trees; a filtered result contains every change at or under a filter path and nothing that is
not a change.  git (no generic implementation exists in the code base): the reference diff, the
subset/superset laws for filters and path-wise application of the changes.  A second part runs
the same comparison on the (basis, working tree) pairs of the working-tree states reachable by
short operation sequences (C09's generator), whose dirstates carry relocation/absent rows.
"""
import itertools
import os
import shutil

from mc import boot, par
from mc.evidence import HarnessError

from . import _treepairs as tp
from . import _treestates as ts

ID = "C10"
LEVEL = "exploration"
TECHNIQUE = "exhaustive enumeration of tree pairs x path filters x flags; differential comparison of optimised and generic iter_changes on real trees, plus delta-application laws"

_CFG = {}
UNV = (("u", b"u\n"), ("d/u", b"u\n"), ("e/u", b"u\n"))


def filters(paths, maxk):
    out = [None, []]
    ps = sorted(paths)
    for k in range(1, maxk + 1):
        for c in itertools.combinations(ps, k):
            out.append(list(c))
    return out


def flagsets():
    for iu in (False, True):
        for wu in (False, True):
            yield {"include_unchanged": iu, "want_unversioned": wu}


def run_changes(inter, kw):
    try:
        return sorted((c._as_tuple() for c in inter.iter_changes(**kw)), key=repr), None
    except Exception as e:  # noqa: compared between the implementations
        return None, "%s:%s" % (type(e).__name__, ts.innermost_repo_frame(e))


def inv_map(inv):
    return {ie.file_id: (ie.parent_id, ie.name, ie.kind, bool(ie.executable) if ie.kind == "file" else False)
            for _, ie in inv.iter_entries()}


def apply_as_delta(source, target, rows):
    """Apply change rows as an inventory delta to a copy of source's inventory."""
    from bzrformats.inventory import mutable_inventory_from_tree
    from bzrformats.inventory_delta import InventoryDelta
    inv = mutable_inventory_from_tree(source)
    tinv = target.root_inventory
    delta = []
    seen = set()
    for r in rows:
        fid, (op, np_), versioned = r[0], r[1], r[3]
        if versioned == (False, False) or fid in seen:
            continue
        seen.add(fid)
        ne = tinv.get_entry(fid).copy() if np_ is not None and versioned[1] else None
        delta.append((op, np_ if ne is not None else None, fid, ne))
    inv.apply_delta(InventoryDelta(delta))
    return inv


def under(fl, p):
    return p is not None and any(p == f or p.startswith(f + "/") for f in fl)


def check_pair_bzr(acc, setting, source, target, s, t, label, maxk, expect_cls):
    """All filters x flags on one pair of real bzr trees (locked by the caller)."""
    from breezy.bzr.inventorytree import InterInventoryTree
    from breezy.tree import InterTree
    opt = InterTree.get(source, target)
    if type(opt).__name__ != expect_cls:
        raise HarnessError("%s: InterTree.get gave %s, expected %s" % (setting, type(opt).__name__, expect_cls))
    gen = InterInventoryTree(source, target)
    present = set(s) | set(t) if s is not None else set(label["paths"])
    cand = set(present) | {"u", "zz"}
    tmap = inv_map(target.root_inventory)
    full = None
    nontrivial = False
    for fl in filters(cand, maxk):
        for flags in flagsets():
            kw = dict(flags, specific_files=fl, require_versioned=False)
            a, ea = run_changes(opt, kw)
            b, eb = run_changes(gen, kw)
            acc.n += 1
            desc = dict(label, filter=fl, flags=flags)
            if ea or eb:
                if ea != eb:
                    tp.viol(acc, "%s:exception-differs" % setting, dict(desc, optimised=ea, generic=eb))
                else:
                    tp.viol(acc, "%s:both-raise:%s" % (setting, ea), desc)
                continue
            diff = compare_rows(a, b, fl)
            if diff:
                aspect, only_a, only_b = diff
                tp.viol(acc, "%s:optimised!=generic:%s:%s" % (setting, "filtered" if fl else "unfiltered", aspect),
                        dict(desc, only_optimised=only_a, only_generic=only_b))
                continue
            acc.outcomes.add(hash(repr([x[1:4] + x[5:] for x in a])))
            if len({x[0] for x in a if x[0] is not None}) != len([x for x in a if x[0] is not None]):
                tp.viol(acc, "%s:duplicate-rows" % setting, dict(desc, rows=a))
                continue
            # delta laws
            try:
                inv = apply_as_delta(source, target, a)
            except Exception as e:  # noqa
                tp.viol(acc, "%s:delta-does-not-apply:%s:%s" % (setting, "filtered" if fl else "unfiltered",
                                                                 type(e).__name__),
                              dict(desc, rows=a, error=str(e)[:300]))
                continue
            if fl is None:
                if inv_map(inv) != tmap:
                    tp.viol(acc, "%s:unfiltered-delta!=target" % setting,
                                  dict(desc, rows=a, got_inventory=inv_map(inv), target_inventory=tmap))
                if not flags["include_unchanged"] and not flags["want_unversioned"]:
                    full = a
            elif full is not None and fl:
                changed = [x for x in a if _is_change(x) and x[3] != (False, False)]
                extra = [x for x in changed if x not in full]
                if extra:
                    tp.viol(acc, "%s:filtered-reports-non-change" % setting, dict(desc, rows=extra))
                missing = [x for x in full if (under(fl, x[1][0]) or under(fl, x[1][1])) and x not in a]
                if missing:
                    tp.viol(acc, "%s:filtered-misses-change" % setting, dict(desc, missing=missing, rows=a))
                if len(changed) < len(full):
                    nontrivial = True
    if s is not None and full is not None:
        ref = tp.reference_changes(s, t)
        got = {x[0]: (x[1][0], x[1][1], x[2], x[6], (_b(x[7][0]), _b(x[7][1]))) for x in full
               if "" not in x[1]}
        if got != ref:
            tp.viol(acc, "%s:unfiltered!=reference-diff" % setting, dict(label, got=got, reference=ref))
    if nontrivial:
        acc.nt((setting, repr(sorted(label.items(), key=repr))))


def compare_rows(a, b, fl):
    """None when the two row lists agree on everything the statement covers, else
    (aspect, rows only in a, rows only in b).  Changed rows: equal as multisets.  Unversioned
    rows: equal as sets.  Unchanged rows: equal for paths at or under the filter (whether
    unchanged PARENTS of filtered paths are listed is left open by the docstring)."""
    def split(rows):
        ch, unv, same = [], [], []
        for x in rows:
            if x[3] == (False, False):
                unv.append(x)
            elif _is_change(x):
                ch.append(x)
            elif fl is None or under(fl, x[1][1]) or under(fl, x[1][0]):
                same.append(x)
        return ch, unv, same
    ca, ua, sa = split(a)
    cb, ub, sb = split(b)
    if ca != cb:
        oa = [x for x in ca if x not in cb]
        ob = [x for x in cb if x not in ca]
        if not oa and not ob:
            dup = [x for x in set(ca) if ca.count(x) != cb.count(x)]
            return "duplicate-change-rows", [x for x in dup if ca.count(x) > 1], [x for x in dup if cb.count(x) > 1]
        return "change-rows", oa, ob
    if sorted(set(ua), key=repr) != sorted(set(ub), key=repr):
        return "unversioned-rows", [x for x in ua if x not in ub], [x for x in ub if x not in ua]
    if sa != sb:
        return "unchanged-rows", [x for x in sa if x not in sb], [x for x in sb if x not in sa]
    return None


def _b(v):
    return None if v is None else bool(v)


def _is_change(x):
    return bool(x[2]) or x[3][0] != x[3][1] or x[4][0] != x[4][1] or x[5][0] != x[5][1] or x[7][0] != x[7][1]


# ---- workers ------------------------------------------------------------------------------

def _rev_world():
    w = _CFG.get("rev_world")
    if w is None:
        from mc import world
        from mc.vfs import new_store
        store = new_store()
        b = world.make_branch(store.transport("b"), "2a")
        trees = _CFG["trees"]
        for i, t in enumerate(trees):
            world.commit_spec(b, b"t%d" % i, [], t, timestamp=1000000000 + i)
        w = _CFG["rev_world"] = (store, b)
    return w


def _work_rev(chunk):
    acc = par.Acc()
    store, b = _rev_world()
    trees = _CFG["trees"]
    repo = b.repository
    with repo.lock_read():
        for i in chunk:
            src = repo.revision_tree(b"t%d" % i)
            for j in range(len(trees)):
                if i == j:
                    continue
                tgt = repo.revision_tree(b"t%d" % j)
                with src.lock_read(), tgt.lock_read():
                    check_pair_bzr(acc, "rev", src, tgt, trees[i], trees[j], {"source": i, "target": j},
                                   _CFG["maxk"], "InterCHKRevisionTree")
            acc.sample({"setting": "rev", "source": sorted(trees[i]), "targets": len(trees) - 1})
    return acc


def _work_wt(chunk):
    """bzr working trees: basis = tree i, working tree rearranged to tree j (+ unversioned files)."""
    from breezy.workingtree import WorkingTree
    from mc import wt as mwt
    acc = par.Acc()
    trees = _CFG["trees"]
    for i in chunk:
        base = boot.scratch("c10")
        tree = mwt.make_tree("bzr", base)
        tp.lay(base, trees[i])
        tp.version(tree, trees[i], True)
        tree.commit("c", rev_id=b"basis-%d" % i, timestamp=1000000000, timezone=0, committer=ts.COMMITTER)
        for j in range(len(trees)):
            dst = base + "-w"
            shutil.copytree(base, dst, symlinks=True)
            tree = WorkingTree.open(dst)
            if i != j:
                tp.unversion_all(tree)
                tp.wipe(dst)
                tp.lay(dst, trees[j])
                tp.version(tree, trees[j], True)
            tp.lay(dst, {}, extras=UNV)
            tree = WorkingTree.open(dst)
            basis = tree.basis_tree()
            with tree.lock_read(), basis.lock_read():
                check_pair_bzr(acc, "wt", basis, tree, trees[i], trees[j], {"source": i, "target": j},
                               _CFG["maxk"], "InterDirStateTree")
            shutil.rmtree(dst, ignore_errors=True)
        shutil.rmtree(base, ignore_errors=True)
        acc.sample({"setting": "wt", "basis": sorted(trees[i]), "targets": len(trees)})
    return acc


def _work_reach(chunk):
    """(basis, working tree) of states reachable by operation sequences (C09's generator)."""
    acc = par.Acc()
    for h in chunk:
        tree, m = ts.build(h, "bzr")
        basis = tree.basis_tree()
        paths = set(m.disk) | set(m.basis or {})
        with tree.lock_read(), basis.lock_read():
            check_pair_bzr(acc, "wt-reachable", basis, tree, None, None,
                           {"history": [list(o) for o in h], "paths": sorted(paths)},
                           _CFG["maxk"], "InterDirStateTree")
        shutil.rmtree(tree.basedir, ignore_errors=True)
    return acc


# ---- git ----------------------------------------------------------------------------------

def git_sets(rows):
    rem, add, mod = set(), set(), set()
    for x in rows:
        (op, np_), kinds, vers, copied = x[1], x[6], x[3], x[8]
        if vers == (False, False):
            continue
        if set(kinds) <= {"directory", None}:
            continue
        if op is not None and np_ is not None and op == np_:
            if _is_change(x):
                mod.add(np_)
            continue
        if op is not None and vers[0] and not copied:
            rem.add(op)
        if np_ is not None and vers[1]:
            add.add(np_)
    return rem, add, mod


def files_of(spec):
    return {p: (e.content, bool(e.exec)) for p, e in spec.items() if e.kind == "file"}


def check_pair_git(acc, setting, source, target, s, t, label, maxk):
    from breezy.tree import InterTree
    inter = InterTree.get(source, target)
    if type(inter).__name__ != "InterGitTrees":
        raise HarnessError("git: InterTree.get gave %s" % type(inter).__name__)
    fs, ft = files_of(s), files_of(t)
    ref = ({p for p in fs if p not in ft}, {p for p in ft if p not in fs},
           {p for p in fs if p in ft and fs[p] != ft[p]})
    cand = set(s) | set(t) | {"u", "zz"}
    nontrivial = False
    for fl in filters(cand, maxk):
        for flags in flagsets():
            if flags["want_unversioned"] and setting == "git-rev":
                continue
            kw = dict(flags, specific_files=fl, require_versioned=False)
            a, ea = run_changes(inter, kw)
            acc.n += 1
            desc = dict(label, filter=fl, flags=flags)
            if ea:
                tp.viol(acc, "%s:raises:%s" % (setting, ea), desc)
                continue
            got = git_sets(a)
            if fl is None:
                if got != ref:
                    tp.viol(acc, "%s:unfiltered!=reference-diff%s" % (setting, ":with-unversioned" if flags["want_unversioned"] else ""),
                                  dict(desc, got=[sorted(x) for x in got], reference=[sorted(x) for x in ref], rows=a))
                    continue
                # path-wise application: source files - removed + target versions of added/modified
                res = {p: v for p, v in fs.items() if p not in got[0]}
                for p in got[1] | got[2]:
                    res[p] = ft.get(p)
                if res != ft:
                    tp.viol(acc, "%s:unfiltered-changes-applied!=target" % setting, dict(desc, rows=a))
            elif fl:
                for k in range(3):
                    extra = got[k] - ref[k]
                    if extra and not (got[0] | got[1] | got[2]) <= (ref[0] | ref[1] | ref[2]):
                        tp.viol(acc, "%s:filtered-reports-non-change" % setting, dict(desc, rows=a))
                        break
                want = {p for p in (ref[0] | ref[1] | ref[2]) if under(fl, p)}
                if not want <= (got[0] | got[1] | got[2]):
                    tp.viol(acc, "%s:filtered-misses-change" % setting,
                                  dict(desc, missing=sorted(want - (got[0] | got[1] | got[2])), rows=a))
                if len(got[0] | got[1] | got[2]) < len(ref[0] | ref[1] | ref[2]):
                    nontrivial = True
            acc.outcomes.add(hash(repr(got)))
    if nontrivial:
        acc.nt((setting, repr(sorted(label.items()))))


def _work_git(chunk):
    from breezy.workingtree import WorkingTree
    from mc import wt as mwt
    acc = par.Acc()
    trees = _CFG["trees"]
    for i in chunk:
        base = boot.scratch("c10g")
        tree = mwt.make_tree("git", base)
        tp.lay(base, trees[i])
        tp.version(tree, trees[i], False)
        tree.commit("c", timestamp=1000000000, timezone=0, committer=ts.COMMITTER)
        for j in range(len(trees)):
            dst = base + "-w"
            shutil.copytree(base, dst, symlinks=True)
            tree = WorkingTree.open(dst)
            if i != j:
                tp.unversion_all(tree)
                tp.wipe(dst)
                tp.lay(dst, trees[j])
                tp.version(tree, trees[j], False)
            tp.lay(dst, {}, extras=UNV)
            tree = WorkingTree.open(dst)
            basis = tree.basis_tree()
            with tree.lock_read(), basis.lock_read():
                check_pair_git(acc, "git-wt", basis, tree, trees[i], trees[j], {"source": i, "target": j}, _CFG["maxk"])
            if i != j:
                # revision tree against revision tree: commit the target state and compare the two
                for p, _c in UNV:
                    if os.path.lexists(os.path.join(dst, p)):
                        os.unlink(os.path.join(dst, p))
                tree.commit("c2", timestamp=1000000001, timezone=0, committer=ts.COMMITTER)
                tree = WorkingTree.open(dst)
                new = tree.basis_tree()
                with new.lock_read(), basis.lock_read():
                    check_pair_git(acc, "git-rev", basis, new, trees[i], trees[j], {"source": i, "target": j}, _CFG["maxk"])
            shutil.rmtree(dst, ignore_errors=True)
        shutil.rmtree(base, ignore_errors=True)
    return acc


def run(ctx):
    trees = tp.space(ctx.q(0, 1))
    _CFG.update(trees=trees, maxk=ctx.q(2, 3), rev_world=None)
    ts.warm("bzr")
    ts.warm("git")
    idx = list(range(len(trees)))
    parts = {}
    accs = []
    best = {}
    for name, fn, items in (("rev", _work_rev, idx), ("wt", _work_wt, idx), ("git", _work_git, idx[:ctx.q(12, 40)])):
        raw = par.pmap(fn, items, seed=ctx.seed)
        tp.gather(raw, best)
        a = par.merge(raw)
        parts[name] = {"evaluations": a.n, "items": len(items), "nontrivial_pairs": len(a.nontrivial)}
        accs.append(a)
    hist = [h for h in ts.sequences(ctx.q(2, 3), "bzr", start=ts.START_FULL, seed=ctx.seed)]
    _CFG["maxk"] = 2
    raw = par.pmap(_work_reach, hist, seed=ctx.seed)
    tp.gather(raw, best)
    a = par.merge(raw)
    parts["wt-reachable"] = {"evaluations": a.n, "states": len(hist), "nontrivial_pairs": len(a.nontrivial)}
    accs.append(a)
    acc = par.merge(accs)
    for sig in sorted(best):
        d = best[sig][1]
        if "source" in d:
            d = dict(d, source_tree=tp_dump(trees[d["source"]]), target_tree=tp_dump(trees[d["target"]]))
        ctx.violation(sig, d)
    ctx.assumptions.append("the generic comparison is breezy.bzr.inventorytree.InterInventoryTree.iter_changes "
                           "(breezy.tree.InterTree.iter_changes is abstract in this code base); for git trees no "
                           "generic implementation exists and a reference diff of the declarative trees is the oracle")
    ctx.assumptions.append("require_versioned=False; extra_trees not used")
    return {
        "evaluations": acc.n,
        "distinct_nontrivial": len(acc.nontrivial),
        "rule": "a pair is non-trivial when some filter excludes at least one changed path "
                "(the filtered result is strictly smaller than the full change set)",
        "trees": len(trees),
        "ordered_pairs_per_setting": len(trees) * (len(trees) - 1),
        "max_filter_size": ctx.q(2, 3),
        "parts": parts,
        "distinct_change_sets": len(acc.outcomes),
        "samples": acc.samples[:3] or [{"trees": len(trees)}],
        "exhaustive": True,
    }


def tp_dump(t):
    return {p: (e.fid, e.kind, e.content, e.exec) for p, e in sorted(t.items())}
