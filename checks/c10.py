"""C10 - All tree-comparison implementations report the same changes.

Enumerates ALL ordered pairs (source, target) of trees from a declarative space (file ids A, B
in {absent, a, b, inside the directory} x content x exec; directory id D in {absent, d, e};
id K in {absent, file, directory}: renames, swaps, reparenting, directory renames with
children, kind/content/exec changes, adds, removes) plus unversioned files, in three settings:
  wt   - real 2a dirstate working tree (target, with unversioned files) against its basis:
         InterTree.get -> InterDirStateTree (compiled dirstate walk)
  rev  - revision tree against revision tree in a 2a repository: InterTree.get -> InterCHKRevisionTree
  git  - git working tree against its basis and git revision trees: InterGitTrees
and, for every pair, every specific_files filter that is a subset of size <= 2 (revision trees,
thorough: <= 3) of the paths present in either tree + an unversioned + an absent path, None and [],
x include_unchanged x want_unversioned.  Oracle (bzr): the optimised iter_changes returns the
same multiset of change tuples (all fields) or the same exception as the generic
InterInventoryTree.iter_changes constructed explicitly on the same pair; applying the reported
changes as an inventory delta to the source succeeds (parents included) and, unfiltered, yields
exactly the target; unfiltered changes equal a reference diff computed from the declarative
trees; a filtered result contains every change at or under a filter path and nothing that is
not a change.  git (no generic implementation exists in the code base): the reference diff, the
subset/superset laws for filters and path-wise application of the changes.  A second part runs
the same comparison on the (basis, working tree) pairs of the working-tree states reachable by
short operation sequences (C09's generator), whose dirstates carry relocation/absent rows.
"""
import itertools
import os
import shutil

from mc import boot, par
from mc.evidence import HarnessError

from . import _treepairs as tp
from . import _treestates as ts

def _cpu():
    import resource
    return round(sum(resource.getrusage(w).ru_utime + resource.getrusage(w).ru_stime
                     for w in (resource.RUSAGE_SELF, resource.RUSAGE_CHILDREN)), 1)


ID = "C10"
LEVEL = "exploration"
TECHNIQUE = "exhaustive enumeration of tree pairs x path filters x flags; differential comparison of optimised and generic iter_changes on real trees, plus delta-application laws"

_CFG = {}
UNV = (("u", b"u\n"), ("d/u", b"u\n"), ("e/u", b"u\n"), ("d/s/u", b"u\n"))


def filters(paths, maxk):
    out = [None, []]
    ps = sorted(paths)
    for k in range(1, maxk + 1):
        for c in itertools.combinations(ps, k):
            out.append(list(c))
    return out


def flagsets():
    for iu in (False, True):
        for wu in (False, True):
            yield {"include_unchanged": iu, "want_unversioned": wu}


def run_changes(inter, kw, err=None, who=None):
    try:
        return sorted((c._as_tuple() for c in inter.iter_changes(**kw)), key=repr), None
    except Exception as e:  # noqa: compared between the implementations
        if err is not None:
            err[who] = str(e)[:200]
        return None, "%s:%s" % (type(e).__name__, ts.innermost_repo_frame(e))


def inv_map(inv):
    return {ie.file_id: (ie.parent_id, ie.name, ie.kind, bool(ie.executable) if ie.kind == "file" else False)
            for _, ie in inv.iter_entries()}


def tree_map(tree):
    """Like inv_map, read through the tree API (a working tree's exec bit lives on disk)."""
    out = {}
    for p, ie in tree.iter_entries_by_dir():
        k = tree.kind(p) if p else "directory"
        out[ie.file_id] = (ie.parent_id, ie.name, k, bool(tree.is_executable(p)) if k == "file" else False)
    return out


def apply_as_delta(source, target, rows):
    """Apply change rows as an inventory delta to a copy of source's inventory."""
    from bzrformats.inventory import InventoryDirectory, InventoryFile, mutable_inventory_from_tree
    from bzrformats.inventory_delta import InventoryDelta
    inv = mutable_inventory_from_tree(source)
    tinv = target.root_inventory
    delta = []
    seen = set()
    for r in rows:
        fid, (op, np_), versioned = r[0], r[1], r[3]
        if versioned == (False, False) or fid in seen or not _is_change(r):
            continue
        seen.add(fid)
        ne = None
        if np_ is not None and versioned[1]:
            te = tinv.get_entry(fid)
            kind = target.kind(np_) if np_ else "directory"
            if kind == "file":
                ne = InventoryFile(fid, te.name, te.parent_id, executable=bool(target.is_executable(np_)))
            elif kind == "directory":
                ne = InventoryDirectory(fid, te.name, te.parent_id)
            else:
                ne = te.copy()
        delta.append((op, np_ if ne is not None else None, fid, ne))
    inv.apply_delta(InventoryDelta(delta))
    return inv


def under(fl, p):
    return p is not None and any(p == f or p.startswith(f + "/") for f in fl)


def check_pair_bzr(acc, setting, source, target, s, t, label, maxk, expect_cls):
    """All filters x flags on one pair of real bzr trees (locked by the caller)."""
    from breezy.bzr.inventorytree import InterInventoryTree
    from breezy.tree import InterTree
    opt = InterTree.get(source, target)
    if type(opt).__name__ != expect_cls:
        raise HarnessError("%s: InterTree.get gave %s, expected %s" % (setting, type(opt).__name__, expect_cls))
    gen = InterInventoryTree(source, target)
    present = set(s) | set(t) if s is not None else set(label["paths"])
    cand = set(present) | {"u", "zz"}
    tmap = tree_map(target)
    full = None
    nontrivial = False
    for fl in filters(cand, maxk):
        for flags in flagsets():
            kw = dict(flags, specific_files=fl, require_versioned=False)
            err = {}
            a, ea = run_changes(opt, kw, err, "optimised")
            b, eb = run_changes(gen, kw, err, "generic")
            acc.n += 1
            desc = dict(label, filter=fl, flags=flags)
            if ea or eb:
                if ea != eb:
                    tp.viol(acc, "%s:exception-differs:optimised=%s:generic=%s" % (setting, ea, eb),
                            dict(desc, optimised=ea, generic=eb, error=err.get("optimised") or err.get("generic")))
                else:
                    tp.viol(acc, "%s:both-raise:%s" % (setting, ea), desc)
                continue
            diff = compare_rows(a, b, fl)
            if diff:
                aspect, only_a, only_b = diff
                tp.viol(acc, "%s:optimised!=generic:%s" % (setting, aspect),
                        dict(desc, only_optimised=only_a, only_generic=only_b))
            acc.outcomes.add(hash(repr(sorted(repr(x[1:4] + x[5:]) for x in a))))
            # delta laws, for each implementation's own output
            inv = None
            for impl, rows in (("optimised", a), ("generic", b)):
                if impl == "generic" and not diff:
                    break
                try:
                    inv = apply_as_delta(source, target, rows)
                except Exception as e:  # noqa
                    reason = delta_reason(e)
                    if reason == "path-already-versioned" and fl:
                        acc.count("filtered_delta_path_collisions")   # not a missing parent: outside the statement
                    else:
                        tp.viol(acc, "%s:%s:delta-does-not-apply:%s:%s" % (
                            setting, impl, "filtered" if fl else "unfiltered", reason),
                            dict(desc, rows=rows, error=str(e)[:300]))
                    inv = None
                    continue
                if fl is None and inv_map(inv) != tmap:
                    tp.viol(acc, "%s:%s:unfiltered-delta!=target" % (setting, impl),
                            dict(desc, rows=rows, got_inventory=inv_map(inv), target_inventory=tmap))
            if diff:
                continue
            if fl is None:
                if not flags["include_unchanged"] and not flags["want_unversioned"]:
                    full = a
            elif full is not None and fl:
                changed = [x for x in a if _is_change(x) and x[3] != (False, False)]
                extra = [x for x in changed if x not in full]
                if extra:
                    tp.viol(acc, "%s:filtered-reports-non-change" % setting, dict(desc, rows=extra))
                missing = [x for x in full if (under(fl, x[1][0]) or under(fl, x[1][1])) and x not in a]
                if missing:
                    tp.viol(acc, "%s:filtered-misses-change" % setting, dict(desc, missing=missing, rows=a))
                if len(changed) < len(full):
                    nontrivial = True
    if s is not None and full is not None:
        ref = tp.reference_changes(s, t)
        got = {x[0]: (x[1][0], x[1][1], x[2], x[6], (_b(x[7][0]), _b(x[7][1]))) for x in full
               if "" not in x[1]}
        if got != ref:
            tp.viol(acc, "%s:unfiltered!=reference-diff" % setting, dict(label, got=got, reference=ref))
    if nontrivial:
        acc.nt((setting, repr(sorted(label.items(), key=repr))))


def delta_reason(e):
    msg = str(e)
    if "reason:" in msg:
        msg = msg.split("reason:", 1)[1]
    msg = msg.strip().lower()
    for key, name in (("already versioned", "path-already-versioned"), ("parent", "parent-problem"),
                      ("not a directory", "parent-not-directory"), ("children", "orphaned-children"),
                      ("repeated", "repeated-entry"), ("mismatched", "mismatched-entry"),
                      ("not present", "entry-not-present")):
        if key in msg:
            return name
    return type(e).__name__


FIELDS = ("file_id", "path", "changed_content", "versioned", "parent_id", "name", "kind", "executable", "copied")


def compare_rows(a, b, fl):
    """None when the two row lists agree on everything the statement covers, else
    (classification, rows only in optimised, rows only in generic).  Changed rows: equal as
    multisets.  Unversioned rows: equal as sets.  Unchanged rows: equal for paths at or under the
    filter (whether unchanged PARENTS of filtered paths are listed is left open by the
    docstring).  The classification names the side and the abstract kind of the first
    differing row, so that distinct discrepancies get distinct signatures."""
    wanted = {x[0] for x in a + b if fl is None or under(fl, x[1][1]) or under(fl, x[1][0])}

    def want(x):
        return x[3] == (False, False) or _is_change(x) or x[0] in wanted
    a = [x for x in a if want(x)]
    b = [x for x in b if want(x)]
    if a == b:
        return None
    oa = [x for x in a if x not in b]
    ob = [x for x in b if x not in a]
    if not oa and not ob:
        dup = sorted((x for x in set(a) if a.count(x) != b.count(x)), key=repr)
        side = "optimised" if a.count(dup[0]) > b.count(dup[0]) else "generic"
        return "%s-repeats-row:%s" % (side, rowclass(dup[0])), [x for x in dup if a.count(x) > 1], \
            [x for x in dup if b.count(x) > 1]
    both = sorted(set(a) & set(b), key=repr)
    cls = []
    for side, rows, other in (("optimised", oa, ob), ("generic", ob, oa)):
        for x in rows:
            twin = [y for y in other if y[0] == x[0] and y[0] is not None]
            if twin:
                if side == "optimised":
                    fields = [FIELDS[i] for i in range(9) if x[i] != twin[0][i]]
                    cls.append("row-differs:%s:%s" % (rowclass(x), "+".join(fields)))
                continue
            c = rowclass(x)
            if c == "unversioned":
                if fl and not under(fl, x[1][1]):
                    c += "-outside-filter-paths"
                elif fl:
                    c += "-at-filter-path"
            elif c == "change":
                if any(y[1][1] is not None and y[1][1] == x[1][0] for y in both + rows + other if y is not x):
                    c = "entry-displaced-from-a-reported-target-path"
                elif x[6][1] == "directory" and any(
                        p is not None and p.startswith((x[1][1] or "\0") + "/")
                        for y in both for p in y[1]) or (fl and x[6][1] == "directory" and any(
                            f.startswith((x[1][1] or "\0") + "/") or f.startswith((x[1][0] or "\0") + "/") for f in fl)):
                    c = "changed-parent-directory"
            cls.append("%s-only:%s" % (side, c))
    return sorted(cls)[0], oa, ob


def rowclass(x):
    if x[3] == (False, False):
        return "unversioned"
    return "change" if _is_change(x) else "unchanged"


def _b(v):
    return None if v is None else bool(v)


def _is_change(x):
    return bool(x[2]) or x[3][0] != x[3][1] or x[4][0] != x[4][1] or x[5][0] != x[5][1] or x[7][0] != x[7][1]


# ---- workers ------------------------------------------------------------------------------

def _rev_world():
    w = _CFG.get("rev_world")
    if w is None:
        from mc import world
        from mc.vfs import new_store
        store = new_store()
        b = world.make_branch(store.transport("b"), "2a")
        trees = _CFG["trees"]
        for i, t in enumerate(trees):
            world.commit_spec(b, b"t%d" % i, [], t, timestamp=1000000000 + i)
        w = _CFG["rev_world"] = (store, b)
    return w


def _work_rev(chunk):
    acc = par.Acc()
    store, b = _rev_world()
    trees = _CFG["trees"]
    repo = b.repository
    with repo.lock_read():
        for i in chunk:
            src = repo.revision_tree(b"t%d" % i)
            for j in range(len(trees)):
                if i == j:
                    continue
                tgt = repo.revision_tree(b"t%d" % j)
                with src.lock_read(), tgt.lock_read():
                    check_pair_bzr(acc, "rev", src, tgt, trees[i], trees[j], {"source": i, "target": j},
                                   _CFG["maxk_rev"], "InterCHKRevisionTree")
            acc.sample({"setting": "rev", "source": sorted(trees[i]), "targets": len(trees) - 1})
    return acc


def _work_wt(chunk):
    """bzr working trees: basis = tree i, working tree rearranged to tree j (+ unversioned files)."""
    from breezy.workingtree import WorkingTree
    from mc import wt as mwt
    acc = par.Acc()
    trees = _CFG["trees"]
    for i in chunk:
        base = boot.scratch("c10")
        tree = mwt.make_tree("bzr", base)
        tp.lay(base, trees[i])
        tp.version(tree, trees[i], True)
        tree.commit("c", rev_id=b"basis-%d" % i, timestamp=1000000000, timezone=0, committer=ts.COMMITTER)
        for j in range(len(trees)):
            dst = base + "-w"
            shutil.copytree(base, dst, symlinks=True)
            tree = WorkingTree.open(dst)
            if i != j:
                tp.unversion_all(tree)
                tp.wipe(dst)
                tp.lay(dst, trees[j])
                tp.version(tree, trees[j], True)
            tp.lay(dst, {}, extras=UNV)
            tree = WorkingTree.open(dst)
            basis = tree.basis_tree()
            with tree.lock_read(), basis.lock_read():
                check_pair_bzr(acc, "wt", basis, tree, trees[i], trees[j], {"source": i, "target": j},
                               _CFG["maxk"], "InterDirStateTree")
            shutil.rmtree(dst, ignore_errors=True)
        shutil.rmtree(base, ignore_errors=True)
        acc.sample({"setting": "wt", "basis": sorted(trees[i]), "targets": len(trees)})
    return acc


def _work_reach(chunk):
    """(basis, working tree) of states reachable by operation sequences (C09's generator)."""
    acc = par.Acc()
    for h in chunk:
        tree, m = ts.build(h, "bzr")
        basis = tree.basis_tree()
        paths = set(m.disk) | set(m.basis or {})
        with tree.lock_read(), basis.lock_read():
            check_pair_bzr(acc, "wt-reachable", basis, tree, None, None,
                           {"history": [list(o) for o in h], "paths": sorted(paths)},
                           _CFG["maxk"], "InterDirStateTree")
        shutil.rmtree(tree.basedir, ignore_errors=True)
    return acc


# ---- git ----------------------------------------------------------------------------------

def git_sets(rows):
    rem, add, mod = set(), set(), set()
    for x in rows:
        (op, np_), kinds, vers, copied = x[1], x[6], x[3], x[8]
        if vers == (False, False):
            continue
        if set(kinds) <= {"directory", None}:
            continue
        if op is not None and np_ is not None and op == np_:
            if _is_change(x):
                mod.add(np_)
            continue
        if op is not None and vers[0] and not copied:
            rem.add(op)
        if np_ is not None and vers[1]:
            add.add(np_)
    return rem, add, mod


def files_of(spec):
    return {p: (e.content, bool(e.exec)) for p, e in spec.items() if e.kind == "file"}


def check_pair_git(acc, setting, source, target, s, t, label, maxk):
    from breezy.tree import InterTree
    inter = InterTree.get(source, target)
    if type(inter).__name__ != "InterGitTrees":
        raise HarnessError("git: InterTree.get gave %s" % type(inter).__name__)
    fs, ft = files_of(s), files_of(t)
    ref = ({p for p in fs if p not in ft}, {p for p in ft if p not in fs},
           {p for p in fs if p in ft and fs[p] != ft[p]})
    cand = set(s) | set(t) | {"u", "zz"}
    nontrivial = False
    for fl in filters(cand, maxk):
        for flags in flagsets():
            if flags["want_unversioned"] and setting == "git-rev":
                continue
            kw = dict(flags, specific_files=fl, require_versioned=False)
            a, ea = run_changes(inter, kw)
            acc.n += 1
            desc = dict(label, filter=fl, flags=flags)
            if ea:
                tp.viol(acc, "%s:raises:%s" % (setting, ea), desc)
                continue
            got = git_sets(a)
            if fl is None:
                if got != ref:
                    tp.viol(acc, "%s:unfiltered!=reference-diff%s" % (setting, ":with-unversioned" if flags["want_unversioned"] else ""),
                                  dict(desc, got=[sorted(x) for x in got], reference=[sorted(x) for x in ref], rows=a))
                    continue
                # path-wise application: source files - removed + target versions of added/modified
                res = {p: v for p, v in fs.items() if p not in got[0]}
                for p in got[1] | got[2]:
                    res[p] = ft.get(p)
                if res != ft:
                    tp.viol(acc, "%s:unfiltered-changes-applied!=target" % setting, dict(desc, rows=a))
            elif fl:
                for k in range(3):
                    extra = got[k] - ref[k]
                    if extra and not (got[0] | got[1] | got[2]) <= (ref[0] | ref[1] | ref[2]):
                        tp.viol(acc, "%s:filtered-reports-non-change" % setting, dict(desc, rows=a))
                        break
                want = {p for p in (ref[0] | ref[1] | ref[2]) if under(fl, p)}
                if not want <= (got[0] | got[1] | got[2]):
                    tp.viol(acc, "%s:filtered-misses-change" % setting,
                                  dict(desc, missing=sorted(want - (got[0] | got[1] | got[2])), rows=a))
                if len(got[0] | got[1] | got[2]) < len(ref[0] | ref[1] | ref[2]):
                    nontrivial = True
            acc.outcomes.add(hash(repr([sorted(x) for x in got])))
    if nontrivial:
        acc.nt((setting, repr(sorted(label.items()))))


def _work_git(chunk):
    from breezy.workingtree import WorkingTree
    from mc import wt as mwt
    acc = par.Acc()
    trees = _CFG["trees"]
    for i in chunk:
        base = boot.scratch("c10g")
        tree = mwt.make_tree("git", base)
        tp.lay(base, trees[i])
        tp.version(tree, trees[i], False)
        tree.commit("c", timestamp=1000000000, timezone=0, committer=ts.COMMITTER)
        for j in range(len(trees)):
            dst = base + "-w"
            shutil.copytree(base, dst, symlinks=True)
            tree = WorkingTree.open(dst)
            if i != j:
                tp.unversion_all(tree)
                tp.wipe(dst)
                tp.lay(dst, trees[j])
                tp.version(tree, trees[j], False)
            tp.lay(dst, {}, extras=UNV)
            tree = WorkingTree.open(dst)
            basis = tree.basis_tree()
            with tree.lock_read(), basis.lock_read():
                check_pair_git(acc, "git-wt", basis, tree, trees[i], trees[j], {"source": i, "target": j}, _CFG["maxk"])
            if i != j:
                # revision tree against revision tree: commit the target state and compare the two
                for p, _c in UNV:
                    if os.path.lexists(os.path.join(dst, p)):
                        os.unlink(os.path.join(dst, p))
                tree.commit("c2", timestamp=1000000001, timezone=0, committer=ts.COMMITTER)
                tree = WorkingTree.open(dst)
                new = tree.basis_tree()
                with new.lock_read(), basis.lock_read():
                    check_pair_git(acc, "git-rev", basis, new, trees[i], trees[j], {"source": i, "target": j}, _CFG["maxk"])
            shutil.rmtree(dst, ignore_errors=True)
        shutil.rmtree(base, ignore_errors=True)
    return acc


def run(ctx):
    trees = tp.space(ctx.q(0, 1))
    _CFG.update(trees=trees, maxk=2, maxk_rev=ctx.q(2, 3), rev_world=None)
    ts.warm("bzr")
    ts.warm("git")
    idx = list(range(len(trees)))
    parts = {}
    accs = []
    best = {}
    for name, fn, items in (("rev", _work_rev, idx), ("wt", _work_wt, idx), ("git", _work_git, idx[:ctx.q(8, 40)])):
        raw = par.pmap(fn, items, seed=ctx.seed)
        tp.gather(raw, best)
        a = par.merge(raw)
        parts[name] = {"evaluations": a.n, "items": len(items), "nontrivial_pairs": len(a.nontrivial)}
        accs.append(a)
    hist = [h for h in ts.sequences(ctx.q(2, 3), "bzr", start=ts.START_FULL, seed=ctx.seed)]
    _CFG["maxk"] = 2
    raw = par.pmap(_work_reach, hist, seed=ctx.seed)
    tp.gather(raw, best)
    a = par.merge(raw)
    parts["wt-reachable"] = {"evaluations": a.n, "states": len(hist), "nontrivial_pairs": len(a.nontrivial)}
    accs.append(a)
    acc = par.merge(accs)
    for sig in sorted(best):
        d = best[sig][1]
        if "source" in d:
            d = dict(d, source_tree=tp_dump(trees[d["source"]]), target_tree=tp_dump(trees[d["target"]]))
        ctx.violation(sig, d)
    ctx.assumptions.append("the generic comparison is breezy.bzr.inventorytree.InterInventoryTree.iter_changes "
                           "(breezy.tree.InterTree.iter_changes is abstract in this code base); for git trees no "
                           "generic implementation exists and a reference diff of the declarative trees is the oracle")
    ctx.assumptions.append("require_versioned=False; extra_trees not used")
    return {
        "evaluations": acc.n,
        "distinct_nontrivial": len(acc.nontrivial),
        "rule": "a pair is non-trivial when some filter excludes at least one changed path "
                "(the filtered result is strictly smaller than the full change set)",
        "trees": len(trees),
        "ordered_pairs_per_setting": len(trees) * (len(trees) - 1),
        "max_filter_size": {"rev": ctx.q(2, 3), "wt": 2, "git": 2, "wt-reachable": 2},
        "parts": parts,
        "distinct_change_sets": len(acc.outcomes),
        "samples": acc.samples[:3] or [{"trees": len(trees)}],
        "cpu_s": _cpu(),
        "exhaustive": True,
    }


def tp_dump(t):
    return {p: (e.fid, e.kind, e.content, e.exec) for p, e in sorted(t.items())}
