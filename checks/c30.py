"""C30 - A smart server (or client) never waits for bytes beyond the current message.

The same message grammar as C29 (protocol versions 1, 2, 3; requests and responses; arguments,
bodies of 0/1/17 (70, 300) bytes, readv offset lists, streamed bodies, errors in mid stream, unknown
verbs, requests answered before their body was read).  The reader is connected to an adversarial
pipe: a read(n) returns any 1 <= d <= n bytes (explorer's choice) but never more than the current
message holds; a read(n) with n larger than what is left of the message in progress would block for
ever on a real pipe (the peer sends nothing more before it has seen the answer) and is the
violation.  Readers: the real SmartServerPipeStreamMedium.serve() loop over two or three
consecutive requests (recording verbs and the real hello/get/put/has/readv verbs on a memory
transport); SmartClientRequestProtocolOne/Two and ConventionalResponseHandler + ProtocolThreeDecoder
reading a response through the real SmartSimplePipesClientMedium; and the decoders driven directly by their
own next_read_size() hint (ChunkedBodyDecoder, LengthPrefixedBodyDecoder, SmartServerRequestProtocolOne
/Two, ProtocolThreeDecoder with the request and with the response handler).  ALL short-read
patterns are explored by explicit-state search (state = bytes consumed + snapshot of the decoder /
protocol / medium objects; event = the read returns d bytes); nothing is deviation-bounded.
Oracle: every read size / next_read_size() is >= 1 and <= the bytes left in the message; the
message is reported complete (next_read_size() == 0 / finished_reading / request finished / serve
loop turns to the next request) exactly when its last byte has been consumed - not earlier, and
without having touched a byte of the following message; the server has written its complete answer
by then; the decoded content and the answers are what was sent.  For messages of <= 14 bytes every
read pattern is additionally enumerated without the state cache and must visit the same states.
"""
from mc import par
from mc.evidence import HarnessError

from . import _smartwire as W

ID = "C30"
LEVEL = "model_checking"
TECHNIQUE = "explicit-state search over all short-read patterns of an adversarial pipe under the real server medium, client readers and decoders"


def well_formed(spec):
    return W.tag_of(spec) != "[separator-in-args]"


def items(thorough):
    out = []
    for spec in W.raw_specs(thorough):
        out.append(("push", spec, W.next_bytes(spec), "hint"))
    for sl, spec in W.request_specs(thorough):
        if not well_formed(spec):
            continue
        out.append(("push", spec, W.next_bytes(spec), "hint"))
        follow = [W.hello(spec[1])]
        if sl in ("B", "E", "H"):
            follow.append((("req", spec[1], W.VERB_BODY, (b"b",), "body", W.B1), ("resp", spec[1], True, (b"ok",), "none", None)))
        out.append(("medium", "pipe", ((spec, W.response_for(spec)),) + tuple(follow), "count"))
    for sc in W.real_verb_scenarios():
        out.append(("medium", "pipe", sc, "count"))
    for sl, spec in W.response_specs(thorough):
        if not well_formed(spec):
            continue
        out.append(("pull", spec, W.next_bytes(spec), "count"))
        if spec[1] == 3:
            out.append(("push", spec, W.next_bytes(spec), "hint"))
    return out


def _work(chunk):
    W.install()
    acc = par.Acc()
    for item in chunk:
        s = W.explore_item(item, acc)
        acc.sample({"item": repr(item)[:300], "states": len(s.seen), "transitions": s.transitions, "executions": s.execs})
        if s.maxlen > 1:
            acc.count("items_with_short_reads")
    return acc


def _exhaustive(chunk):
    W.install()
    acc = par.Acc()
    for item in chunk:
        run, n, t = W.make_run(item)
        s = W.Search(run).go()
        W.CONCRETE[0] = True
        try:
            keys, verdicts, execs = W.exhaustive(run)
        finally:
            W.CONCRETE[0] = False
        acc.n += execs
        if keys is None:
            acc.count("bf_cut_off")       # only happens when the code under test offers far more choices than /repo's
            W.add_violations(acc, verdicts, item, n)
            continue
        acc.count("bf_items")
        akeys = {W.abstract_key(k) for k in keys}
        if akeys != s.seen:
            acc.violation("harness:state-search-and-enumeration-disagree",
                          {"item": repr(item), "only_search": len(s.seen - akeys), "only_enumeration": len(akeys - s.seen)})
        if bool(verdicts) != bool(s.verdicts):
            acc.violation("harness:state-search-and-enumeration-verdicts-disagree", {"item": repr(item)})
        W.add_violations(acc, verdicts, item, n)
    return acc


def _audit(chunk):
    W.install()
    acc = par.Acc()
    for item in chunk:
        run, n, t = W.make_run(item)
        a = W.Search(run).go()
        b = W.Search(run, abort=False).go()
        c = W.Search(run).go()
        acc.n += 1
        if a.seen != b.seen or a.transitions != b.transitions or a.seen != c.seen or a.execs != c.execs:
            raise HarnessError("search is not deterministic / abort changes the state set for %r" % (item,))
    return acc


def run(ctx):
    W.install()
    its = items(ctx.thorough)
    acc = par.merge(par.pmap(_work, its, seed=ctx.seed, chunks_per_job=8))
    short = []
    for it in its:
        _run, n, _t = W.make_run(it)
        if it[0] == "medium":
            if n <= 30 and len(it[2]) == 2:
                short.append(it)
        elif n - len(it[2]) <= 14:
            short.append(it)
    bf = par.merge(par.pmap(_exhaustive, short, seed=ctx.seed))
    small = [it for it in its if W.make_run(it)[1] <= 60]
    au = par.merge(par.pmap(_audit, [it for i, it in enumerate(small) if i % 20 == 0][:40], seed=ctx.seed))
    for sig, d in W.smallest_per_signature(acc.violations + bf.violations):
        if sig.startswith("harness:"):
            raise HarnessError("%s %r" % (sig, d))
        ctx.violation(sig, d)
    ctx.assumptions.append("well-formed = v1/v2 arguments contain neither 0x01 nor \\n (see C29's known finding on the legacy tuple encoding)")
    ctx.assumptions.append("the peer sends nothing beyond the current message before it has read the answer (lock step), "
                           "so asking for more than the message holds blocks for ever; a 1-byte read for the next request line "
                           "after the answer has been written is legitimate")
    ctx.assumptions.append("bytes written to the server's output count as delivered (the pipe medium flushes when a request is finished)")
    return {
        "evaluations": acc.n + bf.n,
        "traces_validated_against_impl": acc.n + bf.n,
        "states": acc.counters.get("states", 0),
        "transitions": acc.counters.get("transitions", 0),
        "messages_explored": acc.counters.get("items", 0),
        "items_with_short_reads": acc.counters.get("items_with_short_reads", 0),
        "message_bytes": acc.counters.get("bytes", 0),
        "per_harness": {k[6:]: v for k, v in sorted(acc.counters.items()) if k.startswith("items:")},
        "executions_per_harness": {k[6:]: v for k, v in sorted(acc.counters.items()) if k.startswith("execs:")},
        "uncached_enumeration_items": bf.counters.get("bf_items", 0),
        "uncached_enumeration_executions": bf.n,
        "uncached_enumeration_cut_off": bf.counters.get("bf_cut_off", 0),
        "search_audits": au.n,
        "deviation_bounded": "nothing: every short-read pattern of every message is explored",
        "v3_client_decoder_items": acc.counters.get("v3_client_items", 0),
        "v3_client_decoder_items_with_a_read_boundary_at_each_of_the_23_positions_inside_the_version_marker":
            acc.counters.get("v3_client_items_cut_at_every_marker_byte", 0),
        "distinct_nontrivial": len(acc.nontrivial),
        "distinct_outcome_classes": len(acc.outcomes),
        "rule": "one case = one (reader, message or request sequence); non-trivial = at least 2 bytes on the wire",
        "violations_raw": acc.counters.get("violations_raw", 0),
        "samples": acc.samples[:4],
        "exhaustive": not acc.counters.get("capped"),
    }


def replay(ctx, data):
    return not W.replay_detail(data["first"])
