"""In-process loopback smart server: ``bzr+vloop://<n>/path`` -> an mc.vfs Store.

    from checks import _loopback
    url = _loopback.url_for(store)            # "bzr+vloop://3/"  (root of the store)
    b = Branch.open(url + "some/branch")      # RemoteBranch / RemoteRepository ...
    _loopback.stats(store)                    # {"requests": n, "bytes_in": .., "bytes_out": ..}

No sockets, threads or subprocesses: the client medium buffers the bytes of a
request; when the client starts reading the response the buffered bytes are fed
to a real ``SmartServerPipeStreamMedium(...).serve()`` whose backing transport
is ``store.transport()`` (so every server-side file operation is in
``store.log`` and passes ``store.hook``), and the bytes the server wrote become
the response.  Client side = breezy's real RemoteTransport / _SmartClient /
protocol v3 encoder, server side = the real request handlers.
"""
from io import BytesIO

import dromedary
from breezy.bzr.smart import medium
from breezy.transport import register_urlparse_netloc_protocol
from breezy.transport import remote as remote_transport

SCHEME = "bzr+vloop"
_STORES = {}       # "<n>" -> Store
_STATS = {}        # "<n>" -> dict


class _Out(BytesIO):
    """The server's output pipe; its content must survive close()."""

    def close(self):
        pass


class LoopMedium(medium.SmartClientStreamMedium):
    def __init__(self, base, key):
        super().__init__(base)
        self._key = key
        self._req = []
        self._resp = None

    def _accept_bytes(self, data):
        self._req.append(data)
        self._resp = None

    def _flush(self):
        pass

    def _read_bytes(self, count):
        if self._resp is None:
            data = b"".join(self._req)
            self._req = []
            out = _Out()
            store = _STORES[self._key]
            srv = medium.SmartServerPipeStreamMedium(BytesIO(data), out, store.transport(""), timeout=4.0)
            srv.serve()
            st = _STATS[self._key]
            st["requests"] += 1
            st["bytes_in"] += len(data)
            st["bytes_out"] += len(out.getvalue())
            self._resp = BytesIO(out.getvalue())
        return self._resp.read(count)

    def disconnect(self):
        pass


class LoopTransport(remote_transport.RemoteTransport):
    def _build_medium(self):
        return LoopMedium(self.base, self._parsed_url.host), None


dromedary.register_transport(SCHEME + "://", LoopTransport)
register_urlparse_netloc_protocol(SCHEME)


def url_for(store):
    """Base URL (root of the store) served by the loopback smart server."""
    key = store.scheme.split("+", 1)[1].split(":", 1)[0]      # memory+<n>:/// -> <n>
    _STORES[key] = store
    _STATS.setdefault(key, {"requests": 0, "bytes_in": 0, "bytes_out": 0})
    return "%s://%s/" % (SCHEME, key)


def stats(store):
    key = store.scheme.split("+", 1)[1].split(":", 1)[0]
    return _STATS.get(key, {"requests": 0, "bytes_in": 0, "bytes_out": 0})


def forget(store):
    key = store.scheme.split("+", 1)[1].split(":", 1)[0]
    _STORES.pop(key, None)
    _STATS.pop(key, None)
