"""C39 - Diffs apply back to the text they describe.

Texts are line lists over the line alphabet {a, b, <empty line>} (thorough: also c), the
last line with and without its final newline, the empty text included.  For every ordered
pair (old, new) of texts of <= 4 lines (thorough: <= 5 over 3 symbols and <= 4 over 4;
clauses 5 and 6 then use the smaller bounds given below, in the 4-symbol space 6 uses <= 3)
and every context size in {0, 1, 3} (thorough: + 2), on the real code:
 1 diff.internal_diff(old, new, context_lines=n) (patiencediff + unified_diff_bytes);
   equal texts give no output;
 2 patches.iter_patched(old, diff) yields exactly new (the Python patcher bundles, shelf
   and apply_patches use);
 3 patches.parse_patch(diff) -> as_bytes() -> parse_patch gives the same hunks, as_bytes is
   a fixpoint, and parse_patches sees exactly that one patch;
 4 Patch.stats_values() == (number of '+' lines, number of '-' lines, number of @@ headers)
   counted by an independent mini-parser, and inserts - removes == len(new) - len(old);
 5 (smaller bound: <= 2 lines, thorough <= 3) breezy.patch.iter_patched_from_hunks - the
   compiled patcher that pipes the diff to the external patch(1) - also yields new;
 6 conflict clause (pairs of <= 3 lines, thorough <= 4): every single-line perturbation of
   old (delete a line, replace it by each other alphabet line or a foreign line, insert a
   foreign line, toggle the final newline) is patched with iter_patched_from_hunks; a
   positional reference patcher written here decides whether every hunk still finds its
   context/removed lines: if not, the only accepted outcome is PatchConflict; if so, the
   output must be exactly the reference result - never silently different text.
"""
import itertools
import re
from io import BytesIO

from mc import boot, par
from mc.evidence import HarnessError

from . import _u5

ID = "C39"
LEVEL = "exploration"
TECHNIQUE = "exhaustive enumeration of small line-sequence pairs x context sizes x single-line perturbations on the real diff generator, parser and patchers"

SYM3 = (b"a\n", b"b\n", b"\n")
SYM4 = (b"a\n", b"b\n", b"c\n", b"\n")
FOREIGN = b"z\n"
NO_NL = b"\\ No newline at end of file\n"


def texts(symbols, maxlines):
    """All line lists of <= maxlines lines; the last line also without its newline."""
    out = [()]
    for k in range(1, maxlines + 1):
        for t in itertools.product(symbols, repeat=k):
            out.append(t)
            if t[-1] != b"\n":
                out.append(t[:-1] + (t[-1][:-1],))
    return out


# ---- reference: independent mini-parser and positional patcher ---------------------------

_HDR = re.compile(rb"^@@ -(\d+)(?:,(\d+))? \+(\d+)(?:,(\d+))? @@")


def ref_parse(diff):
    """[(orig_pos, orig_len, mod_pos, mod_len, [(tag, line)])] from unified diff bytes."""
    raw = diff.split(b"\n")
    if raw and raw[-1] == b"":
        raw.pop()
    lines = [l + b"\n" for l in raw]
    if len(lines) < 2 or not lines[0].startswith(b"--- ") or not lines[1].startswith(b"+++ "):
        raise ValueError("no header")
    hunks = []
    for l in lines[2:]:
        if l.startswith(b"@@"):
            m = _HDR.match(l)
            if not m:
                raise ValueError("bad hunk header %r" % l)
            g = m.groups()
            hunks.append([int(g[0]), int(g[1]) if g[1] is not None else 1,
                          int(g[2]), int(g[3]) if g[3] is not None else 1, []])
        elif l == b"\n":
            continue                      # the blank separator internal_diff writes after a patch
        elif l == NO_NL:
            tag, prev = hunks[-1][4][-1]
            hunks[-1][4][-1] = (tag, prev[:-1])
        elif l[:1] in (b" ", b"+", b"-"):
            hunks[-1][4].append((l[:1], l[1:]))
        else:
            raise ValueError("unexpected line %r" % l)
    for h in hunks:
        o = sum(1 for t, _ in h[4] if t in (b" ", b"-"))
        n = sum(1 for t, _ in h[4] if t in (b" ", b"+"))
        if (o, n) != (h[1], h[3]):
            raise ValueError("hunk counts %r do not match its lines" % (h[:4],))
    return hunks


CONFLICT_EOF = "text-ends-before-the-hunk-does"
CONFLICT_LINE = "line-differs-from-hunk"


def ref_apply(text, hunks):
    """Exact positional patching: the new line list, or a CONFLICT_* string when a hunk's
    context or removed lines are not found at its position."""
    out = []
    pos = 0
    for opos, olen, npos, nlen, hl in hunks:
        start = max(opos - 1, 0)
        if start < pos:
            return CONFLICT_LINE
        if start > len(text):
            return CONFLICT_EOF
        out.extend(text[pos:start])
        pos = start
        for tag, line in hl:
            if tag == b"+":
                out.append(line)
                continue
            if pos >= len(text):
                return CONFLICT_EOF
            if text[pos] != line:
                return CONFLICT_LINE
            if tag == b" ":
                out.append(line)
            pos += 1
    out.extend(text[pos:])
    return out


def perturbations(old, symbols):
    seen = set()
    n = len(old)
    cands = []
    for i in range(n):
        cands.append(("delete", old[:i] + old[i + 1:]))
    for i in range(n):
        for s in tuple(symbols) + (FOREIGN,):
            last = i == n - 1
            if not old[i].endswith(b"\n") and last:
                s = s[:-1]
                if not s:
                    continue
            if s != old[i]:
                cands.append(("replace", old[:i] + (s,) + old[i + 1:]))
    for i in range(n + 1):
        if i == n and n and not old[-1].endswith(b"\n"):
            continue                      # appending after an unterminated line is not a line-list edit
        cands.append(("insert", old[:i] + (FOREIGN,) + old[i:]))
    if n:
        if old[-1].endswith(b"\n"):
            if old[-1] != b"\n":
                cands.append(("strip-final-newline", old[:-1] + (old[-1][:-1],)))
        else:
            cands.append(("add-final-newline", old[:-1] + (old[-1] + b"\n",)))
    for kind, p in cands:
        if p != old and p not in seen:
            seen.add(p)
            yield kind, p


def hunk_key(h):
    return (h.orig_pos, h.orig_range, h.mod_pos, h.mod_range, h.tail,
            tuple((type(l).__name__, l.contents) for l in h.lines))


def _exc_sig(site, e):
    return "%s:%s:%s" % (site, type(e).__name__, _u5.innermost_repo_frame(e, boot.REPO))


def make_diff(diffmod, old, new, n):
    f = BytesIO()
    diffmod.internal_diff("old", list(old), "new", list(new), f, context_lines=n)
    return f.getvalue()


def diff_class(hunks, n):
    """Abstract shape of a diff for signatures."""
    if any(h[1] == 0 and h[0] >= 1 for h in hunks):
        return "has-empty-old-range-in-a-non-empty-file"
    return "other-diffs"


def check_pair(mods, old, new, n, acc, vs, symbols, perturb, external):
    diffmod, patches, patchmod = mods
    inp = {"old": list(old), "new": list(new), "context": n}
    rank = (len(old) + len(new), n)
    acc.n += 1
    try:
        D = make_diff(diffmod, old, new, n)
    except Exception as e:  # noqa
        vs.add(_exc_sig("internal_diff", e), dict(input=inp, error=repr(e)), rank)
        return
    if old == new:
        acc.count("equal_pairs")
        if D != b"":
            vs.add("internal_diff:output-for-identical-texts", dict(input=inp, diff=D), rank)
        return
    if D == b"":
        vs.add("internal_diff:no-output-for-different-texts", dict(input=inp), rank)
        return
    inp["diff"] = D
    plines = D.splitlines(True)
    # 2 apply back
    try:
        got = list(patches.iter_patched(list(old), list(plines)))
    except Exception as e:  # noqa
        vs.add(_exc_sig("iter_patched(old,diff)", e), dict(input=inp, error=repr(e)), rank)
        got = None
    if got is not None and b"".join(got) != b"".join(new):
        vs.add("iter_patched(old,diff):result-is-not-new", dict(input=inp, got=got), rank)
    # reference parse (harness self-check: it must reproduce new as well)
    try:
        rh = ref_parse(D)
    except ValueError as e:
        vs.add("internal_diff:malformed-unified-diff", dict(input=inp, error=str(e)), rank)
        return
    if ref_apply(list(old), rh) != list(new):
        if got is not None and b"".join(got) == b"".join(new):
            raise HarnessError("reference patcher disagrees with breezy on the unperturbed text: %r" % (inp,))
        return
    if len(rh) > 1:
        acc.nt((old, new, n))
    acc.outcomes.add((n, len(rh), diff_class(rh, n), NO_NL in D))
    # 3 parse / serialise / parse
    try:
        p = patches.parse_patch(list(plines))
        ser = p.as_bytes()
        p2 = patches.parse_patch(ser.splitlines(True))
        multi = list(patches.parse_patches(list(plines)))
    except Exception as e:  # noqa
        vs.add(_exc_sig("parse_patch", e), dict(input=inp, error=repr(e)), rank)
        return
    k1, k2 = [hunk_key(h) for h in p.hunks], [hunk_key(h) for h in p2.hunks]
    if k1 != k2:
        vs.add("parse_patch(as_bytes(parse_patch(diff))):different-hunks", dict(input=inp, first=k1, second=k2), rank)
    elif p2.as_bytes() != ser:
        vs.add("Patch.as_bytes:not-a-fixpoint", dict(input=inp, first=ser, second=p2.as_bytes()), rank)
    if (p.oldname, p.newname) != (b"old", b"new") or (p2.oldname, p2.newname) != (b"old", b"new"):
        vs.add("parse_patch:wrong-file-names", dict(input=inp, names=[p.oldname, p.newname]), rank)
    if len(multi) != 1 or [hunk_key(h) for h in multi[0].hunks] != k1:
        vs.add("parse_patches:differs-from-parse_patch", dict(input=inp, patches=len(multi)), rank)
    refk = [(h[0], h[1], h[2], h[3], None,
             tuple(({b" ": "ContextLine", b"+": "InsertLine", b"-": "RemoveLine"}[t], l) for t, l in h[4])) for h in rh]
    if k1 != refk:
        vs.add("parse_patch:hunks-differ-from-the-diff-text", dict(input=inp, parsed=k1, reference=refk), rank)
    # 4 statistics
    ins = sum(1 for h in rh for t, _ in h[4] if t == b"+")
    rem = sum(1 for h in rh for t, _ in h[4] if t == b"-")
    try:
        st = tuple(p.stats_values())
    except Exception as e:  # noqa
        vs.add(_exc_sig("stats_values", e), dict(input=inp, error=repr(e)), rank)
        st = None
    if st is not None and st != (ins, rem, len(rh)):
        vs.add("stats_values:differ-from-changed-line-counts", dict(input=inp, stats=st, counted=[ins, rem, len(rh)]), rank)
    if ins - rem != len(new) - len(old) or ins > len(new) or rem > len(old):
        vs.add("internal_diff:inserted-minus-removed-is-not-the-length-change", dict(input=inp, counted=[ins, rem]), rank)
    # 5 the compiled patcher (external patch(1))
    if external:
        acc.count("external_patch_runs")
        cls = diff_class(rh, n)
        try:
            eg = b"".join(patchmod.iter_patched_from_hunks(list(old), list(plines)))
        except Exception as e:  # noqa
            vs.add("patch.iter_patched_from_hunks(external):%s:context%s:%s" % (type(e).__name__, "0" if n == 0 else ">0", cls),
                   dict(input=inp, error=repr(e)[:400]), rank)
            eg = None
        if eg is not None and eg != b"".join(new):
            vs.add("patch.iter_patched_from_hunks(external):result-is-not-new:context%s:%s" % ("0" if n == 0 else ">0", cls),
                   dict(input=inp, got=eg), rank)
    # 6 perturbed old texts
    if perturb:
        for kind, P in perturbations(old, symbols):
            acc.count("perturbed_applications")
            exp = ref_apply(list(P), rh)
            pinp = dict(inp, perturbed_old=list(P), perturbation=kind)
            prank = rank + (len(P),)
            try:
                out = list(patches.iter_patched_from_hunks(list(P), p.hunks))
                res = "output"
            except patches.PatchConflict:
                out, res = None, "PatchConflict"
            except Exception as e:  # noqa
                out, res = None, type(e).__name__
                where = _u5.innermost_repo_frame(e, boot.REPO)
            acc.outcomes.add(("perturbed", kind, exp if isinstance(exp, str) else "applies", res))
            if isinstance(exp, str):
                acc.count("perturbed_must_conflict")
                cond = exp
                if res == "output":
                    vs.add("iter_patched_from_hunks:non-matching-text:silently-produces-output:" + cond,
                           dict(input=pinp, got=out), prank)
                elif res != "PatchConflict":
                    vs.add("iter_patched_from_hunks:non-matching-text:%s-instead-of-PatchConflict:%s:%s" % (res, cond, where),
                           dict(input=pinp), prank)
            else:
                acc.count("perturbed_still_applies")
                if res == "PatchConflict":
                    vs.add("iter_patched_from_hunks:matching-text:spurious-PatchConflict", dict(input=pinp, expected=exp), prank)
                elif res != "output":
                    vs.add("iter_patched_from_hunks:matching-text:%s:%s" % (res, where), dict(input=pinp, expected=exp), prank)
                elif b"".join(out) != b"".join(exp):
                    vs.add("iter_patched_from_hunks:matching-text:wrong-output", dict(input=pinp, got=out, expected=exp), prank)


def _mods():
    from breezy import diff, patch, patches
    return diff, patches, patch


def _work(chunk):
    mods = _mods()
    acc = par.Acc()
    vs = _u5.SmallestViolations(acc)
    for symbols, maxlines, old, contexts, plimit, elimit in chunk:
        for new in texts(symbols, maxlines):
            for n in contexts:
                small = max(len(old), len(new))
                check_pair(mods, old, new, n, acc, vs, symbols, perturb=small <= plimit, external=small <= elimit)
        acc.sample({"old": list(old), "new": [b"b\n", b"a"], "context": 1,
                    "diff": make_diff(mods[0], old, (b"b\n", b"a"), 1)})
    vs.flush()
    return acc


def run(ctx):
    import shutil as _sh
    if _sh.which("patch") is None:
        raise HarnessError("patch(1) not installed: breezy.patch.iter_patched_from_hunks cannot be exercised")
    contexts = ctx.q((0, 1, 3), (0, 1, 2, 3))
    plimit = ctx.q(3, 4)
    elimit = ctx.q(2, 3)
    # (symbols, max lines, perturbation bound, external-patch bound)
    spaces = [(SYM3, ctx.q(4, 5), plimit, elimit)]
    if ctx.thorough:
        spaces.append((SYM4, 4, 3, 0))
    items = []
    for symbols, maxlines, pl, el in spaces:
        for old in texts(symbols, maxlines):
            items.append((symbols, maxlines, old, contexts, pl, el))
    # the two spaces overlap (pairs over SYM3 with <= 4 lines are in both): restrict the second to pairs
    # that contain the 4th symbol is not worth the bookkeeping; evaluations are reported as executed.
    a1, a2 = _work(items[:6]), _work(items[:6])
    if (a1.n, a1.violations, sorted(a1.outcomes, key=repr)) != (a2.n, a2.violations, sorted(a2.outcomes, key=repr)):
        raise HarnessError("determinism audit failed")
    acc = par.merge(par.pmap(_work, items, seed=ctx.seed, chunks_per_job=16))
    _u5.report_smallest(ctx, [acc])
    ctx.assumptions.append("line alphabet {a, b, (c), empty line}; only the last line may lack its newline; no CR, no NUL "
                           "(allow_binary=False path), labels without tabs/timestamps; default PatienceSequenceMatcher")
    ctx.assumptions.append("reference patcher = exact positional patching at the hunk's stated old position (breezy's "
                           "convention: position = index+1 also for empty ranges, 0,0 for an empty file)")
    return {
        "evaluations": acc.n + acc.counters.get("perturbed_applications", 0),
        "diffs": acc.n - acc.counters.get("equal_pairs", 0),
        "pair_context_cases": acc.n,
        "perturbed_applications": acc.counters.get("perturbed_applications", 0),
        "perturbed_must_conflict": acc.counters.get("perturbed_must_conflict", 0),
        "perturbed_still_applies": acc.counters.get("perturbed_still_applies", 0),
        "external_patch_runs": acc.counters.get("external_patch_runs", 0),
        "distinct_nontrivial": len(acc.nontrivial),
        "rule": "every ordered pair of texts (%s) x contexts %r; non-trivial = the diff has more than one hunk (distinct "
                "(old, new, context) keys); perturbations for texts <= %d lines, external patch(1) for texts <= %d lines "
                "(3-symbol space; in the 4-symbol space perturbations <= 3 lines, no external runs)"
                % ("; ".join("<=%d lines over %d symbols" % (m, len(s)) for s, m, _, _ in spaces), list(contexts), plimit, elimit),
        "distinct_outcomes": len(acc.outcomes),
        "outcomes": sorted(acc.outcomes, key=repr)[:80],
        "samples": acc.samples[:3],
        "exhaustive": True,
    }


def replay(ctx, data):
    """Re-run the recorded (old, new, context) case with perturbations and the external patcher."""
    inp = data["first"]["input"]
    acc = par.Acc()
    vs = _u5.SmallestViolations(acc)
    old = tuple(x.encode("utf-8") for x in inp["old"])
    new = tuple(x.encode("utf-8") for x in inp["new"])
    check_pair(_mods(), old, new, inp["context"], acc, vs, SYM4, perturb=True, external=True)
    vs.flush()
    return data["signature"] not in [s for s, _ in acc.violations]
