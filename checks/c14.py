"""C14 - Transform previews match their applied result; conflict resolution ends clean or Malformed.

Bounded exhaustive enumeration of TreeTransform programs on real working trees
(bzr 2a dirstate trees and git trees: separate sub-runs, separate signatures).
Base tree: committed file `a`, directory `d`, executable file `d/b`, symlink
`l`, plus an unversioned file `u`.  Every sequence of <= 3 operations (quick:
36-letter alphabet; thorough: 59-letter alphabet, plus every sequence of <= 4
over a 20-letter core) from {new_file (versioned or not), new_directory,
new_symlink, delete_contents, unversion_file, version_file, adjust_path (names x
parents: self/loops, duplicates, missing and file parents), set_executability,
create_file/directory/symlink over existing or deleted contents, the same on
entries created earlier in the program} is run through `tree.transform()` and
`breezy.transform.resolve_conflicts`.  Oracle: resolution ends either with
MalformedTransform and an untouched directory, versioned dump and empty limbo,
or without raw conflicts; then what `get_preview_tree()` says before `apply()`
(versioned paths, inventory kinds, file ids on bzr, kind/bytes/link target/exec
bit per path, has_filename/is_versioned for every known path, extras) must
equal the tree re-opened after `apply()` and the directory snapshot; `apply()`
must not raise; after any exception the before state must be intact.
"""
import os
import shutil
import signal
import sys
import traceback

from mc import boot, par
from mc import wt as mwt
from mc.evidence import HarnessError

ID = "C14"
LEVEL = "exploration"
TECHNIQUE = "bounded exhaustive enumeration of TreeTransform operation sequences on real bzr/git working trees; preview dump vs re-opened tree and directory snapshot after apply"

REPO = os.path.realpath(boot.REPO)

# ---------------------------------------------------------------------------
# operation alphabet
#
# operands: "@<path>" = trans_id_tree_path(path) ("@" = tree root),
#           "#<k>"    = trans id returned by the k-th operation of the program.
# ---------------------------------------------------------------------------

CREATORS = ("new_file", "new_dir", "new_link")


def handles(prog):
    """[(index, kind, versioned)] of the creating operations of a program."""
    out = []
    for i, op in enumerate(prog):
        if op[0] == "new_file":
            out.append((i, "file", op[3]))
        elif op[0] == "new_dir":
            out.append((i, "directory", True))
        elif op[0] == "new_link":
            out.append((i, "symlink", True))
    return out


class Alphabet:
    """Static description of the operations offered after a given prefix."""

    def __init__(self, name, new_file, new_file_unv, new_dir, new_link, delete, unversion, version,
                 moves, execs, create_file, create_dir, create_link, handle_ops):
        self.name = name
        self.new_file = new_file
        self.new_file_unv = new_file_unv
        self.new_dir = new_dir
        self.new_link = new_link
        self.delete = delete
        self.unversion = unversion
        self.version = version
        self.moves = moves
        self.execs = execs
        self.create_file = create_file
        self.create_dir = create_dir
        self.create_link = create_link
        self.handle_ops = handle_ops

    def next_ops(self, prog):
        ops = []
        for n, p in self.new_file:
            ops.append(("new_file", n, p, True))
        for n, p in self.new_file_unv:
            ops.append(("new_file", n, p, False))
        for n, p in self.new_dir:
            ops.append(("new_dir", n, p))
        for n, p in self.new_link:
            ops.append(("new_link", n, p))
        for t in self.delete:
            ops.append(("delete", t))
        for t in self.unversion:
            ops.append(("unversion", t))
        for t in self.version:
            ops.append(("version", t))
        for n, p, t in self.moves:
            ops.append(("move", n, p, t))
        for v, t in self.execs:
            ops.append(("exec", v, t))
        for t in self.create_file:
            ops.append(("create_file", t))
        for t in self.create_dir:
            ops.append(("create_dir", t))
        for t in self.create_link:
            ops.append(("create_link", t))
        if self.handle_ops:
            wide = self.handle_ops > 1
            for i, kind, versioned in handles(prog):
                h = "#%d" % i
                # children of the new entry (directory: plain; file/link: non-directory parent)
                ops.append(("new_file", "n", h, True))
                if kind == "directory":
                    # existing entries moved below it (d below a directory created in d = parent loop)
                    ops.append(("move", "n", h, "@a"))
                    ops.append(("move", "n", h, "@d"))
                    if wide:
                        ops.append(("new_dir", "n", h))
                # the new entry moved: onto an existing name; (wide) fresh name, below d, missing parent, itself
                ops.append(("move", "a", "@", h))
                if wide:
                    ops.append(("move", "n", "@", h))
                    ops.append(("move", "b", "@d", h))
                    ops.append(("move", "n", "@m", h))
                    ops.append(("move", "n", h, h))
                if kind == "file":
                    ops.append(("exec", True, h))
                    if not versioned:
                        ops.append(("version", h))
                elif wide:
                    ops.append(("exec", True, h))
        return ops


def _alphabet(level):
    """level 0: core (depth-4 runs), 1: quick, 2: thorough depth 3."""
    if level == 0:
        return Alphabet(
            "core",
            new_file=[("n", "@"), ("a", "@"), ("n", "@d")],
            new_file_unv=[],
            new_dir=[("n", "@"), ("n", "@m")],
            new_link=[],
            delete=["@a", "@d"],
            unversion=["@a", "@d"],
            version=["@u"],
            moves=[("n", "@", "@a"), ("b", "@d", "@a"), ("n", "@", "@d"), ("n", "@d", "@d"),
                   ("n", "@", "@d/b"), ("n", "@a", "@d/b")],
            execs=[(True, "@a"), (False, "@d/b")],
            create_file=["@a"],
            create_dir=["@a"],
            create_link=[],
            handle_ops=0)
    if level == 1:
        return Alphabet(
            "quick",
            new_file=[("n", "@"), ("a", "@"), ("n", "@d"), ("n", "@a"), ("n", "@m")],
            new_file_unv=[("n", "@"), ("n", "@m")],
            new_dir=[("n", "@"), ("a", "@"), ("n", "@d"), ("n", "@m")],
            new_link=[("a", "@")],
            delete=["@a", "@d", "@d/b"],
            unversion=["@a", "@d"],
            version=["@m", "@u", "@a"],
            moves=[("n", "@", "@a"), ("n", "@d", "@a"), ("b", "@d", "@a"), ("n", "@m", "@a"), ("n", "@a", "@a"),
                   ("n", "@", "@d"), ("a", "@", "@d"), ("n", "@d", "@d"),
                   ("n", "@", "@d/b"), ("n", "@d", "@d/b")],
            execs=[(True, "@a"), (False, "@d/b")],
            create_file=["@a", "@d", "@m"],
            create_dir=["@a"],
            create_link=[],
            handle_ops=1)
    return Alphabet(
        "wide",
        new_file=[("n", "@"), ("n", "@d"), ("n", "@a"), ("n", "@m"), ("a", "@"), ("b", "@d")],
        new_file_unv=[("n", "@"), ("n", "@d"), ("n", "@m")],
        new_dir=[("n", "@"), ("a", "@"), ("n", "@d"), ("n", "@m")],
        new_link=[("n", "@"), ("a", "@"), ("n", "@d")],
        delete=["@a", "@d", "@d/b", "@l", "@"],
        unversion=["@a", "@d", "@d/b", "@l", "@"],
        version=["@m", "@u", "@a"],
        moves=[("n", "@", "@a"), ("n", "@d", "@a"), ("b", "@d", "@a"), ("n", "@m", "@a"), ("n", "@a", "@a"), ("a", "@d", "@a"),
               ("n", "@", "@d"), ("a", "@", "@d"), ("n", "@a", "@d"), ("n", "@d", "@d"),
               ("n", "@", "@d/b"), ("a", "@", "@d/b"), ("n", "@d", "@d/b"), ("n", "@a", "@d/b"),
               ("n", "@", "@l"), ("n", "@d", "@l"),
               ("n", "@", "@u"), ("n", "@d", "@u")],
        execs=[(True, "@a"), (False, "@d/b"), (True, "@d"), (True, "@u")],
        create_file=["@a", "@d", "@l", "@m"],
        create_dir=["@a", "@l"],
        create_link=["@a", "@d"],
        handle_ops=2)


ALPHABETS = {}


def alphabet(level):
    if level not in ALPHABETS:
        ALPHABETS[level] = _alphabet(level)
    return ALPHABETS[level]


def static_count(level, depth):
    """Number of operation sequences of each length 0..depth offered by the alphabet (before misuse pruning).
    The offer after a prefix only depends on which positions created entries (and of what kind), so prefixes
    are counted by that signature."""
    al = alphabet(level)
    counts = [1]
    sig_count = {(): 1}
    for _ in range(depth):
        nxt = {}
        total = 0
        for sig, c in sig_count.items():
            for op in al.next_ops(sig):
                total += c
                s2 = sig + ((op if op[0] in CREATORS else ("delete", "@a")),)
                nxt[s2] = nxt.get(s2, 0) + c
        sig_count = nxt
        counts.append(total)
    return counts


# ---------------------------------------------------------------------------
# per-worker world
# ---------------------------------------------------------------------------

_W = {}
BASE_FILES = {"a": b"a\n", "d/b": b"b\n", "u": b"u\n"}
BASE_LINK = "a"


_BASE = {}


def base_tree(fmt):
    """The pristine base tree, built once (in the parent, before the workers fork); never transformed."""
    if fmt in _BASE:
        return _BASE[fmt]
    from breezy.workingtree import WorkingTree
    base = os.path.join(boot.scratch("c14base" + fmt), "base")
    mwt.make_tree(fmt, base)
    t = WorkingTree.open(base)
    with open(os.path.join(base, "a"), "wb") as f:
        f.write(BASE_FILES["a"])
    os.mkdir(os.path.join(base, "d"))
    with open(os.path.join(base, "d", "b"), "wb") as f:
        f.write(BASE_FILES["d/b"])
    os.chmod(os.path.join(base, "d", "b"), 0o755)
    os.symlink(BASE_LINK, os.path.join(base, "l"))
    if fmt == "bzr":
        t.add(["a", "d", "d/b", "l"], ids=[b"a-id", b"d-id", b"b-id", b"l-id"])
        t.commit("base", rev_id=b"r1", timestamp=1000000000, timezone=0, committer="V <v@example.com>")
    else:
        t.add(["a", "d", "d/b", "l"])
        t.commit("base", timestamp=1000000000, timezone=0, committer="V <v@example.com>")
    with open(os.path.join(base, "u"), "wb") as f:
        f.write(BASE_FILES["u"])
    del t
    _BASE[fmt] = base
    return base


def open_tree(path):
    """A fresh WorkingTree object for the tree at path (skips the location->URL guessing of WorkingTree.open)."""
    from breezy.controldir import ControlDir
    from breezy.transport import get_transport_from_path
    return ControlDir.open_from_transport(get_transport_from_path(path)).open_workingtree()


def world(fmt):
    """Per-process scratch copy of the base tree."""
    if fmt in _W and _W[fmt]["pid"] == os.getpid():
        return _W[fmt]
    from breezy.workingtree import WorkingTree
    base = base_tree(fmt)
    root = boot.scratch("c14" + fmt)
    w = dict(pid=os.getpid(), fmt=fmt, root=root, base=base, work=os.path.join(root, "w"), dirty=True)
    w["control"] = ".bzr" if fmt == "bzr" else ".git"
    _W[fmt] = w
    restore(w, full=True)
    w["snap0"] = mwt.dir_snapshot(w["work"])
    w["dump0"] = tree_dump(w, open_tree(w["work"]), w["snap0"])
    if isinstance(w["dump0"]["entries"], Err) or len(w["dump0"]["entries"]) != 4:
        raise HarnessError("base tree has %r" % (w["dump0"],))
    return w


def _state_files(w):
    """Control files a transform may rewrite (everything else under the control dir is never touched by it)."""
    if w["fmt"] == "bzr":
        return [os.path.join(".bzr", "checkout", "dirstate")]
    return [os.path.join(".git", "index")]


def _control_listing(w, top):
    """Files of the control dir with their bytes, without the git object store (grows, content addressed)."""
    out = {}
    croot = os.path.join(top, w["control"])
    for dp, dns, fns in os.walk(croot):
        rel = os.path.relpath(dp, croot)
        if rel == "objects":
            dns[:] = []
            continue
        for fn in fns:
            with open(os.path.join(dp, fn), "rb") as f:
                out[os.path.join(rel, fn)] = f.read()
        for dn in dns:
            out[os.path.join(rel, dn) + "/"] = None
    return out


def restore(w, full=False):
    """Bring the scratch tree back to the base state.  Cheap path: rewrite the working files and the
    dirstate / index file; every 256th time (and the first) a full copy, after checking that the cheap
    path had left the control directory identical to the pristine one."""
    if not w["dirty"]:
        return
    work, base = w["work"], w["base"]
    w["restores"] = w.get("restores", 0) + 1
    if full or not os.path.isdir(work) or w["restores"] % 256 == 0:
        if os.path.isdir(work) and not full:
            _cheap_restore(w)
            if _control_listing(w, work) != _control_listing(w, base):
                raise HarnessError("cheap restore leaves a different control directory (%s)" % w["fmt"])
        shutil.rmtree(work, ignore_errors=True)
        shutil.copytree(base, work, symlinks=True)
    else:
        _cheap_restore(w)
    w["dirty"] = False


def _cheap_restore(w):
    work, base = w["work"], w["base"]
    for n in os.listdir(work):
        if n == w["control"]:
            continue
        p = os.path.join(work, n)
        if os.path.isdir(p) and not os.path.islink(p):
            shutil.rmtree(p)
        else:
            os.unlink(p)
    for rel, data in (("a", BASE_FILES["a"]), ("u", BASE_FILES["u"])):
        with open(os.path.join(work, rel), "wb") as f:
            f.write(data)
    os.mkdir(os.path.join(work, "d"))
    with open(os.path.join(work, "d", "b"), "wb") as f:
        f.write(BASE_FILES["d/b"])
    os.chmod(os.path.join(work, "d", "b"), 0o755)
    os.symlink(BASE_LINK, os.path.join(work, "l"))
    for rel in _state_files(w):
        shutil.copyfile(os.path.join(base, rel), os.path.join(work, rel))
    cdir = os.path.join(work, w["control"], "checkout") if w["fmt"] == "bzr" else os.path.join(work, w["control"])
    for n in ("limbo", "pending-deletion"):
        p = os.path.join(cdir, n)
        if os.path.lexists(p):
            shutil.rmtree(p, ignore_errors=True)


def leftovers(w):
    """Names left in limbo / pending-deletion (must be empty after finalize)."""
    out = []
    cdir = os.path.join(w["work"], w["control"], "checkout") if w["fmt"] == "bzr" else os.path.join(w["work"], w["control"])
    for n in ("limbo", "pending-deletion"):
        p = os.path.join(cdir, n)
        if os.path.lexists(p):
            try:
                sub = sorted(os.listdir(p))
            except OSError:
                sub = ["<not-a-dir>"]
            if sub:
                out.append((n, sub))
    return out


# ---------------------------------------------------------------------------
# dumps
# ---------------------------------------------------------------------------

def _where(tb):
    """innermost frame inside the breezy under test: 'file.py:function'."""
    best = None
    for fs in traceback.extract_tb(tb):
        fn = os.path.realpath(fs.filename)
        if fn.startswith(REPO + os.sep):
            best = "%s:%s" % (os.path.relpath(fn, REPO).replace("breezy/", ""), fs.name)
    return best or "outside-repo"


class Err:
    """An exception raised by an API call while dumping."""

    def __init__(self, api, exc, tb):
        self.api = api
        self.cls = type(exc).__name__
        self.where = _where(tb)
        self.msg = str(exc)[:200]

    def __repr__(self):
        return "<%s raised %s in %s>" % (self.api, self.cls, self.where)

    def key(self):
        return ("err", self.api, self.cls, self.where)


def _call(api, fn, *args):
    try:
        return fn(*args)
    except Exception as e:  # noqa - the exception is the observation
        return Err(api, e, sys.exc_info()[2])


def _nosuch(v):
    return isinstance(v, Err) and v.cls in ("NoSuchFile", "FileNotFoundError", "NotADirectoryError")


def _norm_kind(v):
    if _nosuch(v):
        return None
    return v


def _text(s):
    if isinstance(s, bytes):
        return s.decode("utf-8", "replace")
    return s


def describe_path(tree, path, want_content):
    """What a tree (preview or working) says about one path through the public Tree API (bytes / link target /
    exec bit only for versioned entries: only those are compared)."""
    r = {}
    r["has"] = _call("has_filename", tree.has_filename, path)
    kind = _norm_kind(_call("kind", tree.kind, path))
    r["kind"] = kind
    r["versioned"] = _call("is_versioned", tree.is_versioned, path)
    if not want_content:
        return r
    if kind == "file":
        r["content"] = _call("get_file_text", tree.get_file_text, path)
        x = _call("is_executable", tree.is_executable, path)
        r["exec"] = bool(x) if not isinstance(x, Err) else x
    elif kind == "symlink":
        r["content"] = _text(_call("get_symlink_target", tree.get_symlink_target, path))
    return r


def list_entries(tree, fmt):
    """{path: (inventory kind, file id)} for the versioned entries; Err if the listing fails."""
    def go():
        out = {}
        for path, ie in tree.iter_entries_by_dir():
            if path == "":
                continue
            out[path] = (ie.kind, ie.file_id if fmt == "bzr" else None)
        return out
    return _call("iter_entries_by_dir", go)


def preview_dump(w, pv):
    """Everything the preview says, taken before apply()."""
    fmt = w["fmt"]
    d = {}
    ents = list_entries(pv, fmt)
    d["entries"] = ents

    ex = _call("extras", lambda: sorted(set(pv.extras())))
    d["extras"] = ex
    universe = set(w["snap0"])
    if not isinstance(ents, Err):
        universe.update(ents)
    if not isinstance(ex, Err):
        universe.update(p for p in ex if p)
    paths = {}
    for p in sorted(universe):
        paths[p] = describe_path(pv, p, isinstance(ents, Err) or p in ents)
    d["paths"] = paths
    return d


def tree_dump(w, tree, snap):
    """The same observations on a (re-opened) working tree, for every path in `snap`, the entries and `more`."""
    fmt = w["fmt"]
    d = {}
    with tree.lock_read():
        ents = list_entries(tree, fmt)
        d["entries"] = ents
        # the executable flag recorded in the tree's own inventory / index for versioned files
        d["iexec"] = _call("iter_entries_by_dir", lambda: {p: bool(ie.executable) for p, ie in tree.iter_entries_by_dir()
                                                           if ie.kind == "file"})
        d["extras"] = _call("extras", lambda: sorted(set(tree.extras())))
        universe = set(snap)
        if not isinstance(ents, Err):
            universe.update(ents)
        paths = {}
        for p in sorted(universe):
            paths[p] = describe_path(tree, p, isinstance(ents, Err) or p in ents)
        d["paths"] = paths
    return d


def disk_kind(snap, p):
    v = snap.get(p)
    if v is None:
        return None
    return {"file": "file", "dir": "directory", "link": "symlink"}[v[0]]


def origin_class(w, snap, p, unv=False):
    """Where what is now at p comes from, judged from the disk alone: kept (same path, same bytes), moved (bytes
    of a base file at another path), moved-with-parent (same basename below another directory), created,
    vacated (was there before, gone now), never, dir-kept, dir-new."""
    v = snap.get(p)
    if v is None:
        return "vacated" if p in w["snap0"] else "never"
    if v[0] == "dir":
        return "dir-kept" if w["snap0"].get(p, (None,))[0] == "dir" else "dir-new"
    sfx = "-unv" if (unv and v[0] == "file" and v[1] == BASE_FILES["u"]) else ""   # bytes of the unversioned base file
    if w["snap0"].get(p) is not None and w["snap0"][p][:2] == v[:2]:
        return "kept" + sfx
    if v[0] == "file":
        for bp, bb in BASE_FILES.items():
            if bb == v[1]:
                if sfx:
                    return "moved" + sfx
                if "/" in bp and os.path.basename(bp) == os.path.basename(p) and os.path.dirname(bp) != os.path.dirname(p):
                    return "moved-with-parent"
                return "moved"
        return "created"
    return "moved" if v[1] == BASE_LINK else "created"


def comparable(d):
    """Hashable rendering of a dump (for determinism audit / outcomes)."""
    def r(x):
        if isinstance(x, Err):
            return x.key()
        if isinstance(x, dict):
            return tuple(sorted((k, r(v)) for k, v in x.items()))
        if isinstance(x, (list, tuple)):
            return tuple(r(i) for i in x)
        return x
    return r(d)


# ---------------------------------------------------------------------------
# running one program
# ---------------------------------------------------------------------------

class Misuse(Exception):
    pass


class Hang(BaseException):
    pass


def _alarm(signum, frame):
    raise Hang()


def apply_op(tt, fmt, op, i, hs):
    from breezy import errors
    from breezy import transform as T

    def tid(x):
        if x == "@":
            return tt.root
        if x[0] == "@":
            return tt.trans_id_tree_path(x[1:])
        return hs[int(x[1:])]
    name = op[0]
    try:
        if name == "new_file":
            fid = (b"f%d-id" % i) if op[3] else None
            hs[i] = tt.new_file(op[1], tid(op[2]), [b"new%d\n" % i], fid)
        elif name == "new_dir":
            hs[i] = tt.new_directory(op[1], tid(op[2]), b"g%d-id" % i)
        elif name == "new_link":
            hs[i] = tt.new_symlink(op[1], tid(op[2]), "tgt%d" % i, b"s%d-id" % i)
        elif name == "delete":
            tt.delete_contents(tid(op[1]))
        elif name == "unversion":
            tt.unversion_file(tid(op[1]))
        elif name == "version":
            tt.version_file(tid(op[1]), file_id=b"v%d-id" % i)
        elif name == "move":
            parent = tid(op[2])
            tt.adjust_path(op[1], parent, tid(op[3]))
        elif name == "exec":
            tt.set_executability(op[1], tid(op[2]))
        elif name in ("create_file", "create_dir", "create_link"):
            t = tid(op[1])
            if t in tt._new_contents:
                # contents already scheduled for this trans id in this transform: create_* is not applicable
                # (the implementation notices at different points: DuplicateKey, FileExistsError, IsADirectoryError)
                raise Misuse("%s: contents already scheduled" % name)
            if name == "create_file":
                tt.create_file([b"over%d\n" % i], t)
            elif name == "create_dir":
                tt.create_directory(t)
            else:
                tt.create_symlink("over%d" % i, t)
        else:
            raise HarnessError("unknown op %r" % (op,))
    except errors.DuplicateKey as e:
        # contents / versioning / executability already scheduled for this trans id in this transform:
        # the call is not applicable in this state, the program is outside the space
        raise Misuse("%s: DuplicateKey" % name) from e
    except T.CantMoveRoot as e:
        raise Misuse("%s: CantMoveRoot" % name) from e


def ctypes_of(raw):
    return tuple(sorted({c[0] for c in raw}))


def run_program(fmt, prog, fresh=False):
    """Run one program on a pristine tree.  Returns a result dict; violations go to result['vio'].

    The tree object handed to the transform is re-used between programs on bzr (WorkingTree4 drops its
    dirstate and inventory on unlock, so nothing is carried over; the determinism audit runs every audited
    program once with a fresh object and once with the re-used one).  The after-apply comparison always
    re-opens the tree from disk."""
    from breezy import transform as T
    w = world(fmt)
    restore(w)
    res = {"status": None, "vio": [], "raw0": (), "malformed": None}

    def vio(sig, **detail):
        detail["program"] = [list(o) for o in prog]
        detail["format"] = fmt
        res["vio"].append((sig + ":" + fmt, detail))

    if fmt == "bzr" and not fresh and w.get("tree") is not None and w.get("tree_gen") == w["restores"] // 256:
        tree = w["tree"]
    else:
        tree = open_tree(w["work"])
        if fmt == "bzr":
            w["tree"], w["tree_gen"] = tree, w["restores"] // 256
    hs = {}
    pdump = None
    failed_phase = None
    # non-termination guard: 30 s of CPU time of this process (load independent) for one program (~10 ms)
    old = signal.signal(signal.SIGPROF, _alarm)
    signal.setitimer(signal.ITIMER_PROF, 30)
    tt = None
    try:
        tt = tree.transform()
        try:
            try:
                for i, op in enumerate(prog):
                    try:
                        apply_op(tt, fmt, op, i, hs)
                    except Misuse as m:
                        res["status"] = "misuse"
                        res["misuse_at"] = i
                        res["misuse"] = str(m)
                        return res
                    except Exception as e:  # noqa
                        failed_phase = "op"
                        vio("op:%s:%s:%s" % (op[0], type(e).__name__, _where(sys.exc_info()[2])),
                            error=str(e)[:300], at=i)
                        res["status"] = "op-error"
                        break
                if failed_phase is None:
                    first = []

                    def pass_func(t, conflicts):
                        # the list handed to the first pass = the raw conflicts before any resolution
                        if not first:
                            first.append(list(conflicts))
                            res["raw0"] = ctypes_of(conflicts)
                        return T.conflict_pass(t, conflicts)
                    try:
                        T.resolve_conflicts(tt, pass_func=pass_func)
                        # resolve_conflicts only returns after find_raw_conflicts() == []; apply() checks it
                        # again (a MalformedTransform from apply is reported as a violation below)
                    except T.MalformedTransform as e:
                        failed_phase = "malformed"
                        res["status"] = "malformed"
                        res["malformed"] = ctypes_of(e.conflicts)
                    except Exception as e:  # noqa
                        failed_phase = "resolve"
                        vio("resolve:%s:%s" % (type(e).__name__, _where(sys.exc_info()[2])), error=str(e)[:300],
                            raw_conflicts_before=list(res["raw0"]))
                        res["status"] = "resolve-error"
                if failed_phase is None:
                    try:
                        pv = tt.get_preview_tree()
                    except Exception as e:  # noqa
                        pv = None
                        vio("get_preview_tree:%s:%s" % (type(e).__name__, _where(sys.exc_info()[2])), error=str(e)[:300],
                            raw_conflicts_before=list(res["raw0"]))
                    if pv is not None:
                        pdump = preview_dump(w, pv)
                    try:
                        w["dirty"] = True
                        tt.apply()
                        res["status"] = "applied"
                    except Exception as e:  # noqa
                        failed_phase = "apply"
                        res["status"] = "apply-error"
                        res["apply_sig"] = "apply:%s%s:%s" % (type(e).__name__, _reason_slug(e), _where(sys.exc_info()[2]))
                        vio(res["apply_sig"], error=str(e)[:300], raw_conflicts_before=list(res["raw0"]))
            except Hang:
                failed_phase = "hang"
                res["status"] = "hang"
                vio("hang:no-termination-within-30s-cpu")
        finally:
            signal.setitimer(signal.ITIMER_PROF, 0)
            try:
                tt.finalize()
            except Exception as e:  # noqa
                if res["status"] != "misuse":
                    vio("finalize:%s:%s" % (type(e).__name__, _where(sys.exc_info()[2])), error=str(e)[:300],
                        after=res["status"])
                w["dirty"] = True
    finally:
        signal.setitimer(signal.ITIMER_PROF, 0)
        signal.signal(signal.SIGPROF, old)
    del tt
    snap = mwt.dir_snapshot(w["work"])
    if res["status"] == "misuse":
        if snap != w["snap0"]:
            w["dirty"] = True
        return res
    left = leftovers(w)
    if left:
        w["dirty"] = True
        vio("leftover:%s:after-%s" % ("+".join(n for n, _ in left), res["status"]), left=left)
    after = tree_dump(w, open_tree(w["work"]), snap)
    res["after"] = after
    res["snap"] = snap
    res["pdump"] = pdump
    if res["status"] != "applied":
        # nothing may have been applied
        if snap != w["snap0"]:
            w["dirty"] = True
            diff = sorted(p for p in set(snap) | set(w["snap0"]) if snap.get(p) != w["snap0"].get(p))
            vio("partial:directory-changed:after-%s" % res.get("apply_sig", res["status"]), paths=diff)
        if comparable(after) != comparable(w["dump0"]):
            w["dirty"] = True
            vio("partial:versioned-state-changed:after-%s" % res.get("apply_sig", res["status"]),
                entries=repr(after["entries"])[:400])
    else:
        compare(w, prog, res, vio)
    if fmt == "bzr" and reversions(prog):
        res["vio"] = _collapse_reversioned(res["vio"])
    return res


def _reason_slug(e):
    """'(reason-in-words)' for exceptions that carry a reason (InconsistentDelta), else ''."""
    import re
    reason = getattr(e, "reason", None)
    if not isinstance(reason, str):
        return ""
    reason = reason.split(" by id")[0].split("[")[0]
    return "(" + re.sub(r"[^a-z]+", "-", reason.lower()).strip("-")[:60] + ")"


def reversions(prog):
    """True if the program calls version_file on a tree entry that is versioned at that moment (no
    unversion_file before): find_raw_conflicts does not object, the old file id stays behind."""
    unv = set()
    for op in prog:
        if op[0] == "unversion":
            unv.add(op[1])
        elif op[0] == "version" and op[1] in ("@a", "@d", "@d/b", "@l") and op[1] not in unv:
            return True
    return False


def _collapse_reversioned(vios):
    """Programs that give an already versioned entry a second file id form their own sub-space: only the
    primary failures are reported, under their own signatures (one root cause)."""
    out, seen = [], set()
    for sig, d in vios:
        if sig.startswith(("apply:", "partial:")):
            sig = "reversioned-entry:" + sig
        elif sig.startswith("mismatch:versioned:"):
            sig = "reversioned-entry:mismatch:versioned-set:bzr"
        elif sig.startswith(("resolve:", "op:", "hang", "finalize:", "leftover:", "get_preview_tree:")):
            pass
        else:
            continue
        if sig not in seen:
            seen.add(sig)
            out.append((sig, d))
    return out


def compare(w, prog, res, vio):
    """Preview dump (before apply) against the re-opened tree and the directory snapshot (after apply)."""
    fmt = w["fmt"]
    pd, ad, snap = res["pdump"], res["after"], res["snap"]
    if pd is None:
        return
    seen = set()

    def once(sig, **kw):
        if sig not in seen:
            seen.add(sig)
            vio(sig, **kw)
    # --- listing APIs that failed outright
    for k in ("entries", "extras"):
        if isinstance(pd[k], Err):
            e = pd[k]
            once("preview:%s:%s:%s" % (e.api, e.cls, e.where), error=e.msg)
    if isinstance(ad["entries"], Err):
        e = ad["entries"]
        once("applied-tree:%s:%s:%s" % (e.api, e.cls, e.where), error=e.msg)
        return
    aents = ad["entries"]
    pents = pd["entries"] if not isinstance(pd["entries"], Err) else None
    # --- (V) versioned set, inventory kinds, file ids
    v_ok = pents is not None
    if pents is not None:
        if fmt == "git":
            # git has no versioned directories: a directory is listed by the working tree when it holds
            # versioned files, by the preview whenever it exists.  Accept both readings: compare
            # non-directories strictly; every directory the tree lists must be listed by the preview and
            # every directory the preview lists must be a directory on disk.
            pcmp = {p: v for p, v in pents.items() if v[0] != "directory"}
            acmp = {p: v for p, v in aents.items() if v[0] != "directory"}
        else:
            pcmp, acmp = pents, aents
        for p in sorted(set(pcmp) | set(acmp)):
            if pcmp.get(p) != acmp.get(p):
                v_ok = False
                once("mismatch:versioned:%s:%s" % (_vclass(pcmp.get(p), acmp.get(p)), origin_class(w, snap, p, unv=True)),
                     path=p, preview=pcmp.get(p), applied=acmp.get(p))
        if fmt == "git" and v_ok:
            for p in sorted(aents):
                if aents[p][0] == "directory" and pents.get(p, (None,))[0] != "directory":
                    v_ok = False
                    once("mismatch:versioned:directory-not-in-preview:%s" % origin_class(w, snap, p), path=p, preview=pents.get(p))
            for p in sorted(pents):
                if pents[p][0] == "directory" and disk_kind(snap, p) != "directory":
                    v_ok = False
                    once("mismatch:versioned:preview-directory-not-on-disk:%s" % origin_class(w, snap, p),
                         path=p, disk=disk_kind(snap, p))
    # --- per path: existence, kind, versioned flag; content and exec bit for versioned entries
    pp, ap = pd["paths"], ad["paths"]
    i_ok = True
    for p in sorted(set(pp) | set(ap) | set(snap)):
        dk = disk_kind(snap, p)
        a = ap.get(p)
        # the re-opened tree must agree with the disk (else the harness/tree is confused, not the preview)
        if a is not None and a["kind"] != dk and not isinstance(a["kind"], Err):
            once("applied-tree:kind-differs-from-disk", path=p, tree=a["kind"], disk=dk)
        v = "v" if (p in aents) else "u"
        if fmt == "git" and dk == "directory":
            v = "d"
        cls = GROUP.get(origin_class(w, snap, p), origin_class(w, snap, p))
        q = pp.get(p)
        if q is None:
            # on disk after apply, but neither a preview entry nor a preview extra (nor below an extra directory)
            if dk is not None and not _below_listed(p, pp, pd):
                once("mismatch:path-on-disk-not-listed-by-preview:%s:%s" % (cls, v), path=p)
            continue
        pk = q["kind"]
        if isinstance(pk, Err):
            once("preview:%s:%s:%s:%s:%s" % (pk.api, pk.cls, pk.where, cls, v), path=p, error=pk.msg)
            continue
        if pk != dk:
            # the preview and the disk disagree about what (if anything) is at this path; the other
            # questions about the path are then moot
            if pk is None:
                once("mismatch:kind:preview-has-nothing-at-path-present-on-disk", path=p, disk=dk, disk_origin=cls,
                     preview=q)
            elif dk is None:
                once("mismatch:kind:preview-has-%s-at-path-absent-from-disk:%s" % (pk, cls), path=p, preview=q)
            else:
                once("mismatch:kind:preview-%s-disk-%s:%s" % (pk, dk, cls), path=p)
            continue
        for key in ("has", "versioned") + (("content", "exec") if v == "v" else ()):
            val = q.get(key)
            if isinstance(val, Err):
                once("preview:%s:%s:%s:%s:%s" % (val.api, val.cls, val.where, cls, v), path=p, error=val.msg)
        if not isinstance(q["has"], Err) and bool(q["has"]) != (dk is not None):
            once("mismatch:has_filename:%s" % cls, path=p, preview=q["has"], disk=dk)
        if v_ok and a is not None and not isinstance(q["versioned"], Err) and not isinstance(a["versioned"], Err):
            if bool(q["versioned"]) != bool(a["versioned"]) and not (fmt == "git" and dk == "directory"):
                i_ok = False
                once("mismatch:is_versioned:%s:%s" % (cls, v), path=p, preview=q["versioned"], applied=a["versioned"])
        if v != "v" or (pents is not None and p not in pents):
            # unversioned paths: existence/kind/versioned flag only (whether a preview has to serve the bytes
            # of unversioned files is left open by the statement)
            continue
        if dk == "file":
            if not isinstance(q.get("content"), Err) and q.get("content") != snap[p][1]:
                once("mismatch:content:%s" % cls, path=p, preview=q.get("content"), disk=snap[p][1])
            if not isinstance(q.get("exec"), Err) and bool(q.get("exec")) != bool(snap[p][2]):
                once("mismatch:executable:%s" % cls, path=p, preview=q.get("exec"), disk=snap[p][2])
            if a is not None and a.get("content") != snap[p][1]:
                once("applied-tree:content-differs-from-disk", path=p, tree=repr(a.get("content")), disk=snap[p][1])
            if a is not None and not isinstance(a.get("exec"), Err) and bool(a.get("exec")) != bool(snap[p][2]):
                once("applied-tree:exec-differs-from-disk", path=p, tree=a.get("exec"), disk=snap[p][2])
            ix = ad["iexec"].get(p) if not isinstance(ad["iexec"], Err) else None
            if ix is not None and ix != bool(snap[p][2]):
                # the flag stored in the dirstate / index by apply() disagrees with the file it describes
                once("applied-tree:recorded-exec-flag-differs-from-disk:%s" % cls, path=p, recorded=ix, disk=snap[p][2],
                     preview=q.get("exec") if not isinstance(q.get("exec"), Err) else repr(q.get("exec")))
        if dk == "symlink":
            if not isinstance(q.get("content"), Err) and q.get("content") != snap[p][1]:
                once("mismatch:symlink-target:%s" % cls, path=p, preview=q.get("content"), disk=snap[p][1])
    # --- extras: accept (A) what the applied tree's extras() says, (B) every unversioned path on disk;
    #     only judged when the versioned sets agree (otherwise it is a consequence)
    if v_ok and i_ok and not isinstance(pd["extras"], Err) and not isinstance(ad["extras"], Err):
        pe = set(pd["extras"])
        ae = set(ad["extras"])
        vers = set(aents)
        allunv = {p for p in snap if p not in vers}
        if fmt == "git":
            # directories are never versioned in git: they are ignored on both sides
            def nd(s):
                return {p for p in s if disk_kind(snap, p) != "directory"}
            ok = nd(pe) == nd(ae) or nd(pe) == nd(allunv)
        else:
            ok = pe == ae or pe == allunv
        if not ok:
            if fmt == "git":
                pe, ae = nd(pe), nd(ae)
            wrong = sorted(p for p in pe if p not in snap or p in vers)
            missing = sorted(p for p in ae if p not in pe)
            if wrong:
                once("mismatch:extras:lists-path-that-is-absent-or-versioned-after-apply",
                     preview=sorted(pe), applied=sorted(ae), paths=wrong)
            if missing:
                once("mismatch:extras:omits-unversioned-path:%s" % "+".join(sorted({origin_class(w, snap, p) for p in missing})),
                     preview=sorted(pe), applied=sorted(ae), paths=missing)
            if not (wrong or missing):
                once("mismatch:extras:other", preview=sorted(pe), applied=sorted(ae))


# per-path API mismatches do not distinguish how an entry got to its new path
GROUP = {"moved": "relocated", "moved-with-parent": "relocated"}


def _below_listed(p, pp, pd):
    """True if an ancestor of p is known to the preview as a directory that is not versioned (extras() and
    iter_entries_by_dir do not descend into those)."""
    while "/" in p:
        p = p.rsplit("/", 1)[0]
        q = pp.get(p)
        if q is not None and q.get("kind") == "directory":
            return True
    return False


def _vclass(pv, av):
    if pv is None:
        return "versioned-after-apply-but-not-in-preview"
    if av is None:
        return "in-preview-but-not-versioned-after-apply"
    if pv[0] != av[0]:
        return "inventory-kind"
    return "file-id"


# ---------------------------------------------------------------------------
# exploration
# ---------------------------------------------------------------------------

def changed_entries(w, res):
    snap = res.get("snap")
    if snap is None:
        return 0
    n = sum(1 for p in set(snap) | set(w["snap0"]) if snap.get(p) != w["snap0"].get(p))
    a, b = res["after"]["entries"], w["dump0"]["entries"]
    if not isinstance(a, Err):
        n += sum(1 for p in set(a) | set(b) if a.get(p) != b.get(p) and snap.get(p) == w["snap0"].get(p))
    return n


def outcome_key(res):
    if res["status"] == "applied":
        ents = res["after"]["entries"]
        return ("applied", comparable(ents), tuple(sorted((p, v[0], v[1] if v[0] != "dir" else None, v[2] if v[0] == "file" else None)
                                                          for p, v in res["snap"].items())))
    return (res["status"], res.get("malformed"))


def record(acc, fmt, prog, res):
    w = world(fmt)
    st = res["status"]
    if st == "misuse":
        acc.count("not_in_space:%s" % fmt)
        return
    acc.n += 1
    acc.count("programs:%s" % fmt)
    acc.count("programs_len%d" % len(prog))
    acc.count("status:%s:%s" % (st, fmt))
    if res["raw0"]:
        acc.count("needed_resolution:%s" % fmt)
        for c in res["raw0"]:
            acc.count("raw_conflict:%s:%s" % (c, fmt))
    if st == "malformed":
        for c in res["malformed"] or ():
            acc.count("malformed_on:%s:%s" % (c, fmt))
    if res["raw0"] or changed_entries(w, res) >= 2:
        acc.nt((fmt, prog))
    acc.outcomes.add(hash((fmt, outcome_key(res))))
    for sig, d in res["vio"]:
        d["_rank"] = (len(prog), len(repr(prog)))
        acc.violation(sig, d)
        acc.count("vio:" + sig)
    if st == "applied" and res["raw0"]:
        acc.sample({"format": fmt, "program": [list(o) for o in prog], "raw_conflicts": list(res["raw0"]),
                    "applied_entries": sorted(res["after"]["entries"]) if not isinstance(res["after"]["entries"], Err) else None})


class AccX(par.Acc):
    """Acc that keeps, per signature, only the smallest failing programs."""

    def violation(self, sig, detail):
        self.count("violations_raw")
        for i, (s, d) in enumerate(self.violations):
            if s == sig:
                if detail["_rank"] < d["_rank"]:
                    self.violations[i] = (sig, detail)
                return
        self.violations.append((sig, detail))


_DEADLINE = [None]


def explore(fmt, level, prog, depth_left, acc):
    import time
    if _DEADLINE[0] is not None and time.time() > _DEADLINE[0]:
        acc.count("capped_subtrees")
        return
    res = run_program(fmt, prog)
    if res["status"] == "misuse":
        if res["misuse_at"] == len(prog) - 1:
            record(acc, fmt, prog, res)
        return
    record(acc, fmt, prog, res)
    if depth_left <= 0:
        return
    for op in alphabet(level).next_ops(prog):
        explore(fmt, level, prog + (op,), depth_left - 1, acc)


def _work(chunk):
    import time
    acc = AccX()
    c0 = time.process_time()
    for fmt, level, prog, depth_left in chunk:
        explore(fmt, level, prog, depth_left, acc)
    acc.count("cpu_ms", int((time.process_time() - c0) * 1000))
    return acc


def _audit(chunk):
    """Determinism audit: run each program twice, compare everything observed."""
    out = []
    for fmt, prog in chunk:
        a = run_program(fmt, prog, fresh=True)
        b = run_program(fmt, prog)

        def obs(r):
            return (r["status"], r["raw0"], r.get("malformed"), comparable(r.get("pdump") or {}),
                    comparable(r.get("after") or {}), tuple(sorted((r.get("snap") or {}).items())),
                    tuple(sorted(s for s, _ in r["vio"])))
        if obs(a) != obs(b):
            out.append((fmt, prog, repr(obs(a))[:600], repr(obs(b))[:600]))
    return out


def items_for(fmt, level, depth, split=2):
    """Work items: every program shorter than `split` as a leaf, every `split`-prefix with its subtree."""
    al = alphabet(level)
    items = []
    frontier = [()]
    for k in range(min(split, depth) + 1):
        nxt = []
        for prog in frontier:
            if k == min(split, depth):
                items.append((fmt, level, prog, depth - k))
            else:
                items.append((fmt, level, prog, 0))
                for op in al.next_ops(prog):
                    nxt.append(prog + (op,))
        frontier = nxt
    return items


def run(ctx):
    import time
    formats = ("bzr", "git")
    if os.environ.get("C14_FORMATS"):
        formats = tuple(os.environ["C14_FORMATS"].split(","))
    # wall-clock safety cap (only ever shrinks what is covered; reported, and then exhaustive is not claimed)
    cap_s = float(os.environ.get("C14_DEADLINE_S") or ctx.q(520, 810))
    _DEADLINE[0] = time.time() + cap_s
    plan = [(1, 3)] if not ctx.thorough else [(2, 3), (0, 4)]
    if os.environ.get("C14_PLAN"):
        plan = [tuple(int(x) for x in p.split(":")) for p in os.environ["C14_PLAN"].split(",")]
    items = []
    static = {}
    for level, depth in plan:
        counts = static_count(level, depth)
        static["%s<=%d" % (alphabet(level).name, depth)] = {"per_length": counts, "total": sum(counts),
                                                             "first_step_alphabet": len(alphabet(level).next_ops(()))}
        for fmt in formats:
            items.extend(items_for(fmt, level, depth))
    # warm-up in the parent: every lazily imported breezy module is loaded before the workers fork
    for fmt in formats:
        for prog in ((), (("new_dir", "a", "@"), ("move", "n", "@", "@d")), (("create_file", "@a"),)):
            run_program(fmt, prog)
    # determinism audit on the first programs of each format
    aud = []
    for fmt in formats:
        first = [it[2] for it in items if it[0] == fmt][:13]
        # plus a few that apply with conflicts
        first += [(("new_file", "a", "@", True),), (("move", "n", "@d", "@d"),), (("delete", "@d"),),
                  (("new_dir", "n", "@d"), ("move", "n", "#0", "@d")), (("move", "n", "@", "@d/b"), ("exec", False, "@d/b")),
                  (("create_file", "@a"),), (("unversion", "@d"),), (("new_file", "n", "@a", True),),
                  (("new_file", "n", "@m", True),), (("delete", "@a"), ("create_dir", "@a")),
                  (("move", "b", "@d", "@a"),), (("version", "@u"),)]
        aud.extend((fmt, p) for p in first)
    bad = [x for r in par.pmap(_audit, aud, seed=0, chunks_per_job=1) for x in r]
    if bad:
        raise HarnessError("determinism audit failed: %r" % (bad[:2],))
    accs = par.pmap(_work, items, seed=ctx.seed, chunks_per_job=8)
    acc = par.merge(accs)
    best = {}
    for a in accs:
        for sig, d in a.violations:
            if sig not in best or d["_rank"] < best[sig]["_rank"]:
                best[sig] = d
    for sig in sorted(best):
        d = dict(best[sig])
        d.pop("_rank", None)
        ctx.violation(sig, d)
    c = acc.counters
    per_fmt = {}
    for fmt in formats:
        per_fmt[fmt] = {
            "programs_in_space": c.get("programs:%s" % fmt, 0),
            "not_in_space_api_misuse": c.get("not_in_space:%s" % fmt, 0),
            "needed_resolution": c.get("needed_resolution:%s" % fmt, 0),
            "status": {k.split(":")[1]: v for k, v in sorted(c.items()) if k.startswith("status:") and k.endswith(":" + fmt)},
            "raw_conflict_types_before_resolution": {k.split(":")[1]: v for k, v in sorted(c.items())
                                                     if k.startswith("raw_conflict:") and k.endswith(":" + fmt)},
            "malformed_on": {k.split(":")[1]: v for k, v in sorted(c.items())
                             if k.startswith("malformed_on:") and k.endswith(":" + fmt)},
        }
    ctx.assumptions.append("orphan policy left at its default ('conflict'); umask 022; POSIX file system with symlinks and exec bits (/dev/shm)")
    ctx.assumptions.append("git: directories are not versioned; the preview may list every directory, the tree only those holding versioned files (both accepted)")
    ctx.assumptions.append("extras(): accepted if equal to the applied tree's extras() or to the set of all unversioned paths on disk")
    ctx.assumptions.append("calls that raise DuplicateKey/CantMoveRoot at once (contents/versioning/executability scheduled twice, moving the root) are API misuse: program and its extensions are outside the space")
    cov = {
        "evaluations": acc.n,
        "distinct_nontrivial": len(acc.nontrivial),
        "rule": "program had >= 1 raw conflict before resolution or changed >= 2 entries (disk paths or versioned entries)",
        "distinct_outcomes": len(acc.outcomes),
        "plan": [{"alphabet": alphabet(l).name, "max_ops": d} for l, d in plan],
        "static_sequences": static,
        "per_format": per_fmt,
        "programs_by_length": {k[len("programs_len"):]: v for k, v in sorted(c.items()) if k.startswith("programs_len")},
        "violation_occurrences": {k[4:]: v for k, v in sorted(c.items()) if k.startswith("vio:")},
        "determinism_audit_programs": len(aud),
        "worker_cpu_seconds": round(c.get("cpu_ms", 0) / 1000.0, 1),
        "samples": acc.samples[:4],
        "exhaustive": True,
    }
    if c.get("capped_subtrees"):
        cov["exhaustive"] = False
        cov["capped"] = "wall-clock cap of %ds reached: %d work items (prefix subtrees) not or not completely explored" % (
            cap_s, c["capped_subtrees"])
    return cov


def replay(ctx, data):
    d = data["first"]
    prog = tuple(tuple(o) for o in d["program"])
    res = run_program(d["format"], prog)
    sigs = {s for s, _ in res["vio"]}
    for s, dd in res["vio"]:
        print("  reproduced: %s %s" % (s, {k: v for k, v in dd.items() if k not in ("program",)}))
    return data["signature"] not in sigs
