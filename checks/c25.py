"""C25 - Log lists the requested history completely and consistently.

Bounded exhaustive enumeration.  Part A (graph): every single-tip DAG history
with <= N revisions (ordered parents, <= 2 parents, merges of merges, several
roots) in a real 2a repository; for each, EVERY log request over (start, end)
in (none + every revision)^2, direction in {reverse, forward}, levels in {0, 1,
2}, limit in {none, 1, 2} is run through the real _DefaultLogGenerator
(the generator behind 'brz log') and the LogRevision sequence is judged against
reference graph computations on the declarative DAG: the full log is the tip's
ancestry exactly once with the dotted revno and merge depth of the numbering
rules; forward == reverse-by-depth(reverse); levels=1 == left-hand history;
limit == prefix; a range start..end with start on end's left-hand history lists
exactly ancestry(end) - ancestry(left parent of start) (levels=1: the left-hand
segment).  Part B (files): every assignment of {absent, a, b} to one file over
every revision of every DAG with <= M revisions; single-file log through
per-file-graph matching and through delta matching must list the same mainline
revisions, and delta matching must list exactly the revisions whose file state
differs from their left-hand parent's.
"""
import itertools

from mc import gen, par
from mc.evidence import HarnessError

from . import _dagworld as dw

ID = "C25"
LEVEL = "exploration"
TECHNIQUE = "exhaustive small-scope enumeration of DAG histories x file assignments x all log requests, against reference graph computations; cross-check of the two per-file algorithms"

rid = dw.rid


def dot(revno):
    return ".".join(str(x) for x in revno)


def run_log(b, start=None, end=None, direction="reverse", levels=0, limit=None, files=None, deltas=True):
    """One log request -> ("ok", [(node, revno_str, depth)]) | ("err", class name) | ("exc", sig)."""
    from breezy import errors, log
    from breezy.revisionspec import RevisionInfo, RevisionSpec

    def info(node):
        return RevisionSpec.from_string("revid:" + rid(node).decode()).in_history(b)
    try:
        if start is None and end is None:
            r1 = r2 = None
        else:
            r1 = RevisionInfo(b, None, None) if start is None else info(start)
            if end is None:
                r2 = RevisionInfo(b, *b.last_revision_info())
            else:
                r2 = r1 if (end == start) else info(end)
        rqst = log.make_log_request_dict(direction=direction, specific_files=files, start_revision=r1,
                                         end_revision=r2, limit=limit, levels=levels, generate_tags=False,
                                         _match_using_deltas=deltas)
        g = log._DefaultLogGenerator(b, **rqst)
        out = [(dw.num(lr.rev.revision_id), lr.revno, lr.merge_depth) for lr in g.iter_log_revisions()]
        return ("ok", out)
    except errors.CommandError as e:
        return ("err", "CommandError:" + str(e)[:40])
    except Exception as e:  # noqa
        return ("exc", dw.exc_sig(e))


class G:
    """Reference for one single-tip history."""

    def __init__(self, dag):
        self.dag = dag
        self.n = len(dag)
        self.tip = self.n - 1
        self.ref = dw.Ref(dag)
        self.order, self.depth, self.revno = self.ref.merge_sort(self.tip)
        self.full = [(i, dot(self.revno[i]), self.depth[i]) for i in self.order]
        self.lh = self.ref.lefthand(self.tip)

    def lp(self, v):
        return self.ref.left_parent(v)


def check_graph(acc, b, g):
    dag = g.dag
    ref = g.ref
    detail0 = {"dag": dag}

    def v(sig, **kw):
        acc.violation(sig, dict(detail0, **kw))

    nodes = list(range(g.n))
    results = {}
    for start in [None] + nodes:
        for end in [None] + nodes:
            for direction in ("reverse", "forward"):
                for levels in (0, 1, 2):
                    for limit in (None, 1, 2):
                        acc.n += 1
                        results[(start, end, direction, levels, limit)] = run_log(
                            b, start, end, direction, levels, limit)
    for key, res in results.items():
        start, end, direction, levels, limit = key
        req = {"start": start, "end": end, "direction": direction, "levels": levels, "limit": limit}
        e = g.tip if end is None else end
        linear = start is None or start in ref.lefthand(e)
        cls = "full" if (start is None and end is None) else ("linear-range" if linear else "other-range")
        acc.outcomes.add((cls, res[0], res[1] if res[0] != "ok" else None))
        if res[0] == "exc":
            v("log:%s:%s" % (cls, res[1]), request=req)
            continue
        if res[0] == "err":
            if linear:
                v("log:%s:refused:%s" % (cls, res[1].split(":")[1][:30]), request=req, error=res[1])
            continue
        rows = res[1]
        ids = [r[0] for r in rows]
        # every listed revision exactly once, with its dotted revno
        if len(set(ids)) != len(ids):
            v("log:%s:revision-listed-twice" % cls, request=req, got=rows)
            continue
        bad = [r for r in rows if r[0] not in g.revno or r[1] != dot(g.revno[r[0]])]
        if bad:
            v("log:%s:wrong-dotted-revno" % cls, request=req, got=rows, bad=bad)
            continue
        # limit: the prefix of the unlimited listing
        if limit is not None:
            un = results[(start, end, direction, levels, None)]
            if un[0] != "ok":
                v("log:%s:limited-succeeds-unlimited-fails" % cls, request=req, unlimited=un)
            elif rows != un[1][:limit]:
                v("log:%s:limit-is-not-a-prefix-of-the-unlimited-log" % cls, request=req, got=rows, unlimited=un[1])
            continue
        # levels 2: the depth < 2 sub-sequence of levels 0
        if levels == 2:
            un = results[(start, end, direction, 0, None)]
            if un[0] != "ok" or rows != [r for r in un[1] if r[2] < 2]:
                v("log:%s:levels-2-is-not-the-depth<2-part-of-the-full-log" % cls, request=req, got=rows, all_levels=un)
            continue
        if any(r[2] < 0 for r in rows):
            v("log:%s:negative-depth" % cls, request=req, got=rows)
            continue
        # forward == reverse-by-depth(reverse)
        if direction == "forward":
            rv = results[(start, end, "reverse", levels, None)]
            if rv[0] != "ok":
                if rv[0] != "exc":      # an escaping exception is reported on the reverse request itself
                    v("log:%s:forward-succeeds-reverse-fails" % cls, request=req, reverse=rv)
            else:
                exp = [it[0][0] for it in dw.reverse_by_depth([(r, r[2]) for r in rv[1]])]
                if cls == "other-range" and (sorted(ids) != sorted(r[0] for r in rv[1]) or ids != exp):
                    acc.count("other_range_forward_differs_from_rbd_of_reverse")
                elif sorted(ids) != sorted(r[0] for r in rv[1]):
                    v("log:%s:forward-and-reverse-list-different-revisions" % cls, request=req, got=rows, reverse=rv[1])
                elif ids != exp:
                    v("log:%s:forward-is-not-reverse-by-depth-of-reverse" % cls, request=req, got=rows,
                      reverse=rv[1], expected=exp)
        # what is listed
        if cls == "full":
            if levels == 0:
                if sorted(rows) != sorted(g.full):
                    v("log:full:not-the-ancestry-once-with-revno-and-depth", request=req, got=rows, expected=g.full)
                elif direction == "reverse" and rows != g.full:
                    v("log:full:reverse-order-is-not-merge-sorted", request=req, got=rows, expected=g.full)
            else:
                exp = [(i, str(k + 1), 0) for k, i in enumerate(g.lh)]
                if direction == "reverse":
                    exp = exp[::-1]
                if rows != exp:
                    v("log:full:one-level-is-not-the-left-hand-history", request=req, got=rows, expected=exp)
        elif cls == "linear-range":
            lhe = ref.lefthand(e)
            if levels == 1:
                seg = lhe if start is None else lhe[lhe.index(start):]
                exp = seg[::-1] if direction == "reverse" else seg
                if ids != exp:
                    v("log:linear-range:one-level-is-not-the-left-hand-segment", request=req, got=rows, expected=exp)
            else:
                den = set(ref.anc(e)) - (set(ref.anc(g.lp(start))) if start is not None and g.lp(start) is not None else set())
                seg = set(lhe if start is None else lhe[lhe.index(start):])
                if e in g.lh and set(ids) != den:
                    v("log:linear-range:not-the-revisions-the-range-denotes", request=req, got=rows,
                      expected=sorted(den))
                elif not (seg <= set(ids) <= den):
                    # end is a merged revision: what it "merged" from the mainline is a matter of
                    # reading; the left-hand segment must be there and nothing outside the difference
                    v("log:linear-range:merged-end:not-between-segment-and-ancestry-difference", request=req,
                      got=rows, expected_at_least=sorted(seg), expected_at_most=sorted(den))
                elif e in g.lh and any(r[2] != g.depth[r[0]] for r in rows):
                    v("log:linear-range:wrong-merge-depth", request=req, got=rows)
        else:
            # start is not on end's left-hand history: only containment is judged
            den = set(ref.anc(e))
            if not set(ids) <= den:
                v("log:other-range:lists-revision-outside-ancestry-of-end", request=req, got=rows)
            elif start in ref.anc(e) and ids and not {start, e} <= set(ids) and levels == 0:
                v("log:other-range:start-or-end-missing", request=req, got=rows)
            elif start not in ref.anc(e):
                acc.count("start_not_ancestor_listed")
    if g.n > 2:
        acc.nt(dag)
    acc.sample({"dag": dag, "requests": len(results), "full_log": g.full})


# ---- part B: files -------------------------------------------------------------

STATES = (None, b"a\n", b"b\n")


def check_files(acc, b, g, assign):
    """assign[i] in STATES: content of file 'f' in revision i."""
    dag = g.dag
    ref = g.ref
    detail0 = {"dag": dag, "file_states": [None if s is None else s.decode().strip() for s in assign]}

    def v(sig, **kw):
        d = kw.get("request", {}).get("direction")
        if d:
            sig = sig.replace("filelog:", "filelog:%s:" % d, 1)
        acc.violation(sig, dict(detail0, **kw))

    def touched(i):
        lp = g.lp(i)
        return assign[i] != (assign[lp] if lp is not None else None)

    ends = [None] + [e for e in range(g.n - 1) if assign[e] is not None]
    for end in ends:
        e = g.tip if end is None else end
        lhe = ref.lefthand(e)
        for start in [None] + lhe[1:]:
            for direction in ("reverse", "forward"):
                for levels in (0, 1):
                    req = {"start": start, "end": end, "direction": direction, "levels": levels}
                    r_delta = run_log(b, start, end, direction, levels, None, files=["f"], deltas=True)
                    r_graph = run_log(b, start, end, direction, levels, None, files=["f"], deltas=False)
                    acc.n += 2
                    for name, r in (("delta", r_delta), ("per-file-graph", r_graph)):
                        if r[0] == "exc":
                            v("filelog:%s:%s" % (name, r[1]), request=req)
                        elif r[0] == "err":
                            v("filelog:%s:refused" % name, request=req, error=r[1])
                    if r_delta[0] != "ok" or r_graph[0] != "ok":
                        continue
                    acc.outcomes.add(("file", len(r_delta[1]), len(r_graph[1])))
                    # reference for "comparing trees": revisions of the denoted range whose file state
                    # differs from their left-hand parent's (observation only: the statement does not
                    # define the listing of merged revisions)
                    if levels == 1:
                        view = lhe if start is None else lhe[lhe.index(start):]
                    else:
                        view = sorted(set(ref.anc(e)) - (set(ref.anc(g.lp(start))) if start is not None and g.lp(start) is not None else set()))
                    exp = {i for i in view if touched(i)}
                    got = [r[0] for r in r_delta[1]]
                    if set(got) != exp or len(got) != len(set(got)):
                        acc.count("delta_listing_differs_from_tree_comparison_reference:" + direction)
                    # the two algorithms: same mainline revisions.  For an end revision that was itself
                    # merged, "mainline" has two readings (delta matching with levels=1 walks the end's
                    # left-hand line, the per-file-graph path keeps the depths of the branch's own
                    # mainline): counted, not judged - like the ranges with a merged end in the graph part
                    if e not in g.lh:
                        if [r[0] for r in r_delta[1] if r[0] in set(lhe)] != [r[0] for r in r_graph[1] if r[0] in set(lhe)]:
                            acc.count("merged_end_left_hand_listing_differs_between_algorithms")
                        continue
                    main = set(lhe)
                    m_delta = [r[0] for r in r_delta[1] if r[0] in main]
                    m_graph = [r[0] for r in r_graph[1] if r[0] in main]
                    if m_delta == m_graph:
                        continue
                    if direction == "forward":
                        v("filelog:mainline-revisions-differ-between-per-file-graph-and-delta-matching",
                          request=req, delta=r_delta[1], per_file_graph=r_graph[1])
                        continue
                    only_g = sorted(set(m_graph) - set(m_delta))
                    only_d = sorted(set(m_delta) - set(m_graph))
                    # newest-first order of the denoted range, to locate "add" events
                    pos = {i: k for k, i in enumerate(g.order)}
                    kinds = set()
                    for x in only_g:
                        if len(dag[x]) > 1 and not touched(x):
                            kinds.add("per-file-graph-lists-merge-that-leaves-file-as-in-left-parent")
                        elif any(assign[y] is not None and (g.lp(y) is None or assign[g.lp(y)] is None)
                                 and pos[y] < pos[x] for y in view):
                            kinds.add("delta-matching-stops-at-a-newer-add-of-the-file")
                        else:
                            kinds.add("per-file-graph-lists-extra-mainline-revision")
                    for x in only_d:
                        # revisions x merged (nested under x in the listing) that certainly own a
                        # per-file text: one parent at most and a file state unlike that parent's
                        lpx = g.lp(x)
                        merged = [y for y in view if y != x and y in ref.anc(x)
                                  and (lpx is None or y not in ref.anc(lpx))]
                        definite = [y for y in merged if len(dag[y]) <= 1 and touched(y) and assign[y] is not None]
                        if definite and e in g.lh:
                            # (for an end revision that was itself merged, what is nested under x in the
                            # listing is not ancestry(x) - ancestry(left parent), see the graph part)
                            kinds.add("per-file-graph-omits-mainline-merge-of-a-revision-that-changed-the-file")
                        elif len(dag[x]) <= 1 and touched(x) and assign[x] is not None:
                            kinds.add("per-file-graph-omits-mainline-revision-that-changed-the-file")
                        elif assign[x] is None:
                            kinds.add("per-file-graph-omits-revision-that-removes-the-file")
                        elif len(dag[x]) > 1:
                            kinds.add("per-file-graph-omits-merge-that-changes-file-wrt-left-parent")
                        else:
                            kinds.add("per-file-graph-omits-mainline-revision")
                    if not only_g and not only_d:
                        kinds.add("same-mainline-set-different-order")
                    for kind in sorted(kinds):
                        v("filelog:mainline-differs:%s" % kind, request=req, delta=r_delta[1], per_file_graph=r_graph[1])
    if any(touched(i) for i in range(g.n)) and g.n > 1:
        acc.nt((dag, tuple(assign)))


def _work_graph(chunk):
    from breezy.branch import Branch
    dw.quiet_trace()
    acc = dw.Acc()
    for dag in chunk:
        store, url = dw.build(dag)
        try:
            b = Branch.open(url)
            with b.lock_read():
                check_graph(acc, b, G(dag))
        finally:
            store.close()
    return acc


def _work_files(chunk):
    from breezy.branch import Branch
    from mc import world as mw
    dw.quiet_trace()
    acc = dw.Acc()
    for dag, assign in chunk:
        trees = {}
        for i, s in enumerate(assign):
            t = {"keep": mw.F(b"keep-id", b"k\n")}
            if s is not None:
                t["f"] = mw.F(b"f-id", s)
            trees[i] = t
        store, url = dw.build(dag, trees=trees)
        try:
            b = Branch.open(url)
            with b.lock_read():
                check_files(acc, b, G(dag), assign)
        finally:
            store.close()
        acc.sample({"dag": dag, "file_states": [None if s is None else s.decode().strip() for s in assign]}, limit=1)
    return acc


def single_tip_dags(nmax):
    return [d for d in dw.connected_dags(nmax)]


def file_items(nmax, full_max=None):
    """(dag, assignment): every assignment of STATES for dags <= full_max nodes; for larger dags the
    assignments with at most one revision lacking the file."""
    out = []
    full_max = nmax if full_max is None else full_max
    for dag in single_tip_dags(nmax):
        n = len(dag)
        for assign in itertools.product(STATES, repeat=n):
            if assign[-1] is None:
                continue        # 'brz log FILE' needs the file at the end of the range
            if n > full_max and sum(1 for a in assign if a is None) > 1:
                continue
            out.append((dag, assign))
    return out


def replay(ctx, data):
    """Re-run the one history of a recorded violation; True if its signature is not reproduced."""
    d = data["first"]
    dag = tuple(tuple(p) for p in d["dag"])
    if "file_states" in d:
        assign = tuple(None if x is None else (x + "\n").encode() for x in d["file_states"])
        acc = _work_files([(dag, assign)])
    else:
        acc = _work_graph([dag])
    hit = [v for v in acc.violations if v[0] == data["signature"]]
    for sig, det in hit:
        print("  ", sig, {k: det[k] for k in det if k not in ("dag",)})
    return not hit


def run(ctx):
    N = ctx.q(5, 6)
    M = ctx.q(4, 5)
    dags = single_tip_dags(N)
    acc = par.merge(par.pmap(_work_graph, dags, seed=ctx.seed, chunks_per_job=8))
    fitems = file_items(M, 4)
    acc2 = par.merge(par.pmap(_work_files, fitems, seed=ctx.seed, chunks_per_job=8))
    a1 = _work_graph(dags[:8])
    a2 = _work_graph(dags[:8])
    if (a1.n, sorted(map(repr, a1.outcomes)), sorted(x[0] for x in a1.violations)) != \
            (a2.n, sorted(map(repr, a2.outcomes)), sorted(x[0] for x in a2.violations)):
        raise HarnessError("C25: two runs of the same histories differ")
    for a in (acc, acc2):
        best = {}
        for sig, d in a.violations:
            k = (len(d.get("dag", ())), repr(d.get("dag")), len(repr(d)), repr(d))
            if sig not in best or k < best[sig][0]:
                best[sig] = (k, d)
        for sig in sorted(best):
            ctx.violation(sig, best[sig][1])
    ctx.assumptions.append("ranges whose start is not on the end's left-hand history have no agreed denotation: only containment in the end's ancestry is judged")
    ctx.assumptions.append("single-file requests name a path present at the end of the range (as cmd_log requires)")
    return {
        "evaluations": acc.n + acc2.n,
        "log_requests_graph": acc.n,
        "log_requests_files": acc2.n,
        "histories": len(dags),
        "file_histories": len(fitems),
        "distinct_nontrivial": len(acc.nontrivial) + len(acc2.nontrivial),
        "rule": "non-trivial = history with more than two revisions (graph part); file history in which some revision changes the file (file part)",
        "distinct_outcomes": len(acc.outcomes | acc2.outcomes),
        "max_dag_nodes": N, "max_dag_nodes_files": M, "max_dag_nodes_files_all_assignments": min(M, 4),
        "violations_raw": acc.counters.get("violations_raw", 0) + acc2.counters.get("violations_raw", 0),
        "start_not_ancestor_but_listed": acc.counters.get("start_not_ancestor_listed", 0),
        "other_range_forward_differs_from_rbd_of_reverse": acc.counters.get("other_range_forward_differs_from_rbd_of_reverse", 0),
        "merged_end_left_hand_listing_differs_between_algorithms": acc2.counters.get("merged_end_left_hand_listing_differs_between_algorithms", 0),
        "delta_listing_differs_from_tree_comparison_reference": sum(v for k, v in acc2.counters.items() if k.startswith("delta_listing_differs")),
        "samples": acc.samples[:2] + acc2.samples[:1],
        "exhaustive": True,
    }
