"""C24 - Tag transfer never loses or silently rewrites tags.

Exhaustive enumeration of Tags.merge_to on real tag stores: every pair of
source/destination dictionaries over names {a, b, u-umlaut} x values {absent,
r1, r2} (729 pairs) x overwrite x selector {None, all but "a"; thorough: also only "a"} x
every supported (source kind, destination kind) among bzr BasicTags (2a branch
behind the vfs seam), git LocalGitTagDict (git repositories on /dev/shm, git
sources additionally with an annotated tag object for r1) and MemoryTags; a
bound bzr destination (child + master dictionaries, ignore_master on/off) fed
from bzr and git sources; the same merge reached through Branch.pull /
Branch.push with overwrite={"tags"} and tag_selector; and storage round trips
of dictionaries with arbitrary unicode names / byte revision ids (all strings
up to a length over a 7-symbol alphabet) through BasicTags (serialise, write,
fresh open, read), MemoryTags and git refs (round trip or refusal).  Oracle: a
reference reconcile written from the statement decides the destination
dictionary read back from a fresh open and the returned (updates, conflicts);
the source must be unchanged.
"""
import itertools
import os

from mc import par
from mc.evidence import HarnessError

ID = "C24"
LEVEL = "exploration"
TECHNIQUE = "exhaustive small-scope enumeration of tag dictionary pairs x options x store kinds on the real tag stores, reference reconcile as oracle"

NAMES = ("a", "b", "ü")
SELECTORS = (None, "only-a", "not-a")


def _sel(s):
    if s is None:
        return None
    if s == "only-a":
        return lambda n: n.startswith("a")
    if s == "not-a":
        return lambda n: not n.startswith("a")
    raise ValueError(s)


# ---- reference model (from the statement) -----------------------------------

def ref_merge(src, dst, overwrite, sel):
    """-> (result dict, updates dict, conflicts set) per the property statement."""
    res = dict(dst)
    upd = {}
    conf = set()
    for n, v in src.items():
        if sel is not None and not sel(n):
            continue            # not selected for copying: destination untouched
        if n not in dst:
            res[n] = v          # only in source -> added
            upd[n] = v
        elif dst[n] == v:
            pass                # identical -> unchanged
        elif overwrite:
            res[n] = v
            upd[n] = v
        else:
            conf.add((n, v, dst[n]))   # keep destination value, report
    return res, upd, conf


# ---- worlds -------------------------------------------------------------------

class World:
    def __init__(self):
        from breezy.branch import Branch
        from dulwich.objects import Tag
        from mc import world as mw
        from mc import wt
        from mc.vfs import new_store
        self.Branch = Branch
        ga = wt.make_tree("git")
        p = ga.basedir
        with open(p + "/f", "wb") as f:
            f.write(b"1\n")
        ga.add(["f"])
        r1 = ga.commit("c1", timestamp=1e9, timezone=0, committer="C <c@example.com>")
        with open(p + "/f", "wb") as f:
            f.write(b"2\n")
        r2 = ga.commit("c2", timestamp=1e9 + 1, timezone=0, committer="C <c@example.com>")
        gb = wt.make_tree("git")
        gb.branch.repository.fetch(ga.branch.repository)
        self.git = {"src": ga.basedir, "dst": gb.basedir}
        self.R = {"1": r1, "2": r2, "T": r1}
        # git shas
        sha1 = ga.branch.repository.lookup_bzr_revision_id(r1)[0]
        sha2 = ga.branch.repository.lookup_bzr_revision_id(r2)[0]
        t = Tag()
        t.name = b"annot"
        t.message = b"annotated\n"
        t.tagger = b"C <c@example.com>"
        t.tag_time = 1000000000
        t.tag_timezone = 0
        from dulwich.objects import Commit
        t.object = (Commit, sha1)
        for tr in (ga, gb):
            tr.branch.repository._git.object_store.add_object(t)
        self.SHA = {"1": sha1, "2": sha2, "T": t.id}
        self.store = new_store()
        self.bzr = {}
        for k in ("src", "dst", "master", "child"):
            mw.make_branch(self.store.transport(k), "2a")
            self.bzr[k] = self.store.url + k
        child = Branch.open(self.bzr["child"])
        child.bind(Branch.open(self.bzr["master"]))
        if Branch.open(self.bzr["child"]).get_master_branch() is None:
            raise HarnessError("child is not bound")
        self.mem = {}

    # -- state setting, independent of the tag code where possible
    def set_state(self, kind, role, toks):
        """toks: dict name -> token in {"1","2","T"}; returns dict-level {name: revid}."""
        d = {n: self.R[t] for n, t in toks.items()}
        if kind == "bzr":
            import fastbencode
            raw = fastbencode.bencode({n.encode("utf-8"): v for n, v in d.items()})
            self.store.raw().put_bytes(role + "/.bzr/branch/tags", raw)
        elif kind == "git":
            from dulwich.repo import Repo
            r = Repo(self.git[role])
            try:
                for ref in list(r.refs.allkeys()):
                    if ref.startswith(b"refs/tags/"):
                        del r.refs[ref]
                for n, t in toks.items():
                    r.refs[b"refs/tags/" + n.encode("utf-8")] = self.SHA[t]
            finally:
                r.close()
        elif kind == "mem":
            from breezy.tag import MemoryTags
            self.mem[role] = MemoryTags(dict(d))
        else:
            raise ValueError(kind)
        return d

    def open_tags(self, kind, role):
        if kind == "bzr":
            from breezy.transport import get_transport_from_url
            return self.Branch.open_from_transport(get_transport_from_url(self.bzr[role])).tags
        if kind == "git":
            return self.Branch.open(self.git[role]).tags
        return self.mem[role]

    def read(self, kind, role):
        """Observation from a fresh object."""
        if kind == "mem":
            return dict(self.mem[role].get_tag_dict())
        return dict(self.open_tags(kind, role).get_tag_dict())

    def read_raw(self, kind, role):
        """Observation of the stored state without the tag code (bzr: decode the tags file)."""
        if kind == "bzr":
            import fastbencode
            raw = self.store.raw().get_bytes(role + "/.bzr/branch/tags")
            return {k.decode("utf-8"): v for k, v in fastbencode.bdecode(raw).items()} if raw else {}
        return self.read(kind, role)

    def read_refs(self, role):
        from dulwich.repo import Repo
        r = Repo(self.git[role])
        try:
            return {k: v for k, v in r.refs.as_dict().items() if k.startswith(b"refs/tags/")}
        finally:
            r.close()


_W = None


def world():
    """The world of this process (a forked worker never reuses its parent's directories)."""
    global _W
    if _W is None or _W.pid != os.getpid():
        _W = World()
        _W.pid = os.getpid()
    return _W


def _frame(e):
    import traceback
    from mc import boot
    last = "?"
    for fs in traceback.extract_tb(e.__traceback__):
        if fs.filename.startswith(boot.REPO):
            last = "%s:%s" % (fs.filename[len(boot.REPO) + 1:], fs.name)
    return last


def dicts(values, names=NAMES):
    for combo in itertools.product((None,) + tuple(values), repeat=len(names)):
        yield {n: v for n, v in zip(names, combo) if v is not None}


def _key(d):
    return tuple(sorted(d.items()))


# ---- part 1: merge_to over store kinds ---------------------------------------

def _norm_conf(c):
    return {tuple(x) for x in c}


def check_merge(acc, skind, dkind, stoks, dtoks, overwrite, selname, via="merge_to"):
    w = world()
    sel = _sel(selname)
    src = w.set_state(skind, "src", stoks)
    dst = w.set_state(dkind, "dst", dtoks)
    case = {"source_kind": skind, "dest_kind": dkind, "source": stoks, "dest": dtoks,
            "overwrite": overwrite, "selector": selname, "via": via}
    acc.n += 1
    st = w.open_tags(skind, "src")
    dt = w.open_tags(dkind, "dst")
    if dict(st.get_tag_dict()) != src or dict(dt.get_tag_dict()) != dst:
        acc.violation("setup:%s:state-not-read-back" % (skind if dict(st.get_tag_dict()) != src else dkind), case)
        return
    try:
        if via == "merge_to":
            ret = st.merge_to(dt, overwrite=overwrite, selector=sel)
        elif via == "pull":
            r = dt.branch.pull(st.branch, overwrite=({"tags"} if overwrite else set()), tag_selector=sel)
            ret = (r.tag_updates, r.tag_conflicts)
        elif via == "push":
            r = st.branch.push(dt.branch, overwrite=({"tags"} if overwrite else set()), tag_selector=sel)
            ret = (getattr(r, "tag_updates", None), getattr(r, "tag_conflicts", None))
        else:
            raise ValueError(via)
    except Exception as e:  # noqa
        acc.violation("%s:%s->%s:%s:%s" % (via, skind, dkind, type(e).__name__, _frame(e)),
                      dict(case, error=repr(e)))
        return
    after = w.read_raw(dkind, "dst")     # bzr: the stored file decoded independently; git: fresh open
    src_after = w.read_raw(skind, "src")
    exp, eupd, econf = ref_merge(src, dst, overwrite, sel)
    if eupd or econf:
        acc.nt((skind, dkind, _key(stoks), _key(dtoks), overwrite, selname, via))
    # names whose git refs differ although the tag dictionaries agree (annotated vs plain tag to
    # the same revision): the statement is about definitions; accept both readings for the report
    amb = set()
    if skind == "git" and dkind == "git":
        for n in stoks:
            if n in dtoks and stoks[n] != dtoks[n] and src[n] == dst[n] and (sel is None or sel(n)):
                amb.add(n)
    tag = "%s:%s->%s" % (via, skind, dkind)
    if after != exp:
        lost = [n for n in exp if n not in after]
        changed = [n for n in exp if n in after and after[n] != exp[n]]
        extra = [n for n in after if n not in exp]
        what = "tag-lost" if lost else "wrong-value" if changed else "extra-tag"
        ovw = "overwrite" if overwrite else "no-overwrite"
        acc.violation("%s:dest-%s:%s%s" % (tag, what, ovw, ":selector" if sel else ""),
                      dict(case, expected=exp, got=after))
        return
    if src_after != src:
        acc.violation("%s:source-changed" % tag, dict(case, got=src_after))
        return
    if via == "push" and (ret[0] is None and ret[1] is None):
        acc.outcomes.add((tag, "no-report"))
        return
    try:
        upd, conf = ret
        upd = dict(upd)
        conf = _norm_conf(conf)
    except Exception:  # noqa
        acc.violation("%s:malformed-return" % tag, dict(case, returned=repr(ret)))
        return
    for n in amb:
        if overwrite:
            if upd.get(n, src[n]) != src[n]:
                acc.violation("%s:wrong-updates" % tag, dict(case, returned=repr(ret)))
                return
            upd.pop(n, None)
        else:
            conf.discard((n, src[n], dst[n]))
    if upd != eupd:
        acc.violation("%s:wrong-updates:%s" % (tag, "overwrite" if overwrite else "no-overwrite"),
                      dict(case, expected=eupd, got=upd))
        return
    if conf != econf:
        acc.violation("%s:wrong-conflicts:%s" % (tag, "missing" if econf - conf else "spurious"),
                      dict(case, expected=sorted(econf), got=sorted(conf)))
        return
    acc.outcomes.add((tag, len(eupd), len(econf)))


def _merge_work(chunk):
    acc = par.Acc()
    for (skind, dkind, via, svals, dvals), sitems, sels in chunk:
        stoks = dict(sitems)
        for dtoks in dicts(dvals):
            for overwrite in (False, True):
                for selname in sels:
                    check_merge(acc, skind, dkind, stoks, dtoks, overwrite, selname, via)
        acc.sample({"source_kind": skind, "dest_kind": dkind, "via": via, "source": stoks,
                    "dest": "all %d dicts" % ((len(dvals) + 1) ** len(NAMES)), "overwrite": "both",
                    "selectors": list(sels)})
    return acc


# ---- part 2: bound destination ------------------------------------------------

def check_bound(acc, skind, stoks, ctoks, mtoks, overwrite, ignore_master, selname):
    w = world()
    sel = _sel(selname)
    src = w.set_state(skind, "src", stoks)
    child = w.set_state("bzr", "child", ctoks)
    master = w.set_state("bzr", "master", mtoks)
    case = {"source_kind": skind, "source": stoks, "child": ctoks, "master": mtoks, "overwrite": overwrite,
            "ignore_master": ignore_master, "selector": selname}
    acc.n += 1
    st = w.open_tags(skind, "src")
    dt = w.open_tags("bzr", "child")
    if dict(st.get_tag_dict()) != src or dict(dt.get_tag_dict()) != child or w.read_raw("bzr", "master") != master:
        acc.violation("setup:bound:state-not-read-back", case)
        return
    try:
        ret = st.merge_to(dt, overwrite=overwrite, ignore_master=ignore_master, selector=sel)
    except Exception as e:  # noqa
        acc.violation("merge_to:%s->bound:%s:%s" % (skind, type(e).__name__, _frame(e)), dict(case, error=repr(e)))
        return
    c_after = w.read_raw("bzr", "child")
    m_after = w.read_raw("bzr", "master")
    cexp, cupd, cconf = ref_merge(src, child, overwrite, sel)
    if ignore_master:
        mexp, mupd, mconf = dict(master), {}, set()
    else:
        mexp, mupd, mconf = ref_merge(src, master, overwrite, sel)
    if cupd or cconf or mupd or mconf:
        acc.nt(("bound", skind, _key(stoks), _key(ctoks), _key(mtoks), overwrite, ignore_master, selname))
    tag = "merge_to:%s->bound" % skind
    if c_after != cexp:
        acc.violation("%s:child-wrong:%s" % (tag, "overwrite" if overwrite else "no-overwrite"),
                      dict(case, expected=cexp, got=c_after))
        return
    try:
        upd, conf = ret
        upd, conf = dict(upd), _norm_conf(conf)
    except Exception:  # noqa
        acc.violation("%s:malformed-return" % tag, dict(case, returned=repr(ret)))
        return
    if (not ignore_master and m_after == master and upd == cupd and conf == cconf
            and (mexp != master or set(mupd) - set(cupd) or mconf - cconf)):
        # exactly the behaviour of a merge that never consulted the master
        acc.violation("%s:master-not-updated" % tag, dict(case, expected_master=mexp, got_master=m_after,
                                                          returned=repr(ret)))
        return
    if m_after != mexp:
        what = "modified-despite-ignore_master" if ignore_master else "wrong"
        acc.violation("%s:master-%s" % (tag, what), dict(case, expected=mexp, got=m_after))
        return
    if w.read_raw(skind, "src") != src:
        acc.violation("%s:source-changed" % tag, case)
        return
    eupd = dict(cupd)
    eupd.update(mupd)
    econf = cconf | mconf
    if upd != eupd:
        acc.violation("%s:wrong-updates" % tag, dict(case, expected=eupd, got=upd))
        return
    if conf != econf:
        acc.violation("%s:wrong-conflicts" % tag, dict(case, expected=sorted(econf), got=sorted(conf)))
        return
    acc.outcomes.add((tag, len(eupd), len(econf), ignore_master))


BOUND_SELECTORS = (None, "only-a")


def _bound_work(chunk):
    acc = par.Acc()
    for skind, names, sitems, citems, bsels in chunk:
        stoks, ctoks = dict(sitems), dict(citems)
        for mtoks in dicts("12", names):
            for overwrite in (False, True):
                for ignore_master in (False, True):
                    for selname in bsels:
                        check_bound(acc, skind, stoks, ctoks, mtoks, overwrite, ignore_master, selname)
    return acc


# ---- part 3: storage round trips -----------------------------------------------

NAME_ALPHA = ("a", " ", "ü", "\n", ":", "€", "/")
ID_ALPHA = (b"r", b" ", b"\xc3\xbc", b"\n", b":", b"\xff", b"\x00")


def strings(alpha, maxlen, empty):
    out = []
    for k in range(0 if empty else 1, maxlen + 1):
        for w in itertools.product(alpha, repeat=k):
            out.append(w[0][:0].join(w) if w else alpha[0][:0])
    return out


def check_roundtrip_bzr(acc, d):
    w = world()
    from breezy.bzr.tag import BasicTags
    b = w.open_tags("bzr", "dst").branch
    case = {"dict": {repr(k): repr(v) for k, v in d.items()}}
    acc.n += 1
    if len(d) > 1 or any(len(k) > 1 or len(v) > 1 for k, v in d.items()):
        acc.nt(("rt", _key(d)))
    try:
        t = b.tags
        if not isinstance(t, BasicTags):
            raise HarnessError("not BasicTags")
        raw = t._serialize_tag_dict(d)
        if t._deserialize_tag_dict(raw) != d:
            acc.violation("roundtrip:bzr:serialise-deserialise-differs", dict(case, raw=repr(raw)))
            return
        t._set_tag_dict(d)
        got = w.open_tags("bzr", "dst").branch.tags.get_tag_dict()
        if got != d:
            acc.violation("roundtrip:bzr:stored-dict-differs", dict(case, got=repr(got)))
            return
        # the public route: set_tag one by one on an empty store, then read back
        t._set_tag_dict({})
        b2 = w.open_tags("bzr", "dst").branch
        for k, v in d.items():
            b2.tags.set_tag(k, v)
        b3 = w.open_tags("bzr", "dst").branch
        got = b3.tags.get_tag_dict()
        if got != d or any(b3.tags.lookup_tag(k) != v for k, v in d.items()):
            acc.violation("roundtrip:bzr:set_tag-then-read-differs", dict(case, got=repr(got)))
            return
        rev = b3.tags.get_reverse_tag_dict()
        exp_rev = {}
        for k, v in d.items():
            exp_rev.setdefault(v, set()).add(k)
        if {k: set(v) for k, v in rev.items()} != exp_rev:
            acc.violation("roundtrip:bzr:reverse-dict-differs", dict(case, got=repr(rev)))
            return
        for k in list(d):
            b3.tags.delete_tag(k)
        if w.open_tags("bzr", "dst").branch.tags.get_tag_dict() != {}:
            acc.violation("roundtrip:bzr:delete_tag-leaves-tags", case)
            return
    except HarnessError:
        raise
    except Exception as e:  # noqa
        acc.violation("roundtrip:bzr:%s:%s" % (type(e).__name__, _frame(e)), dict(case, error=repr(e)))
        return
    acc.outcomes.add(("rt-bzr", len(d)))


def check_roundtrip_mem(acc, d):
    from breezy.tag import MemoryTags
    acc.n += 1
    m = MemoryTags({})
    for k, v in d.items():
        m.set_tag(k, v)
    if m.get_tag_dict() != d or any(m.lookup_tag(k) != v for k, v in d.items()):
        acc.violation("roundtrip:mem:differs", {"dict": repr(d)})
    m2 = MemoryTags({})
    m2._set_tag_dict(d)
    if m2.get_tag_dict() != d:
        acc.violation("roundtrip:mem:_set_tag_dict-differs", {"dict": repr(d)})


def check_roundtrip_git(acc, names):
    """git refs cannot hold every name: a tag is either stored and read back exactly or refused."""
    w = world()
    acc.n += 1
    w.set_state("git", "dst", {})
    stored = {}
    for n in names:
        t = w.open_tags("git", "dst")
        try:
            t.set_tag(n, w.R["2"])
        except Exception as e:  # noqa  (refusal of an unrepresentable ref name)
            acc.outcomes.add(("rt-git-refused", type(e).__name__))
            acc.count("git_names_refused")
            continue
        stored[n] = w.R["2"]
    if stored:
        acc.nt(("rt-git", tuple(names)))
    try:
        got = w.read("git", "dst")
    except Exception as e:  # noqa
        acc.violation("roundtrip:git:read:%s:%s" % (type(e).__name__, _frame(e)), {"names": [repr(n) for n in names]})
        return
    if got != stored:
        acc.violation("roundtrip:git:accepted-name-not-read-back",
                      {"names": [repr(n) for n in names], "accepted": repr(stored), "got": repr(got)})
        return
    acc.count("git_names_stored", len(stored))


def _rt_work(chunk):
    acc = par.Acc()
    for kind, payload in chunk:
        if kind == "bzr":
            d = dict(payload)
            check_roundtrip_bzr(acc, d)
            check_roundtrip_mem(acc, d)
        else:
            check_roundtrip_git(acc, payload)
    return acc


# ---- driver -------------------------------------------------------------------

COMBOS = [
    # source kind, dest kind, route, source value tokens, destination value tokens
    ("bzr", "bzr", "merge_to", "12", "12"),
    ("bzr", "git", "merge_to", "12", "12"),
    ("git", "bzr", "merge_to", "12", "12"),
    ("git", "git", "merge_to", "12", "12"),
    ("mem", "bzr", "merge_to", "12", "12"),
    ("mem", "git", "merge_to", "12", "12"),
    ("mem", "mem", "merge_to", "12", "12"),
    ("bzr", "bzr", "pull", "12", "12"),
    ("bzr", "bzr", "push", "12", "12"),
]
COMBOS_T = [
    ("git", "bzr", "merge_to", "12T", "12"),
    ("git", "git", "merge_to", "12T", "12T"),
    ("git", "git", "pull", "12", "12"),
]


def run(ctx):
    # NB: the world is created lazily inside each worker (git repositories are directories)
    # {bzr,git} -> MemoryTags is not a supported direction: MemoryTags has no branch for InterTags
    combos = list(COMBOS) + (COMBOS_T if ctx.thorough else [("git", "git", "merge_to", "1T", "1T")])
    sels = SELECTORS if ctx.thorough else (None, "not-a")
    bsels = BOUND_SELECTORS if ctx.thorough else (None,)
    items = []
    for c in combos:
        for stoks in dicts(c[3]):
            items.append((c, _key(stoks), sels))
    acc1 = par.merge(par.pmap(_merge_work, items, seed=ctx.seed))
    # bound destination
    bnames = NAMES if ctx.thorough else NAMES[:2]
    bitems = []
    for skind in ("bzr", "git", "mem"):
        for stoks in dicts("12", bnames):
            for ctoks in dicts("12", bnames):
                bitems.append((skind, bnames, _key(stoks), _key(ctoks), bsels))
    acc2 = par.merge(par.pmap(_bound_work, bitems, seed=ctx.seed))
    # round trips
    L = ctx.q(2, 2)
    names = strings(NAME_ALPHA, L, True)
    ids = strings(ID_ALPHA, L, True)
    rt = []
    for n in names:
        for v in ids:
            rt.append(("bzr", ((n, v),)))
    short_names = strings(NAME_ALPHA, 1, True)
    short_ids = strings(ID_ALPHA, 1, False)
    pair_names = names if ctx.thorough else short_names + ["ab", "aü", "üü", "a/", "/a"]
    for n1, n2 in itertools.combinations(pair_names, 2):
        for v1 in short_ids[:ctx.q(2, 3)]:
            for v2 in short_ids[:ctx.q(2, 3)]:
                rt.append(("bzr", ((n1, v1), (n2, v2))))
    for n in names:
        rt.append(("git", (n,)))
    for n1, n2 in itertools.combinations(short_names + ["ab", "a/b", "aü"], 2):
        rt.append(("git", (n1, n2)))
    acc3 = par.merge(par.pmap(_rt_work, rt, seed=ctx.seed))
    # determinism audit: the first cases twice
    a1, a2 = par.Acc(), par.Acc()
    for a in (a1, a2):
        for it in items[:3] + items[-3:]:
            _merge_into(a, it)
    if (a1.n, sorted(map(repr, a1.outcomes)), a1.violations) != (a2.n, sorted(map(repr, a2.outcomes)), a2.violations):
        raise HarnessError("non-deterministic tag merge results")
    total = par.merge([acc1, acc2, acc3])
    best = {}
    for sig, d in total.violations:
        k = len(repr(d))
        if sig not in best or k < best[sig][0]:
            best[sig] = (k, d)
    for sig in sorted(best):
        ctx.violation(sig, best[sig][1])
    ctx.assumptions += [
        "tag values are revision ids of two real git commits (present in both git repositories; ghosts in the bzr branches), because git tags cannot reference absent revisions",
        "MemoryTags is enumerated as source towards every kind and as destination of MemoryTags only: it has no branch attribute, so the InterTags route cannot target it",
        "where an annotated and a plain git tag name the same revision the returned report may treat them as equal or as differing (statement speaks of definitions)",
    ]
    return {
        "evaluations": total.n,
        "merge_evaluations": acc1.n,
        "bound_evaluations": acc2.n,
        "roundtrip_evaluations": acc3.n,
        "distinct_nontrivial": len(total.nontrivial),
        "rule": "merge: every (source dict, dest dict, overwrite, selector, kinds, route); non-trivial = the reference expects at least one update or conflict; round trip: dict with two entries or a two-symbol name/id; git: at least one name accepted",
        "combos": [list(c) for c in combos],
        "dict_pairs_per_combo": {"%s->%s:%s:%s/%s" % c: (len(c[3]) + 1) ** 3 * (len(c[4]) + 1) ** 3 for c in combos},
        "bound_names": list(bnames),
        "selectors": [str(x) for x in sels],
        "bound_selectors": [str(x) for x in bsels],
        "roundtrip_dicts": len(rt),
        "git_names_stored": total.counters.get("git_names_stored", 0),
        "git_names_refused": total.counters.get("git_names_refused", 0),
        "distinct_outcomes": len(total.outcomes),
        "samples": acc1.samples[:2] + [{"roundtrip": repr(rt[57])}],
        "exhaustive": True,
    }


def _merge_into(acc, item):
    a = _merge_work([item])
    acc.merge(a)


def replay(ctx, data):
    d = data["first"]
    acc = par.Acc()
    if "child" in d:
        check_bound(acc, d["source_kind"], d["source"], d["child"], d["master"], d["overwrite"],
                    d["ignore_master"], d["selector"])
    elif "source_kind" in d:
        check_merge(acc, d["source_kind"], d["dest_kind"], d["source"], d["dest"], d["overwrite"],
                    d["selector"], d.get("via", "merge_to"))
    else:
        print("  round-trip cases are re-run by the check itself")
        return True
    for sig, det in acc.violations:
        print("  ", sig, det)
    return not acc.violations
