"""C13 - Applying a tree transform is all-or-nothing on the file system.

Single-fault enumeration on real working trees (bzr 2a dirstate trees and git trees, on
/dev/shm, separate signatures).  Scripts over 22 edits (modify, chmod, rename, move, delete
file / directory tree, add file / directory, file->dir, file->symlink, symlink->file,
dir->file, file swap, 3-cycle, directory rename with inner rename, parent/child inversion,
directory swap, replace): quick = every single edit + every pair of 10 core edits,
thorough = every script of <= 2 edits, plus double faults (second fault in rollback or in
the limbo clean-up).  For every script and every command of {revert, revert with backups,
revert to an older revision, merge, shelve, unshelve} the command is run once fault-free
with counting wrappers around the file-system primitives referenced by
breezy/transform.py, breezy/bzr/transform.py, breezy/git/transform.py (os.rename, unlink,
rmdir, mkdir, symlink, link, chmod, utime, stat, lstat, open-for-write, osutils.delete_any,
rename, chmod_if_possible, lstat, shutil.rmtree; patched as module attributes at run time),
then for each k in 1..N it is re-run from an identical fresh copy of the tree with the k-th
call inside the real apply() raising OSError(EIO); likewise for every call made while the
transform is being built (before apply).  Oracle (from the statement): the end state
(directory bytes, modes, symlinks + versioned paths / kinds / file ids as read by a freshly
opened tree) is jointly equal to the state before or to the state after the fault-free run;
a fault before the commit point (anything but the removal of replaced content or of the
limbo directories) gives exactly the before state and leaves no limbo / pending-deletion
directory; a fault while discarding replaced content gives the after state (never new
files with metadata describing the old layout).
"""
import os
import shutil

from mc import boot, par
from mc import wt as mwt
from mc.evidence import HarnessError

from . import _c13scen as scen
from ._c13seam import SEAM

ID = "C13"
LEVEL = "fault_enumeration"
TECHNIQUE = "exhaustive single-fault injection at every counted file-system call of real transform applications"

COMMANDS = ("revert", "revert_backup", "revert_old", "merge", "shelve", "unshelve")
DELETE_OPS = ("delete_any", "osutils.delete_any", "os.unlink", "os.remove", "os.rmdir", "shutil.rmtree",
              "osutils.rmtree")
TS = dict(timestamp=1_000_000_001.0, timezone=0, committer="C <c@example.com>")


# ---- observation ----------------------------------------------------------

def control_dirs(root):
    out = []
    for base in (".bzr/checkout", ".git"):
        for n in ("limbo", "pending-deletion"):
            out.append(os.path.join(root, base, n))
    return out


def observe(root):
    """(directory snapshot, versioned entries, leftover transform dirs) from a fresh tree object."""
    from breezy.workingtree import WorkingTree
    snap = mwt.dir_snapshot(root)
    t = WorkingTree.open(root)
    meta = []
    ids = t.supports_setting_file_ids()
    with t.lock_read():
        for path in t.all_versioned_paths():
            if path == "":
                continue
            meta.append((path, t.stored_kind(path), t.path2id(path) if ids else None))
    left = tuple(sorted(os.path.relpath(p, root) for p in control_dirs(root) if os.path.lexists(p)))
    return snap, sorted(meta), left


def state_digest(st):
    import hashlib
    return hashlib.sha1(repr((sorted(st[0].items()), st[1])).encode()).hexdigest()[:12]


def diff_state(s, ref):
    """Small rendering of how state s differs from ref (for the violation detail)."""
    d = {}
    for p in sorted(set(s[0]) | set(ref[0])):
        if s[0].get(p) != ref[0].get(p):
            d["disk:" + p] = (s[0].get(p), ref[0].get(p))
    ms, mr = {m[0]: m for m in s[1]}, {m[0]: m for m in ref[1]}
    for p in sorted(set(ms) | set(mr)):
        if ms.get(p) != mr.get(p):
            d["versioned:" + p] = (ms.get(p), mr.get(p))
    return d


# ---- commands -------------------------------------------------------------

def cmd_run(cmd, root, env):
    from breezy.workingtree import WorkingTree
    t = WorkingTree.open(root)
    if cmd == "revert":
        t.revert(backups=False)
    elif cmd == "revert_backup":
        t.revert(backups=True)
    elif cmd == "revert_old":
        old = t.branch.repository.revision_tree(env["r0"])
        t.revert(old_tree=old, backups=False)
    elif cmd == "merge":
        from breezy import merge as _merge
        from breezy.branch import Branch
        other = Branch.open(env["src"])
        with t.lock_write():
            m = _merge.Merger.from_revision_ids(t, env["r1"], other_branch=other)
            m.merge_type = _merge.Merge3Merger
            m.do_merge()
            m.set_pending()
    elif cmd == "shelve":
        from breezy import shelf
        creator = shelf.ShelfCreator(t, t.basis_tree())
        try:
            creator.shelve_all()
            t.get_shelf_manager().shelve_changes(creator, "m")
        finally:
            creator.finalize()
    elif cmd == "unshelve":
        with t.lock_tree_write():
            mgr = t.get_shelf_manager()
            sid = mgr.last_shelf()
            u = mgr.get_unshelver(sid)
            try:
                merger = u.make_merger()
                merger.do_merge()
            finally:
                u.finalize()
            mgr.delete_shelf(sid)
    else:
        raise HarnessError(cmd)


def innermost_repo_frame(exc):
    import traceback
    fr = None
    for f in traceback.extract_tb(exc.__traceback__):
        if f.filename.startswith(boot.REPO + os.sep):
            fr = f
    return "%s:%s" % (os.path.relpath(fr.filename, boot.REPO), fr.name) if fr else "?"


def classify(root, entry):
    """'pre' | 'discard' | 'cleanup' from the operation and its path (statement: commit point =
    before any replaced content is discarded)."""
    name, p1 = entry[1], entry[2]
    if name in DELETE_OPS and isinstance(p1, str):
        for cdir in control_dirs(root):
            if p1 == cdir:
                return "cleanup"
            if p1.startswith(cdir + os.sep):
                return "discard" if cdir.endswith("pending-deletion") else "cleanup"
    return "pre"


# ---- one (format, script) case -------------------------------------------

class Case:
    def __init__(self, kind, script, work):
        self.kind, self.script, self.work = kind, script, work
        self.states = {}

    def build(self):
        """Build the starting trees for each command; returns {cmd: (start_dir, env)}."""
        from breezy.workingtree import WorkingTree
        w = self.work
        src = os.path.join(w, "src")
        t = scen.build_base(self.kind, src)
        r0 = t.last_revision()
        clean0 = os.path.join(w, "clean0")
        shutil.copytree(src, clean0, symlinks=True)
        try:
            scen.apply_script(t, src, self.script)
        except Exception as e:  # edits do not compose: script not in the space
            return None, "inapplicable:%s" % type(e).__name__
        dirty = os.path.join(w, "dirty")
        shutil.copytree(src, dirty, symlinks=True)
        starts = {"revert": (dirty, {}), "revert_backup": (dirty, {}), "shelve": (dirty, {})}
        try:
            t = WorkingTree.open(src)
            r1 = t.commit("other", rev_id=b"r1" if self.kind == "bzr" else None, **TS)
            starts["merge"] = (clean0, {"src": src, "r1": r1})
            starts["revert_old"] = (src, {"r0": r0})
        except Exception as e:
            self.commit_error = type(e).__name__
        return starts, None


def fresh(start, work, n):
    dst = os.path.join(work, "run%d" % n)
    if os.path.exists(dst):
        shutil.rmtree(dst)
    shutil.copytree(start, dst, symlinks=True)
    return dst


def run_once(cmd, start, env, work, fail=None, fail2=None):
    root = fresh(start, work, 0)
    SEAM.reset(fail=fail, fail2=fail2)
    exc = None
    try:
        cmd_run(cmd, root, env)
    except Exception as e:  # noqa: BLE001 - the oracle looks at the end state
        exc = e
    finally:
        SEAM.window = None
    log = list(SEAM.log)
    fired = list(SEAM.fired)
    counts = dict(SEAM.counts)
    applies = SEAM.applies
    SEAM.reset()
    return root, exc, log, fired, counts, applies


def check_case(kind, script, acc, cfg, only=None):
    """Fault-free run + every single fault (+ double faults) for each command on one (format, script)."""
    work = boot.scratch("c13")
    try:
        case = Case(kind, script, work)
        starts, why = case.build()
        if starts is None:
            acc.count("scripts_" + why)
            return
        acc.count("scripts_built:" + kind)
        shelved_start = None
        for cmd in cfg["cmds"]:
            if cmd == "unshelve":
                if shelved_start is None:
                    continue
                start, env = shelved_start, {}
            elif cmd in starts:
                start, env = starts[cmd]
            else:
                acc.count("cmd_unavailable:%s:%s" % (cmd, kind))
                continue
            try:
                before = observe(start)
            except Exception as e:  # noqa: BLE001 - an earlier fault-free command left an unreadable tree
                note_unreadable(acc, kind, script, cmd, "start", e)
                continue
            root, exc, log, fired, counts, applies = run_once(cmd, start, env, work)
            if exc is not None:
                # the fault-free command itself fails for this tree: not a subject of fault
                # enumeration (other properties cover it); recorded as an outcome.
                acc.count("faultfree_error:%s:%s:%s" % (cmd, kind, type(exc).__name__))
                acc.outcomes.add(("faultfree-error", cmd, kind, type(exc).__name__, innermost_repo_frame(exc)))
                # ... but it is a naturally failing transform: the tree must be exactly as before
                st = observe(root)
                acc.n += 1
                if st[:2] != before[:2] or st[2]:
                    acc.violation("%s:natural-failure:%s:not-restored-to-before:%s" % (
                        "apply" if applies else "build", type(exc).__name__, kind),
                        {"format": kind, "script": list(script), "command": cmd, "k": 0,
                         "exception": scrub("%s: %s" % (type(exc).__name__, str(exc)[:200]), work),
                         "vs_before": diff_state(st, before), "left": st[2]})
                continue
            try:
                after = observe(root)
            except Exception as e:  # noqa: BLE001
                note_unreadable(acc, kind, script, cmd, "after", e)
                continue
            if after[2]:
                acc.violation("faultfree:transform-dirs-left:%s" % kind,
                              {"script": list(script), "command": cmd, "left": after[2]})
            if cmd == "shelve" and shelved_start is None:
                shelved_start = os.path.join(work, "shelved")
                shutil.copytree(root, shelved_start, symlinks=True)
            if only is not None and only[0] != cmd:
                continue
            n_apply = counts["apply"]
            acc.count("transforms:%s" % kind)
            acc.count("transforms:%s:%s" % (cmd, kind))
            if applies != 1:
                acc.count("applies!=1:%s:%s=%d" % (cmd, kind, applies))
            if n_apply == 0:
                acc.count("no_fs_calls_in_apply:%s" % kind)
            if before[:2] != after[:2] and n_apply >= 2:
                acc.nt((kind, cmd, script))
            acc.sample({"format": kind, "script": list(script), "command": cmd, "calls_in_apply": n_apply,
                        "calls_in_build": counts["build"],
                        "apply_log": [(e[1], rel(e[2], root)) for e in log if e[0] == "apply"][:40]})
            ctx_ = dict(kind=kind, script=script, cmd=cmd, start=start, env=env, work=work,
                        before=before, after=after)
            for window in cfg["windows"]:
                entries = [e for e in log if e[0] == window]
                if len(entries) != counts[window] or [e[5] for e in entries] != list(range(1, len(entries) + 1)):
                    raise HarnessError("log/count mismatch")
                for ent in entries:
                    if only is not None and (only[1], only[2]) != (window, ent[5]):
                        continue
                    phase = classify(root, ent) if window == "apply" else "pre"
                    later = one_fault(ctx_, ent, phase, acc)
                    if cfg["double"] and later and phase == "pre" and window == "apply":
                        for ent2 in later:
                            two_faults(ctx_, ent, ent2, acc)
    finally:
        shutil.rmtree(work, ignore_errors=True)


def base(p):
    return os.path.basename(p) if isinstance(p, str) else p


def note_unreadable(acc, kind, script, cmd, when, e):
    """A command that succeeded WITHOUT any injected fault left a tree that cannot be read back.
    That is outside this property (no file-system failure happened); it is recorded as an outcome
    and the command is skipped as a subject of fault enumeration."""
    acc.count("faultfree_tree_unreadable:%s:%s:%s" % (cmd, kind, type(e).__name__))
    acc.outcomes.add(("faultfree-tree-unreadable", when, cmd, kind, type(e).__name__, "+".join(script)))


def rel(p, root):
    return os.path.relpath(p, root) if isinstance(p, str) and p.startswith(os.sep) else p


def scrub(text, work):
    return text.replace(work, "<work>")


def one_fault(c, ent, phase, acc):
    """Run with the recorded call failing; returns the calls that happened after the fault."""
    kind, script, cmd, work, before, after = c["kind"], c["script"], c["cmd"], c["work"], c["before"], c["after"]
    window, opn, k = ent[0], ent[1], ent[5]
    root, exc, log, fired, counts, applies = run_once(cmd, c["start"], c["env"], work, fail=(window, k))
    acc.n += 1
    acc.count("faults:%s:%s" % (window, kind))
    acc.count("faults_by_op:%s:%s" % (window, opn))
    detail = {"format": kind, "script": list(script), "command": cmd, "window": window, "k": k,
              "op": opn, "path": rel(ent[2], root), "phase": phase,
              "exception": scrub("%s: %s" % (type(exc).__name__, str(exc)[:200]), work) if exc else None}
    if len(fired) != 1 or fired[0][2] != opn or base(fired[0][3]) != base(ent[2]):
        # the faulted run diverged from the fault-free run before reaching call k
        raise HarnessError("fault (%s,%d) did not fire as recorded: %r vs %r (%s %s %s)" % (
            window, k, fired, ent, kind, script, cmd))
    idx = [i for i, e in enumerate(log) if (e[0], e[5]) == (window, k)]
    later = log[idx[0] + 1:] if idx else []
    try:
        st = observe(root)
    except Exception as e:  # noqa: BLE001
        acc.violation("%s:%s-fault:%s:tree-unreadable-afterwards:%s:%s" % (
            window, phase, opn, type(e).__name__, kind), detail)
        return later
    is_b = st[:2] == before[:2]
    is_a = st[:2] == after[:2]
    acc.outcomes.add((window, phase, opn, type(exc).__name__ if exc else None,
                      "before=after" if is_a and is_b else "before" if is_b else "after" if is_a else "neither",
                      "dirs-left" if st[2] else "clean"))
    if not (is_a or is_b):
        if st[0] == after[0] and st[1] == before[1]:
            what = "disk-new-but-metadata-describes-old-layout"
        elif st[0] == before[0] and st[1] == after[1]:
            what = "disk-old-but-metadata-describes-new-layout"
        elif st[1] == before[1] or st[1] == after[1]:
            what = "disk-neither-before-nor-after"
        else:
            what = "state-neither-before-nor-after"
        detail["vs_before"] = diff_state(st, before)
        detail["vs_after"] = diff_state(st, after)
        if phase == "pre" and only_exec_bits_differ(st, before):
            # renames were rolled back, in-place chmods of the insertion phase were not
            acc.violation("%s:pre-fault:executable-bit-changes-not-rolled-back:%s" % (window, kind), detail)
        else:
            acc.violation("%s:%s-fault:%s:%s:%s" % (window, phase, opn, what, kind), detail)
        return later
    if phase == "pre":
        if not is_b:
            detail["vs_before"] = diff_state(st, before)
            acc.violation("%s:pre-fault:%s:not-restored-to-before:%s" % (window, opn, kind), detail)
        elif st[2]:
            detail["left"] = st[2]
            acc.violation("%s:pre-fault:%s:transform-dirs-left-behind:%s" % (window, opn, kind), detail)
        elif exc is None:
            acc.count("fault_swallowed:%s:%s" % (opn, kind))
    elif phase == "discard":
        if not is_a:
            detail["vs_after"] = diff_state(st, after)
            acc.violation("%s:discard-fault:%s:not-in-transformed-state:%s" % (window, opn, kind), detail)
    return later


def only_exec_bits_differ(st, ref):
    if st[1] != ref[1] or set(st[0]) != set(ref[0]):
        return False
    diffs = [(st[0][p], ref[0][p]) for p in st[0] if st[0][p] != ref[0][p]]
    return bool(diffs) and all(a[0] == b[0] == "file" and a[1] == b[1] for a, b in diffs)


def two_faults(c, ent, ent2, acc):
    """First fault before the commit point, second fault at a later call of the same run
    (during rollback or while cleaning up limbo).  A failed rollback cannot restore the tree
    (outcome only); a failed clean-up must still leave the visible tree exactly as before."""
    kind, script, cmd, work, before = c["kind"], c["script"], c["cmd"], c["work"], c["before"]
    root, exc, log, fired, counts, applies = run_once(cmd, c["start"], c["env"], work,
                                                      fail=(ent[0], ent[5]), fail2=(ent2[0], ent2[5]))
    acc.n += 1
    acc.count("double_faults:%s" % kind)
    if len(fired) != 2:
        raise HarnessError("double fault did not fire twice: %r" % (fired,))
    in_rollback = ent2[4]
    detail = {"format": kind, "script": list(script), "command": cmd, "k": ent[5], "op": ent[1],
              "path": rel(ent[2], root), "second": {"window": ent2[0], "k": ent2[5], "op": ent2[1],
                                                     "path": rel(ent2[2], root), "in_rollback": in_rollback},
              "exception": scrub("%s: %s" % (type(exc).__name__, str(exc)[:200]), work) if exc else None}
    if exc is None:
        acc.violation("apply:double-fault:no-error-reported:%s" % kind, detail)
        return
    try:
        st = observe(root)
    except Exception as e:  # noqa: BLE001
        acc.violation("apply:double-fault:tree-unreadable-afterwards:%s:%s" % (type(e).__name__, kind), detail)
        return
    is_b = st[:2] == before[:2]
    acc.outcomes.add(("double", "rollback" if in_rollback else ent2[0], ent2[1], type(exc).__name__,
                      "before" if is_b else "not-before"))
    if in_rollback:
        acc.count("double_faults_in_rollback:%s" % kind)
        return
    if not is_b:
        detail["vs_before"] = diff_state(st, before)
        if only_exec_bits_differ(st, before):
            # the single-fault defect (in-place chmods are not rolled back) seen through a double fault
            acc.violation("apply:pre-fault:executable-bit-changes-not-rolled-back:%s" % kind, detail)
        else:
            acc.violation("apply:pre-fault-then-%s-fault:%s:not-restored-to-before:%s" % (ent2[0], ent2[1], kind), detail)


def fresh_root(work):
    return os.path.join(work, "run0")


# ---- driver ---------------------------------------------------------------

_CFG = {}
CORE = ("del_d", "ren_d_b", "swap_a_x", "a_to_dir", "invert_d_e", "mod_c", "chmod_a", "unchmod_x", "add_g", "e_to_file")


def _work(chunk):
    import logging
    logging.getLogger("brz").setLevel(logging.CRITICAL)
    SEAM.install()
    acc = par.Acc()
    for kind, script in chunk:
        check_case(kind, script, acc, _CFG)
    return acc


def space(ctx):
    """quick: every single edit + every pair of CORE edits; thorough: every script of <= 2 edits."""
    if ctx.thorough:
        return scen.scripts(2)
    import itertools
    return scen.scripts(1) + [p for p in itertools.combinations(scen.ORDER, 2) if p[0] in CORE and p[1] in CORE]


def run(ctx):
    kinds = ("bzr", "git")
    scripts = space(ctx)
    if os.environ.get("C13_ONLY"):
        scripts = [tuple(os.environ["C13_ONLY"].split(","))]
    _CFG.update(windows=("apply", "build"), cmds=COMMANDS, double=ctx.thorough)
    items = [(k, s) for k in kinds for s in scripts]
    # determinism audit: the first cases twice
    SEAM.install()
    import logging
    logging.getLogger("brz").setLevel(logging.CRITICAL)
    try:
        for it in items[:2]:
            a1, a2 = par.Acc(), par.Acc()
            check_case(it[0], it[1], a1, _CFG)
            check_case(it[0], it[1], a2, _CFG)
            if (a1.n, a1.outcomes, a1.counters, [v[0] for v in a1.violations]) != (
                    a2.n, a2.outcomes, a2.counters, [v[0] for v in a2.violations]):
                raise HarnessError("determinism audit failed for %r" % (it,))
    finally:
        SEAM.uninstall()
    acc = par.merge(par.pmap(_work, items, seed=ctx.seed, chunks_per_job=8))
    best = {}
    for sig, d in acc.violations:
        key = (len(d.get("script", ())), d.get("k", 0), repr(d.get("script")), d.get("command"))
        if sig not in best or key < best[sig][0]:
            best[sig] = (key, d)
    for sig in sorted(best):
        ctx.violation(sig, best[sig][1])
    ctx.assumptions.append("dirstate / git index writes (Rust, dulwich) are atomic units; faults are injected only at the "
                           "Python-level file-system calls referenced from the three transform modules")
    ctx.assumptions.append("a fault is OSError(EIO) raised instead of performing the call")
    ctx.assumptions.append("commands whose fault-free run already fails on a tree (e.g. shelve on git trees) are not "
                           "subjects of the fault enumeration; they are listed under outcomes")
    return {
        "evaluations": acc.n,
        "distinct_nontrivial": len(acc.nontrivial),
        "rule": "a (format, command, script) whose fault-free transform changes the tree and makes >= 2 file-system calls inside apply()",
        "scripts": len(scripts), "formats": list(kinds), "commands": list(COMMANDS),
        "double_faults": bool(_CFG["double"]),
        "counters": dict(sorted(acc.counters.items())),
        "distinct_outcomes": len(acc.outcomes),
        "outcomes": sorted(acc.outcomes, key=repr)[:120],
        "samples": acc.samples[:3],
        "exhaustive": True,
    }


def replay(ctx, data):
    d = data["first"]
    _CFG.update(windows=(d.get("window", "apply"),), cmds=COMMANDS, double="second" in d)
    SEAM.install()
    acc = par.Acc()
    check_case(d["format"], tuple(d["script"]), acc, _CFG, only=(d["command"], d.get("window", "apply"), d["k"]))
    for sig, det in acc.violations:
        print("  reproduced:", sig, det.get("path"))
    return not any(sig == data["signature"] for sig, _ in acc.violations)
