"""C23 - Checkouts and their master branches stay in step.

Explicit-state search over event sequences on a real world: master branch M (2a,
behind the vfs seam) and two heavy checkouts C1, C2 (branch + repository + tree on
/dev/shm, bound to M).  Events: commit(Ci) (bound or plain, whatever Ci currently
is), commit --local(Ci), commit(M) (directly in the master), update(Ci),
pull(Ci <- M), unbind(Ci), bind(Ci).  Breadth first by layers up to a depth,
states de-duplicated by an abstract key (revision graph reachable from the tips
and tree parents with revisions renamed canonically, tips, bound flags, tree
parents); every transition is executed on the implementation and compared with
an abstract-tips model written from the statement: a bound commit with local ==
master succeeds, records the revision in the master first (order of tip changes
observed through the post_change_branch_tip hook) and leaves both tips equal to
the new revision; with master moved or diverged it is refused and neither branch
changes; a local commit moves only the local branch; update leaves local ==
master; a pull that has something to pull leaves local == master, a diverged
pull is refused without change; commits to M move only M.  Fault part: a fault at
every master-side transport operation of a bound commit (three scenarios): the
local tip may become the new revision only if the master's already is.  Race part
(environment-answer exploration): at every k-th call of the master branch's
lock_write / last_revision_info during a bound commit through C1, a complete bound
commit through C2 is executed first (unless the master is physically locked, when
the second committer would wait): afterwards the master's left-hand history holds
every revision whose commit returned, successful committers' local tips are theirs,
and a refused commit changed neither its local branch nor the master.
"""
import os

from mc import par
from mc.evidence import HarnessError

from . import _c01w as W

ID = "C23"
LEVEL = "model_checking"
TECHNIQUE = "explicit-state breadth-first search over event sequences on real bound branches against an abstract-tips reference model; single-fault enumeration over the master-side operations of a bound commit"

WHO = "Committer <c@example.com>"
NULL = b"null:"

EVENTS2 = [("commit", 1), ("commit", 2), ("local", 1), ("local", 2), ("commitM",), ("update", 1), ("update", 2),
           ("pull", 1), ("pull", 2), ("unbind", 1), ("unbind", 2), ("bind", 1), ("bind", 2)]
EVENTS1 = [("commit", 1), ("local", 1), ("commitM",), ("update", 1), ("pull", 1), ("unbind", 1), ("bind", 1)]


class World:
    def __init__(self):
        from breezy.branch import Branch
        from mc import boot
        from mc import world as mw
        from mc.vfs import new_store
        self.store = new_store()
        self.root = boot.scratch("c23")
        self.murl = self.store.url + "m"
        m = mw.make_branch(self.store.transport("m"), "2a")
        spec = {"fm": mw.F(b"fm-id", b"m0\n"), "f1": mw.F(b"f1-id", b"10\n"), "f2": mw.F(b"f2-id", b"20\n")}
        mw.commit_spec(m, b"r0", [], spec, timestamp=1e9)
        m = Branch.open(self.murl)
        for i in (1, 2):
            m.create_checkout(self.cpath(i), lightweight=False)
        self.snapdir = os.path.join(self.root, "snaps")
        os.mkdir(self.snapdir)
        self.nsnap = 0
        self.dirty = set()
        self.init = self.snapshot()
        self.tiplog = []
        self._hook()

    def _hook(self):
        from breezy.branch import Branch
        w = self

        def tip_changed(params):
            World.current.tiplog.append((params.branch.base, params.new_revid))
        if not getattr(World, "hooked", False):
            Branch.hooks.install_named_hook("post_change_branch_tip", tip_changed, "verif-c23")
            World.hooked = True
        World.current = self

    def cpath(self, i):
        return os.path.join(self.root, "c%d" % i)

    def snapshot(self):
        self.nsnap += 1
        d = os.path.join(self.snapdir, "s%d" % self.nsnap)
        os.mkdir(d)
        for i in (1, 2):
            W.copytree(self.cpath(i), os.path.join(d, "c%d" % i))
        return (self.store.walk(), d)

    def drop(self, snap):
        import shutil
        shutil.rmtree(snap[1], ignore_errors=True)

    def restore(self, snap):
        """Put the world back to a snapshot; a checkout directory is re-copied only if it may have been
        touched since the same snapshot was restored last (events name the checkout they act on)."""
        self.store.hook = None
        self.store.restore(snap[0])
        del self.store.log[:]
        same = getattr(self, "_restored", None) == snap[1]
        for i in (1, 2):
            if not same or i in self.dirty:
                W.copytree(os.path.join(snap[1], "c%d" % i), self.cpath(i))
        self._restored = snap[1]
        self.dirty = set()

    def master(self):
        from breezy.branch import Branch
        return Branch.open(self.murl)

    def tree(self, i):
        from breezy.workingtree import WorkingTree
        return WorkingTree.open(self.cpath(i))

    # -- observation from fresh objects
    def observe(self):
        from breezy.branch import Branch
        m = self.master()
        with m.lock_read():
            mt = m.last_revision_info()
        out = {"M": mt}
        for i in (1, 2):
            b = Branch.open(self.cpath(i))
            with b.lock_read():
                t = b.last_revision_info()
                bound = b.get_bound_location()
            wt = self.tree(i)
            with wt.lock_read():
                parents = tuple(wt.get_parent_ids())
                nconf = len(wt.conflicts())
            out[i] = {"tip": t, "bound": bound is not None, "parents": parents, "conflicts": nconf}
        return out

    def parents_of(self, revid, i=None):
        """Parents of a revision, read from the repository that has it."""
        from breezy.branch import Branch
        for b in ([Branch.open(self.cpath(i))] if i else []) + [self.master(), Branch.open(self.cpath(1)),
                                                                  Branch.open(self.cpath(2))]:
            with b.lock_read():
                if b.repository.has_revision(revid):
                    return tuple(b.repository.get_revision(revid).parent_ids)
        raise HarnessError("revision %r nowhere" % (revid,))


_W = None


def world():
    """The world of this process (a forked worker never reuses its parent's directories)."""
    global _W
    if _W is None or _W.pid != os.getpid():
        _W = World()
        _W.pid = os.getpid()
    return _W


def _frame(e):
    import traceback
    from mc import boot
    last = "?"
    for fs in traceback.extract_tb(e.__traceback__):
        if fs.filename.startswith(boot.REPO):
            last = "%s:%s" % (fs.filename[len(boot.REPO) + 1:], fs.name)
    return last


# ---- the reference model ---------------------------------------------------------------------

class Model:
    """Abstract tips: M tip, per checkout (tip, bound, tree parents), and the revision graph."""

    def __init__(self):
        self.graph = {b"r0": ()}
        self.M = b"r0"
        self.c = {1: {"tip": b"r0", "bound": True, "parents": (b"r0",)},
                  2: {"tip": b"r0", "bound": True, "parents": (b"r0",)}}

    def copy(self):
        m = Model.__new__(Model)
        m.graph = dict(self.graph)
        m.M = self.M
        m.c = {i: dict(v) for i, v in self.c.items()}
        return m

    def ancestors(self, r):
        seen = set()
        todo = [r]
        while todo:
            x = todo.pop()
            if x in seen or x == NULL:
                continue
            seen.add(x)
            todo.extend(self.graph.get(x, ()))
        return seen

    def is_ancestor(self, a, b):
        return a in self.ancestors(b)

    def revno(self, r):
        n = 0
        while r in self.graph:
            n += 1
            ps = self.graph[r]
            if not ps:
                break
            r = ps[0]
        return n

    def key(self):
        """Canonical form: revisions renamed in order of first visit from M, C1, C2."""
        names = {}
        order = []

        def visit(r):
            stack = [r]
            while stack:
                x = stack.pop()
                if x in names:
                    continue
                names[x] = len(names)
                order.append(x)
                for p in reversed(self.graph.get(x, ())):
                    stack.append(p)
        visit(self.M)
        for i in (1, 2):
            visit(self.c[i]["tip"])
            for p in self.c[i]["parents"]:
                visit(p)
        g = tuple(tuple(names[p] for p in self.graph.get(r, ())) for r in order)
        return (names[self.M],
                tuple((names[self.c[i]["tip"]], self.c[i]["bound"], tuple(names[p] for p in self.c[i]["parents"]))
                      for i in (1, 2)), g)


def expected(model, ev, new):
    """-> list of acceptable outcomes, each ('ok'|'refused', model-after) per the statement.
    `new` is the revision id the event would create."""
    out = []
    kind = ev[0]
    if kind == "commitM":
        m = model.copy()
        m.graph[new] = (model.M,)
        m.M = new
        return [("ok", m)]
    i = ev[1]
    c = model.c[i]
    if kind in ("commit", "local"):
        local = kind == "local"
        if local and not c["bound"]:
            return [("refused", model.copy())]
        m = model.copy()
        m.graph[new] = tuple(c["parents"])
        m.c[i]["tip"] = new
        m.c[i]["parents"] = (new,)
        if c["bound"] and not local:
            if c["tip"] == model.M:
                m.M = new
                return [("ok", m)]                      # must succeed, both tips the new revision
            if model.is_ancestor(model.M, c["tip"]):
                # local is merely ahead of an unmoved master: the statement does not say; refusal or a
                # commit that brings both in step are accepted
                m.M = new
                return [("refused", model.copy()), ("ok", m)]
            return [("refused", model.copy())]          # master moved / diverged: refused, nothing changes
        return [("ok", m)]                              # local or unbound commit: only the local branch
    if kind == "update":
        m = model.copy()
        if c["bound"]:
            old = c["tip"]
            m.c[i]["tip"] = model.M                     # local branch equals the master afterwards
            pend = tuple(p for p in c["parents"][1:])
            if not model.is_ancestor(old, model.M) and old not in pend:
                pend = pend + (old,)                    # the pivoted-out local work stays pending in the tree
            pend = tuple(p for p in pend if not model.is_ancestor(p, model.M))
            m.c[i]["parents"] = (model.M,) + pend
        return [("ok", m)]
    if kind == "pull":
        if c["tip"] == model.M or model.is_ancestor(model.M, c["tip"]):
            return [("ok", model.copy())]               # nothing to pull
        if model.is_ancestor(c["tip"], model.M):
            m = model.copy()
            m.c[i]["tip"] = model.M
            m.c[i]["parents"] = (model.M,) + tuple(p for p in c["parents"][1:] if not model.is_ancestor(p, model.M))
            return [("ok", m)]
        return [("refused", model.copy())]              # diverged
    if kind == "bind":
        m = model.copy()
        m.c[i]["bound"] = True
        return [("ok", m)]
    if kind == "unbind":
        m = model.copy()
        m.c[i]["bound"] = False
        return [("ok", m)]
    raise ValueError(ev)


def enabled(model, ev):
    if ev[0] == "bind":
        return not model.c[ev[1]]["bound"]
    if ev[0] == "unbind":
        return model.c[ev[1]]["bound"]
    return True


# ---- executing an event on the implementation ----------------------------------------------------

REFUSALS = ("BoundBranchOutOfDate", "LocalRequiresBoundBranch", "DivergedBranches", "OutOfDateTree")


def execute(w, ev, step):
    """-> (status, exception or None, new revid)"""
    new = b"e%d" % step
    ts = 1e9 + 10 + step
    kind = ev[0]
    del w.tiplog[:]
    if len(ev) > 1:
        w.dirty.add(ev[1])
    try:
        if kind == "commitM":
            m = w.master()
            t = m.create_memorytree()
            with t.lock_write():
                t.put_file_bytes_non_atomic("fm", b"m-%d\n" % step)
                t.commit("m %d" % step, rev_id=new, timestamp=ts, timezone=0, committer=WHO)
        elif kind in ("commit", "local"):
            i = ev[1]
            wt = w.tree(i)
            with open(os.path.join(w.cpath(i), "f%d" % i), "ab") as f:
                f.write(b"%d\n" % step)
            kw = {"local": True} if kind == "local" else {}
            try:
                wt.commit("c %d" % step, rev_id=new, timestamp=ts, timezone=0, committer=WHO, **kw)
            except Exception:
                # put the file back so that a refused commit leaves no pending change behind
                with open(os.path.join(w.cpath(i), "f%d" % i), "rb") as f:
                    data = f.read()
                with open(os.path.join(w.cpath(i), "f%d" % i), "wb") as f:
                    f.write(data[:-len(b"%d\n" % step)])
                raise
        elif kind == "update":
            w.tree(ev[1]).update()
        elif kind == "pull":
            w.tree(ev[1]).pull(w.master())
        elif kind == "bind":
            w.tree(ev[1]).branch.bind(w.master())
        elif kind == "unbind":
            w.tree(ev[1]).branch.unbind()
        else:
            raise ValueError(ev)
    except Exception as e:  # noqa
        return "raised", e, new
    return "ok", None, new


def compare(acc, w, model, ev, step, status, err, new, before_obs, seq):
    """Compare the real outcome with the acceptable model outcomes; returns the model after (or None)."""
    obs = w.observe()
    name = ev[0] + ("" if len(ev) == 1 else "(C)")
    case = {"events": [list(e) for e in seq], "event": list(ev), "step": step,
            "observed": {"M": obs["M"], "C1": obs[1], "C2": obs[2]}, "error": repr(err)[:200] if err else None}
    if status == "raised" and type(err).__name__ not in REFUSALS:
        acc.violation("%s:%s:%s" % (name, type(err).__name__, _frame(err)), case)
        return None
    got = "refused" if status == "raised" else "ok"
    alts = expected(model, ev, new)
    for exp_status, m in alts:
        if exp_status != got:
            continue
        # tips
        mism = None
        if obs["M"][1] != m.M:
            mism = "master-tip"
        elif obs["M"][0] != m.revno(m.M):
            mism = "master-revno"
        else:
            for i in (1, 2):
                if obs[i]["tip"][1] != m.c[i]["tip"]:
                    mism = "local-tip"
                elif obs[i]["tip"][0] != m.revno(m.c[i]["tip"]):
                    mism = "local-revno"
                elif obs[i]["bound"] != m.c[i]["bound"]:
                    mism = "bound-flag"
                elif obs[i]["parents"][:1] != m.c[i]["parents"][:1]:
                    mism = "tree-basis"
                if mism:
                    break
        if mism is None:
            # tree pending merges are taken from the implementation (the statement does not speak of them)
            for i in (1, 2):
                m.c[i]["parents"] = tuple(obs[i]["parents"])
            if got == "ok" and ev[0] in ("commit", "local", "commitM"):
                i = ev[1] if len(ev) > 1 else None
                real_parents = w.parents_of(new, i)
                if real_parents != m.graph[new]:
                    acc.violation("%s:new-revision-parents-differ" % name, dict(case, expected=m.graph[new], got=real_parents))
                    return None
                if ev[0] == "commit" and model.c[ev[1]]["bound"]:
                    # master first, then local
                    bases = [b for b, r in w.tiplog if r == new]
                    mi = [k for k, b in enumerate(bases) if b == w.murl or b.rstrip("/") == w.murl.rstrip("/")]
                    li = [k for k, b in enumerate(bases) if not (b == w.murl or b.rstrip("/") == w.murl.rstrip("/"))]
                    if not mi or not li or min(li) < min(mi):
                        acc.violation("commit(C):local-tip-set-before-master", dict(case, order=bases))
                        return None
            for i in (1, 2):
                if obs[i]["conflicts"]:
                    raise HarnessError("unexpected conflicts in checkout %d after %r" % (i, seq))
            acc.outcomes.add((ev[0], got, type(err).__name__ if err else None))
            return m
        last = (exp_status, mism, m)
    # no acceptable alternative matched
    statuses = [a[0] for a in alts]
    if got not in statuses:
        if got == "refused":
            sig = "%s:refused-although-in-step:%s" % (name, type(err).__name__)
        else:
            sig = "%s:accepted-although-%s" % (name, "master-moved-or-diverged" if ev[0] == "commit" else
                                               "diverged" if ev[0] == "pull" else "not-bound")
    else:
        exp_status, mism, m = last
        what = {"commit": "bound-commit" if model.c[ev[1]]["bound"] else "plain-commit"}.get(ev[0], ev[0]) if len(ev) > 1 else ev[0]
        sig = "%s:%s:%s-wrong" % (what, got, mism)
    acc.violation(sig, dict(case, expected={"M": m.M if alts else None,
                                            "C1": alts[-1][1].c[1], "C2": alts[-1][1].c[2]}))
    return None


def replay_seq(w, seq, report=None):
    """Re-run an event sequence from the initial snapshot; returns the model.  Sequences taken from the
    search have been validated already (a divergence is then a harness error); for fixed scenarios pass
    `report` (an Acc): a violation on the way is reported there and None is returned."""
    w.restore(w.init)
    model = Model()
    acc = par.Acc() if report is None else report
    for step, ev in enumerate(seq, 1):
        status, err, new = execute(w, ev, step)
        model = compare(acc, w, model, ev, step, status, err, new, None, seq[:step])
        if model is None:
            if report is not None:
                return None
            raise HarnessError("replay of validated prefix diverged: %r -> %r" % (seq, acc.violations[:1]))
    return model


def _expand(chunk, fixed=False):
    """For each state (event sequence) run every enabled event; -> (acc, [(seq, key)])"""
    acc = par.Acc()
    w = world()
    succ = []
    for seq, events in chunk:
        model = replay_seq(w, seq, report=(acc if fixed else None))
        if model is None:
            continue
        snap = w.snapshot()
        step = len(seq) + 1
        for ev in events:
            if not enabled(model, ev):
                continue
            w.restore(snap)
            status, err, new = execute(w, ev, step)
            acc.n += 1
            acc.count("transitions")
            m2 = compare(acc, w, model, ev, step, status, err, new, None, seq + (ev,))
            if m2 is None:
                continue
            k = m2.key()
            if k != model.key():
                acc.nt((seq, ev))
            succ.append((seq + (ev,), k))
        w.drop(snap)
        acc.sample({"events": [list(e) for e in seq], "expanded_with": len(events)})
    acc.succ = succ
    return acc


# ---- faults on the master side of a bound commit -----------------------------------------------------

FAULT_SCENARIOS = [
    (),                                                   # first bound commit in a fresh checkout
    (("commitM",), ("update", 1)),                        # after catching up with the master
    (("local", 1), ("commitM",), ("update", 1)),          # merge commit carrying local work to the master
]


def _fault_work(chunk):
    from mc import vfs
    acc = par.Acc()
    w = world()
    for seq in chunk:
        model = replay_seq(w, seq, report=acc)
        if model is None:
            continue                      # the scenario's own prefix already violates the model (reported)
        if not (model.c[1]["bound"] and model.c[1]["tip"] == model.M):
            raise HarnessError("fault scenario is not an in-step bound checkout: %r" % (seq,))
        snap = w.snapshot()
        step = len(seq) + 1
        old = model.M
        k = 0
        total = None
        while True:
            w.restore(snap)
            count = [0]
            hit = []

            def hook(op, k=k):
                i = count[0]
                count[0] += 1
                if i == k:
                    hit.append(op.brief())
                    raise vfs.InjectedFault(op)
            w.store.hook = hook
            try:
                status, err, new = execute(w, ("commit", 1), step)
            finally:
                w.store.hook = None
            if not hit:
                total = count[0]
                break
            acc.n += 1
            obs = w.observe()
            mt, lt = obs["M"][1], obs[1]["tip"][1]
            case = {"scenario": [list(e) for e in seq], "op_index": k, "fault_at": hit[0],
                    "master_tip": mt, "local_tip": lt, "error": repr(err)[:200] if err else None}
            if status == "raised":
                acc.nt((seq, k))
            if lt == new and mt != new:
                acc.violation("bound-commit:fault:local-has-revision-master-has-not", case)
            elif mt not in (old, new) or lt not in (old, new):
                acc.violation("bound-commit:fault:tip-neither-old-nor-new", case)
            elif status == "ok" and not (mt == new and lt == new):
                acc.violation("bound-commit:fault:returned-but-tips-not-new", case)
            else:
                acc.outcomes.add(("fault", status, mt == new, lt == new))
                acc.count("fault:%s:master-%s:local-%s" % (status, "new" if mt == new else "old", "new" if lt == new else "old"))
            k += 1
        acc.count("fault_free_master_ops", total)
        w.drop(snap)
    return acc


# ---- a second committer finishing inside the first committer's commit ---------------------------------

RACE = {"armed": False, "point": None, "k": None, "count": 0, "fired": None, "world": None, "b": None}
RACE_POINTS = ("lock_write", "last_revision_info")
RACE_SCENARIOS = [
    (),
    (("commitM",), ("update", 1), ("update", 2)),
]


def _install_race_hooks(w):
    """Wrap lock_write / last_revision_info of the master's branch class: at the k-th call on a master
    object during committer A's commit, a complete commit through checkout 2 runs first - unless the
    master is physically locked at that moment (the second committer would then simply wait for A)."""
    cls = type(w.master())
    if getattr(cls, "_verif_race", False):
        return
    for point in RACE_POINTS:
        orig = getattr(cls, point)

        def wrapper(self, *a, _orig=orig, _point=point, **kw):
            r = RACE
            if r["armed"] and r["point"] == _point and self.base.rstrip("/") == r["world"].murl.rstrip("/"):
                i = r["count"]
                r["count"] += 1
                if i == r["k"]:
                    r["armed"] = False
                    wld = r["world"]
                    held = [p for p in wld.store.walk("m") if p.endswith("/lock/held")]
                    if held:
                        r["fired"] = "blocked"
                    else:
                        r["fired"] = "ran"
                        tip_log = list(wld.tiplog)
                        r["b"] = execute(wld, ("commit", 2), r["step"] + 1)
                        wld.tiplog[:0] = tip_log
            return _orig(self, *a, **kw)
        setattr(cls, point, wrapper)
    cls._verif_race = True


def _lefthand(w, tip):
    m = w.master()
    with m.lock_read():
        graph = m.repository.get_graph()
        return list(graph.iter_lefthand_ancestry(tip, [NULL]))


def _race_work(chunk):
    acc = par.Acc()
    w = world()
    _install_race_hooks(w)
    for seq, point in chunk:
        model = replay_seq(w, seq, report=acc)
        if model is None:
            continue
        snap = w.snapshot()
        base = w.observe()
        k = 0
        while True:
            w.restore(snap)
            RACE.update(armed=True, point=point, k=k, count=0, fired=None, world=w, b=None, step=len(seq) + 1)
            try:
                status, err, new = execute(w, ("commit", 1), len(seq) + 1)
            finally:
                RACE["armed"] = False
            if RACE["fired"] is None:
                acc.count("race_calls:%s" % point, RACE["count"])
                break
            acc.n += 1
            case = {"scenario": [list(e) for e in seq], "hook_point": point, "call_index": k,
                    "second_committer": RACE["fired"], "first_commit": status,
                    "first_error": repr(err)[:160] if err else None}
            if RACE["fired"] == "blocked":
                acc.count("race_second_committer_waits")
                obs = w.observe()
                if status != "ok" or obs["M"][1] != new or obs[1]["tip"][1] != new:
                    acc.violation("race:first-commit-fails-although-alone", dict(case, master=obs["M"], local=obs[1]["tip"]))
                k += 1
                continue
            bstatus, berr, bnew = RACE["b"]
            case["second_commit"] = bstatus
            case["second_error"] = repr(berr)[:160] if berr else None
            obs = w.observe()
            hist = _lefthand(w, obs["M"][1])
            acc.nt((seq, point, k))
            bad = None
            if status == "raised" and type(err).__name__ not in REFUSALS:
                bad = "race:first-commit:%s:%s" % (type(err).__name__, _frame(err))
            elif bstatus == "raised" and type(berr).__name__ not in REFUSALS:
                bad = "race:second-commit:%s:%s" % (type(berr).__name__, _frame(berr))
            elif bstatus == "ok" and bnew not in hist:
                bad = "race:successful-commit-dropped-from-master-history"
            elif status == "ok" and new not in hist:
                bad = "race:successful-commit-not-in-master-history"
            elif status == "ok" and obs[1]["tip"][1] != new:
                bad = "race:successful-commit-local-tip-wrong"
            elif bstatus == "ok" and obs[2]["tip"][1] != bnew:
                bad = "race:second-commit-local-tip-wrong"
            elif status == "raised" and obs[1]["tip"] != base[1]["tip"]:
                bad = "race:refused-commit-changed-local-branch"
            elif status == "raised" and obs["M"][1] != (bnew if bstatus == "ok" else base["M"][1]):
                bad = "race:refused-commit-changed-master"
            elif obs["M"][0] != len(hist):
                bad = "race:master-revno-inconsistent"
            if bad:
                acc.violation(bad, dict(case, master=obs["M"], master_history=hist, local1=obs[1]["tip"], local2=obs[2]["tip"]))
            else:
                acc.outcomes.add(("race", point, status, type(err).__name__ if err else None, bstatus))
                acc.count("race:%s:first-%s" % (point, status if status == "ok" else type(err).__name__))
            k += 1
        w.drop(snap)
    return acc


# ---- driver --------------------------------------------------------------------------------------------

def search(ctx, events, depth, acc_all, label):
    layer = [()]
    seen = {Model().key()}
    nstates = 1
    per_layer = []
    for d in range(depth):
        items = [(seq, events) for seq in layer]
        accs = par.pmap(_expand, items, seed=ctx.seed, chunks_per_job=4)
        succ = []
        for a in accs:
            succ.extend(a.succ)
            acc_all.merge(a)
        succ.sort(key=lambda s: [events.index(e) for e in s[0]])
        layer = []
        for seq, k in succ:
            if k in seen:
                continue
            seen.add(k)
            layer.append(seq)
        nstates += len(layer)
        per_layer.append(len(layer))
    return nstates, per_layer


def run(ctx):
    acc = par.Acc()
    d2 = ctx.q(4, 6)
    d1 = ctx.q(5, 8)
    n2, layers2 = search(ctx, EVENTS2, d2, acc, "two-checkouts")
    n1, layers1 = search(ctx, EVENTS1, d1, acc, "one-checkout")
    # determinism audit
    a1 = _expand([((("commitM",), ("local", 1)), EVENTS2)], fixed=True)
    a2 = _expand([((("commitM",), ("local", 1)), EVENTS2)], fixed=True)
    if (a1.n, sorted(map(repr, a1.outcomes)), a1.succ) != (a2.n, sorted(map(repr, a2.outcomes)), a2.succ):
        raise HarnessError("non-deterministic transitions")
    facc = par.merge(par.pmap(_fault_work, FAULT_SCENARIOS, seed=ctx.seed, chunks_per_job=1))
    ritems = [(seq, point) for seq in RACE_SCENARIOS for point in RACE_POINTS]
    racc = par.merge(par.pmap(_race_work, ritems, seed=ctx.seed, chunks_per_job=1))
    total = par.merge([acc, facc, racc])
    best = {}
    for sig, d in total.violations:
        k = (len(d.get("events", d.get("scenario", []))), d.get("op_index", 0), len(repr(d)))
        if sig not in best or k < best[sig][0]:
            best[sig] = (k, d)
    for sig in sorted(best):
        ctx.violation(sig, best[sig][1])
    ctx.assumptions += [
        "each actor edits its own file, so updates never produce content conflicts",
        "tree pending merges after update/pull are taken over from the implementation (the statement speaks of branch tips only)",
        "faults are injected at master-side transport operations only (the checkout's own branch and repository are on disk)",
        "race part: the second committer runs to completion at a call boundary of the first committer's master lock_write/last_revision_info; finer interleavings (inside one transport-level step) are not explored",
        "abstract state = reachable revision graph up to renaming, tips, bound flags, tree parents; file contents are not part of the key",
    ]
    trans = acc.counters.get("transitions", 0)
    return {
        "states": n2 + n1,
        "transitions": trans,
        "traces_validated_against_impl": trans,
        "evaluations": total.n,
        "distinct_nontrivial": len(total.nontrivial),
        "rule": "one evaluation = one event executed on the implementation from a reached state and compared with the model; non-trivial = the event changes the abstract state; fault run non-trivial = the commit raised",
        "two_checkout_depth": d2,
        "two_checkout_states": n2,
        "two_checkout_new_states_per_layer": layers2,
        "one_checkout_depth": d1,
        "one_checkout_states": n1,
        "one_checkout_new_states_per_layer": layers1,
        "fault_runs": facc.n,
        "race_runs": racc.n,
        "race_outcomes": {k: v for k, v in racc.counters.items() if k.startswith("race")},
        "fault_outcomes": {k: v for k, v in facc.counters.items() if k.startswith("fault:")},
        "fault_free_master_ops": facc.counters.get("fault_free_master_ops", 0),
        "distinct_outcomes": sorted(map(repr, total.outcomes)),
        "samples": acc.samples[:3],
        "exhaustive": True,
    }


def replay(ctx, data):
    d = data["first"]
    w = world()
    acc = par.Acc()
    if "hook_point" in d:
        a = _race_work([(tuple(tuple(e) for e in d["scenario"]), d["hook_point"])])
        for sig, det in a.violations:
            print("  ", sig, det)
        return not a.violations
    if "scenario" in d:
        a = _fault_work([tuple(tuple(e) for e in d["scenario"])])
        for sig, det in a.violations:
            if det["op_index"] == d["op_index"]:
                print("  ", sig, det)
                return False
        return True
    seq = tuple(tuple(e) for e in d["events"])
    try:
        model = replay_seq(w, seq[:-1])
    except HarnessError as e:
        print("  prefix diverged:", e)
        return False
    status, err, new = execute(w, seq[-1], len(seq))
    m2 = compare(acc, w, model, seq[-1], len(seq), status, err, new, None, seq)
    for sig, det in acc.violations:
        print("  ", sig, det)
    return m2 is not None
