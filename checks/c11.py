"""C11 - Adding files versions exactly the intended paths (smart_add on bzr and git trees).

Enumerates directory layouts over a bounded namespace: f, g.ign, d/ with any subset of
{d/f, d/g.ign}, ign/f, a nested tree sub/ (real control directory of the same kind, with
sub/f), conflict helper files c.BASE/c.THIS/c.OTHER next to c (absent / present without a
conflict record / present with a text-conflict record) x every subset of four ignore rules
(`*.ign`, `ign`, root-anchored `d/f`, exception `!d/g.ign`, written to .bzrignore /
.gitignore) x pre-versioned sets x every argument list of <= 2 existing paths ('.' included)
x recurse in {True, False}, on real 2a and git working trees; each case runs the real
smart_add on a fresh copy.  Oracle: a reference function transcribing the statement: every
named path (ignored or not, helper or not) and its parents are versioned; when recursing every
descendant of a named directory that is not ignored / inside an ignored directory / control
directory / nested tree / recorded conflict helper is versioned; nothing else becomes
versioned; pre-versioned paths keep their identity.  Where the statement is silent (a named
nested tree itself, contents of a NAMED or already VERSIONED ignored directory) both outcomes
are accepted.  git: directories are not versioned, only files are compared.
"""
import itertools
import os
import shutil

from mc import boot, par
from mc.evidence import HarnessError

from . import _treestates as ts

def _cpu():
    import resource
    return round(sum(resource.getrusage(w).ru_utime + resource.getrusage(w).ru_stime
                     for w in (resource.RUSAGE_SELF, resource.RUSAGE_CHILDREN)), 1)


ID = "C11"
LEVEL = "exploration"
TECHNIQUE = "exhaustive enumeration of layouts x ignore-rule subsets x pre-versioned sets x argument lists on real working trees against a reference function"

RULES = ("*.ign", "ign", "d/f", "!d/g.ign")
SPELL = {"bzr": {"*.ign": "*.ign", "ign": "ign", "d/f": "./d/f", "!d/g.ign": "!./d/g.ign"},
         "git": {"*.ign": "*.ign", "ign": "ign", "d/f": "/d/f", "!d/g.ign": "!d/g.ign"}}
IGNFILE = {"bzr": ".bzrignore", "git": ".gitignore"}
HELPERS = ("c.BASE", "c.THIS", "c.OTHER")

_CFG = {}


def layouts(level):
    """Each layout: (files dict path->content, dirs set, nested: bool, helpers: 0 none/1 files/2 recorded)."""
    out = []
    fs = (True,) if level < 2 else (True, False)
    for f, g, d, ign, sub, helpers in itertools.product(
            fs, fs, (None, (), ("f",), ("g.ign",), ("f", "g.ign")), (False, True), (False, True), (0, 1, 2)):
        files, dirs = {}, set()
        if f:
            files["f"] = b"f\n"
        if g:
            files["g.ign"] = b"g\n"
        if d is not None:
            dirs.add("d")
            for n in d:
                files["d/" + n] = b"d\n"
        if ign:
            dirs.add("ign")
            files["ign/f"] = b"i\n"
        if helpers:
            files["c"] = b"c\n"
            for h in HELPERS:
                files[h] = b"h\n"
        out.append({"files": files, "dirs": dirs, "nested": sub, "helpers": helpers})
    if level == 0:
        full = [x for x in out if len(x["files"]) >= 9 and x["nested"] and x["helpers"] == 2]
        rest = [x for x in out if x not in full]
        # quick: the layout with everything present, and the layouts lacking exactly one component
        near = [x for x in rest if (len(x["files"]) >= 8 and x["nested"] and x["helpers"] == 2)
                or (len(x["files"]) >= 9 and (not x["nested"]) and x["helpers"] == 2)
                or (len(x["files"]) >= 9 and x["nested"] and x["helpers"] == 1)]
        return full + near
    return out


def ignored(kind, rules, p):
    """Reference matcher for the four rule shapes (the ignore languages differ: a git rule
    naming a directory also covers everything below it)."""
    name = p.rsplit("/", 1)[-1]
    if "!d/g.ign" in rules and p == "d/g.ign":
        return False
    if "*.ign" in rules and name.endswith(".ign"):
        return True
    if "ign" in rules:
        if name == "ign":
            return True
        if kind == "git" and (p.startswith("ign/")):
            return True
    if "d/f" in rules and p == "d/f":
        return True
    return False


def ancestors(p):
    out = []
    while "/" in p:
        p = p.rsplit("/", 1)[0]
        out.append(p)
    return out


def expected(kind, lay, rules, v0, args, recurse):
    """(required, optional): paths that must / may be versioned after smart_add(args)."""
    files = dict(lay["files"])
    dirs = set(lay["dirs"])
    if rules:
        files[IGNFILE[kind]] = b""
    nested = {"sub"} if lay["nested"] else set()
    if lay["nested"]:
        dirs.add("sub")
        files["sub/f"] = b"s\n"
    recorded = set(HELPERS) if lay["helpers"] == 2 else set()
    allp = set(files) | dirs
    children = {}
    for p in allp:
        children.setdefault(p.rsplit("/", 1)[0] if "/" in p else "", []).append(p)
    req = set(v0)
    for p in v0:
        req.update(ancestors(p))          # git: directories holding versioned files
    opt = set()
    named_dirs = []
    for a in args:
        if a != ".":
            if a in nested:
                opt.add(a)
            else:
                req.add(a)
            req.update(ancestors(a))
        if a == "." or a in dirs:
            named_dirs.append("" if a == "." else a)

    def walk(d, loose):
        """loose: we are below a named/versioned directory that matches an ignore rule."""
        if d in nested:
            return
        for c in sorted(children.get(d, ())):
            if c in req:
                if c in dirs:
                    walk(c, loose or ignored(kind, rules, c))
                continue
            if ignored(kind, rules, c):
                continue
            if c in recorded:
                continue
            if c in nested:
                continue
            (opt if loose else req).add(c)
            if c in dirs:
                walk(c, loose)
    if recurse:
        for d in named_dirs:
            walk(d, d != "" and ignored(kind, rules, d))
    if kind == "git":
        req = {p for p in req if p in files}
        opt = {p for p in opt if p in files}
    return req, opt


def v0_candidates(kind, lay, level):
    fs, ds = lay["files"], lay["dirs"]
    cands = [(), ("f",), ("d", "d/f"), ("ign", "ign/f"), ("d",), ("d", "d/g.ign"), ("ign",), ("f", "g.ign")]
    out = []
    for c in cands:
        if all(p in fs or p in ds for p in c):
            if kind == "git":
                c = tuple(p for p in c if p in fs)
            if c not in out:
                out.append(c)
    return out[:5]


def arg_lists(lay, rules, kind, level):
    names = ["."] + sorted(lay["files"]) + sorted(lay["dirs"]) + (["sub"] if lay["nested"] else [])
    names = [n for n in names if n != "c"]
    out = [(n,) for n in names]
    out += list(itertools.combinations(names, 2))
    if level >= 1:
        out += [(b, a) for a, b in itertools.combinations(names, 2) if a != "." and b != "."][:0]
    return out


# ---- real side ---------------------------------------------------------------------------------

def _templates(kind):
    key = "tmpl-" + kind
    if key not in _CFG:
        from mc import wt as mwt
        base = boot.scratch("c11t")
        outer = os.path.join(base, "outer")
        inner = os.path.join(base, "inner")
        mwt.make_tree(kind, outer)
        mwt.make_tree(kind, inner)
        with open(os.path.join(inner, "f"), "wb") as f:
            f.write(b"s\n")
        _CFG[key] = (outer, inner)
    return _CFG[key]


def prepare(kind, lay, rules, v0, dst):
    from breezy.workingtree import WorkingTree
    outer, inner = _templates(kind)
    shutil.copytree(outer, dst, symlinks=True)
    for d in sorted(lay["dirs"]):
        os.mkdir(os.path.join(dst, d))
    for p, c in lay["files"].items():
        with open(os.path.join(dst, p), "wb") as f:
            f.write(c)
    if lay["nested"]:
        shutil.copytree(inner, os.path.join(dst, "sub"), symlinks=True)
    if rules:
        with open(os.path.join(dst, IGNFILE[kind]), "w") as f:
            for r in RULES:                      # fixed order: the exception rule comes last
                if r in rules:
                    f.write(SPELL[kind][r] + "\n")
    tree = WorkingTree.open(dst)
    pre = list(v0)
    if lay["helpers"] == 2 and "c" not in pre:
        pre.append("c")
    if pre:
        tree.add(sorted(pre, key=lambda p: p.split("/")))
    if lay["helpers"] == 2:
        if kind == "git":
            from breezy.git.workingtree import TextConflict
            tree.set_conflicts([TextConflict("c")])
        else:
            from breezy.bzr.conflicts import TextConflict
            from breezy.conflicts import ConflictList
            tree.set_conflicts(ConflictList([TextConflict("c")]))
    return pre


def versioned(tree, kind):
    with tree.lock_read():
        if kind == "git":
            return {p: None for p, ie in tree.iter_entries_by_dir() if p and ie.kind != "directory"}
        return {p: tree.path2id(p) for p in tree.all_versioned_paths() if p}


def _work(chunk):
    from breezy.workingtree import WorkingTree
    acc = par.Acc()
    acc.best = {}
    level = _CFG["level"]
    for kind, li, rules, v0 in chunk:
        lay = _CFG["layouts"][li]
        prep = boot.scratch("c11")
        os.rmdir(prep)
        try:
            pre = prepare(kind, lay, rules, v0, prep)
        except Exception as e:  # noqa
            raise HarnessError("cannot prepare %r %r %r %r: %r" % (kind, li, rules, v0, e))
        before = versioned(WorkingTree.open(prep), kind)
        for args in arg_lists(lay, rules, kind, level):
            for recurse in (True, False):
                dst = prep + "-x"
                shutil.copytree(prep, dst, symlinks=True)
                tree = WorkingTree.open(dst)
                acc.n += 1
                case = {"tree": kind, "layout": sorted(lay["files"]) + sorted(d + "/" for d in lay["dirs"]) +
                        (["sub/(nested tree)"] if lay["nested"] else []),
                        "helpers": ("none", "files", "recorded conflict")[lay["helpers"]],
                        "ignore_rules": sorted(rules), "pre_versioned": sorted(pre), "args": list(args),
                        "recurse": recurse}
                try:
                    tree.smart_add([os.path.join(dst, a) if a != "." else dst for a in args], recurse=recurse)
                except Exception as e:  # noqa
                    _note(acc, "%s:smart_add:%s:%s" % (kind, type(e).__name__, ts.innermost_repo_frame(e)),
                          dict(case, error=str(e)[:300]))
                    shutil.rmtree(dst, ignore_errors=True)
                    continue
                after = versioned(WorkingTree.open(dst), kind)
                req, opt = expected(kind, lay, rules, before, args, recurse)
                got = set(after)
                missing = sorted(req - got)
                extra = sorted(got - req - opt)
                if missing:
                    _note(acc, "%s:not-versioned:%s" % (kind, classify(kind, lay, rules, missing[0], args, before)),
                          dict(case, missing=missing, versioned_after=sorted(got)))
                if extra:
                    _note(acc, "%s:wrongly-versioned:%s" % (kind, classify(kind, lay, rules, extra[0], args, before)),
                          dict(case, extra=extra, versioned_after=sorted(got)))
                changed = sorted(p for p in before if p in after and before[p] != after[p])
                if changed:
                    _note(acc, "%s:pre-versioned-path-changed-identity" % kind, dict(case, paths=changed))
                if (got - set(before)) and any(p not in got for p in lay["files"]):
                    acc.nt((kind, li, tuple(sorted(rules)), v0, args, recurse))
                acc.outcomes.add(hash((kind, frozenset(got))))
                shutil.rmtree(dst, ignore_errors=True)
        acc.sample({"tree": kind, "layout": sorted(lay["files"]), "rules": sorted(rules), "pre_versioned": sorted(pre)})
        shutil.rmtree(prep, ignore_errors=True)
    return acc


def classify(kind, lay, rules, p, args, before):
    """Abstract description of the path a disagreement is about (for the signature)."""
    bits = []
    if p in args:
        bits.append("named")
    elif any(p.startswith(a + "/") for a in args if a != ".") or "." in args:
        bits.append("descendant")
    else:
        bits.append("unrelated" if not any(a.startswith(p + "/") for a in args) else "parent-of-named")
    if ignored(kind, rules, p):
        bits.append("ignored")
    if any(ignored(kind, rules, a) for a in ancestors(p)):
        bits.append("inside-ignored-dir")
    if p in HELPERS:
        bits.append("conflict-helper" if lay["helpers"] == 2 else "helper-like-file")
    if p == "sub" or p.startswith("sub/"):
        bits.append("nested-tree")
    if p in (".bzrignore", ".gitignore"):
        bits.append("ignore-file")
    return "+".join(bits)


def _note(acc, sig, detail):
    acc.count("violations_raw")
    k = (len(detail["args"]), len(detail["ignore_rules"]), len(detail["pre_versioned"]), len(detail["layout"]),
         repr(detail))
    if sig not in acc.best or k < acc.best[sig][0]:
        acc.best[sig] = (k, detail)


def run(ctx):
    level = ctx.q(0, 1)
    lays = layouts(level)
    _CFG.update(layouts=lays, level=level)
    ts.warm("bzr")
    ts.warm("git")
    items = []
    rule_sets = [frozenset(c) for k in range(len(RULES) + 1) for c in itertools.combinations(RULES, k)]
    for kind in ("bzr", "git"):
        for li, lay in enumerate(lays):
            for rules in rule_sets:
                if ("d/f" in rules or "!d/g.ign" in rules) and "d" not in lay["dirs"]:
                    continue
                if "ign" in rules and "ign" not in lay["dirs"]:
                    continue
                full = len(lay["files"]) >= 9 and lay["nested"] and lay["helpers"] == 2
                if level == 0 and not full and len(rules) not in (0, len(RULES)):
                    continue          # quick: reduced layouts only with no rule / all rules
                if level == 1 and not full and len(rules) not in (0, 1, len(RULES)):
                    continue          # thorough: other layouts with no rule / each single rule / all rules
                v0s = v0_candidates(kind, lay, level)
                if not full:
                    v0s = v0s[:2] if level == 0 else v0s[:3]
                for v0 in v0s:
                    items.append((kind, li, rules, v0))
    raw = par.pmap(_work, items, seed=ctx.seed)
    best = {}
    for a in raw:
        for sig, (k, d) in a.best.items():
            if sig not in best or k < best[sig][0]:
                best[sig] = (k, d)
    acc = par.merge(raw)
    for sig in sorted(best):
        ctx.violation(sig, best[sig][1])
    ctx.assumptions.append("ignore rules are limited to four shapes whose meaning is transcribed in the reference matcher "
                           "(basename glob, directory name, root-anchored path, exception); user-level default ignores do "
                           "not match any name of the namespace")
    ctx.assumptions.append("accepted either way: a named nested tree becoming a versioned directory; contents of an ignored "
                           "directory that was named or is already versioned")
    return {
        "evaluations": acc.n,
        "distinct_nontrivial": len(acc.nontrivial),
        "rule": "a case is non-trivial when smart_add versions at least one new path and leaves at least one existing "
                "file unversioned (an exclusion rule decided something)",
        "layouts": len(lays),
        "ignore_rule_subsets": len(rule_sets),
        "prepared_trees": len(items),
        "distinct_versioned_sets": len(acc.outcomes),
        "samples": acc.samples[:3],
        "cpu_s": _cpu(),
        "exhaustive": True,
    }
