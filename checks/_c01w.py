"""Private helpers for C01 (and C15/C23): working-tree worlds, tree-state op alphabet, by-id dumps."""
import os
import shutil
import stat

from mc import boot
from mc.evidence import HarnessError

ROOT_ID = b"TREE_ROOT"

TEXT0 = b"".join(b"l%d\n" % i for i in range(1, 4))


def F(fid, content, exec=False):
    from mc import world as mw
    return mw.F(fid, content, exec)


def base_spec():
    """The committed tree all prior histories start from: a, d/, d/b, l -> a, x (executable)."""
    from mc import world as mw
    return {
        "a": mw.F(b"a-id", b"a1\n"),
        "d": mw.D(b"d-id"),
        "d/b": mw.F(b"b-id", b"b1\n"),
        "l": mw.L(b"l-id", "a"),
        "x": mw.F(b"x-id", b"x1\n", True),
    }


# ---- by-id dumps --------------------------------------------------------------------

def rev_entries(tree):
    """{file_id: (parent_id, name, kind, content, exec)} of a revision/basis tree (root excluded)."""
    out = {}
    with tree.lock_read():
        for path, ie in tree.iter_entries_by_dir():
            if path == "":
                continue
            if ie.kind == "file":
                c, x = tree.get_file_text(path), bool(tree.is_executable(path))
            elif ie.kind == "symlink":
                c, x = tree.get_symlink_target(path), False
            else:
                c, x = None, False
            out[ie.file_id] = (ie.parent_id, ie.name, ie.kind, c, x)
    return out


def wt_entries(wt):
    """{file_id: (parent_id, name, kind, content, exec)} of a working tree, content from disk.
    A versioned entry whose file is missing on disk has kind None ('missing')."""
    out = {}
    with wt.lock_read():
        root = wt.basedir
        for path, ie in wt.iter_entries_by_dir():
            if path == "":
                continue
            p = os.path.join(root, path)
            try:
                st = os.lstat(p)
            except FileNotFoundError:
                out[ie.file_id] = (ie.parent_id, ie.name, None, None, False)
                continue
            except NotADirectoryError:
                out[ie.file_id] = (ie.parent_id, ie.name, None, None, False)
                continue
            if stat.S_ISLNK(st.st_mode):
                out[ie.file_id] = (ie.parent_id, ie.name, "symlink", os.readlink(p), False)
            elif stat.S_ISDIR(st.st_mode):
                out[ie.file_id] = (ie.parent_id, ie.name, "directory", None, False)
            else:
                with open(p, "rb") as f:
                    out[ie.file_id] = (ie.parent_id, ie.name, "file", f.read(), bool(st.st_mode & stat.S_IXUSR))
    return out


def paths_of(entries, root_id=ROOT_ID):
    """{file_id: path} from by-id entries (None when the parent chain is broken)."""
    out = {}

    def path(fid, seen=()):
        if fid == root_id:
            return ""
        if fid in out:
            return out[fid]
        if fid not in entries or fid in seen:
            return None
        par = path(entries[fid][0], seen + (fid,))
        if par is None:
            p = None
        else:
            p = (par + "/" if par else "") + entries[fid][1]
        out[fid] = p
        return p
    for fid in entries:
        path(fid)
    return out


def inside(path, sel):
    """path is sel or lies under directory sel."""
    return path == sel or sel == "" or path.startswith(sel + "/")


def inside_any(path, sels):
    return any(inside(path, s) for s in sels)


# ---- tree-state operations (applied to a real working tree) ----------------------------

class Inapplicable(Exception):
    pass


def _p(wt, rel):
    return os.path.join(wt.basedir, rel)


def _need(cond):
    if not cond:
        raise Inapplicable()


def _versioned(wt, rel):
    return wt.is_versioned(rel)


def op_write(wt, rel, content):
    p = _p(wt, rel)
    _need(os.path.isfile(p) and not os.path.islink(p) and _versioned(wt, rel))
    with open(p, "rb") as f:
        _need(f.read() != content)
    with open(p, "wb") as f:
        f.write(content)


def op_chmod(wt, rel):
    p = _p(wt, rel)
    _need(os.path.isfile(p) and not os.path.islink(p) and _versioned(wt, rel))
    m = os.lstat(p).st_mode
    os.chmod(p, (m ^ 0o111) & 0o777 if not m & 0o100 else m & 0o666)


def op_addfile(wt, rel, content):
    p = _p(wt, rel)
    _need(not os.path.lexists(p) and os.path.isdir(os.path.dirname(p)) and not _versioned(wt, rel))
    par = os.path.dirname(rel)
    _need(par == "" or _versioned(wt, par))
    with open(p, "wb") as f:
        f.write(content)
    wt.add([rel], ids=[rel.replace("/", "_").encode() + b"-new"])


def op_adddir(wt, rel):
    p = _p(wt, rel)
    _need(not os.path.lexists(p) and os.path.isdir(os.path.dirname(p)) and not _versioned(wt, rel))
    par = os.path.dirname(rel)
    _need(par == "" or _versioned(wt, par))
    os.mkdir(p)
    wt.add([rel], ids=[rel.replace("/", "_").encode() + b"-new"])


def op_addlink(wt, rel, target):
    p = _p(wt, rel)
    _need(not os.path.lexists(p) and os.path.isdir(os.path.dirname(p)) and not _versioned(wt, rel))
    par = os.path.dirname(rel)
    _need(par == "" or _versioned(wt, par))
    os.symlink(target, p)
    wt.add([rel], ids=[rel.replace("/", "_").encode() + b"-new"])


def op_unknown(wt, rel, content):
    """An unversioned file (never selected unless named)."""
    p = _p(wt, rel)
    _need(not os.path.lexists(p) and os.path.isdir(os.path.dirname(p)) and not _versioned(wt, rel))
    with open(p, "wb") as f:
        f.write(content)


def op_remove(wt, rel):
    """Delete from disk and unversion."""
    p = _p(wt, rel)
    _need(os.path.lexists(p) and _versioned(wt, rel))
    wt.remove([rel], keep_files=False, force=True)
    _need(not os.path.lexists(p))


def op_unversion(wt, rel):
    p = _p(wt, rel)
    _need(os.path.lexists(p) and _versioned(wt, rel))
    if os.path.isdir(p) and not os.path.islink(p):
        _need(not os.listdir(p))
    wt.remove([rel], keep_files=True)


def op_delete_on_disk(wt, rel):
    """Remove the file from disk but leave it versioned ('missing')."""
    p = _p(wt, rel)
    _need(os.path.lexists(p) and _versioned(wt, rel))
    if os.path.isdir(p) and not os.path.islink(p):
        shutil.rmtree(p)
    else:
        os.unlink(p)


def op_rename(wt, src, dst):
    ps, pd = _p(wt, src), _p(wt, dst)
    _need(os.path.lexists(ps) and _versioned(wt, src) and not os.path.lexists(pd) and not _versioned(wt, dst))
    par = os.path.dirname(dst)
    _need(os.path.isdir(os.path.dirname(pd)) and (par == "" or _versioned(wt, par)))
    _need(not inside(dst, src))
    wt.rename_one(src, dst)


def op_retarget(wt, rel, target):
    p = _p(wt, rel)
    _need(os.path.islink(p) and _versioned(wt, rel) and os.readlink(p) != target)
    os.unlink(p)
    os.symlink(target, p)


def op_tolink(wt, rel, target):
    """Kind change file -> symlink keeping the file id."""
    p = _p(wt, rel)
    _need(os.path.isfile(p) and not os.path.islink(p) and _versioned(wt, rel))
    os.unlink(p)
    os.symlink(target, p)


def op_tofile(wt, rel, content):
    """Kind change symlink/dir -> file keeping the file id."""
    p = _p(wt, rel)
    _need(os.path.lexists(p) and _versioned(wt, rel))
    if os.path.islink(p):
        os.unlink(p)
    elif os.path.isdir(p):
        _need(not os.listdir(p))
        os.rmdir(p)
    else:
        raise Inapplicable()
    with open(p, "wb") as f:
        f.write(content)


def op_todir(wt, rel):
    p = _p(wt, rel)
    _need(os.path.isfile(p) and not os.path.islink(p) and _versioned(wt, rel))
    os.unlink(p)
    os.mkdir(p)


OPS = {
    "write": op_write, "chmod": op_chmod, "addfile": op_addfile, "adddir": op_adddir, "addlink": op_addlink,
    "unknown": op_unknown, "remove": op_remove, "unversion": op_unversion, "rmdisk": op_delete_on_disk,
    "rename": op_rename, "retarget": op_retarget, "tolink": op_tolink, "tofile": op_tofile, "todir": op_todir,
}


def apply_ops(wt, ops):
    """Apply a sequence of (name, *args); raises Inapplicable when an op's precondition fails."""
    for op in ops:
        try:
            with wt.lock_tree_write():
                OPS[op[0]](wt, *op[1:])
        except Inapplicable:
            raise
        except Exception as e:  # noqa  (tree operations themselves are C09's subject, not this check's)
            raise Inapplicable("%s: %r" % (op, e)) from e


# ---- directory snapshots ------------------------------------------------------------------

def copytree(src, dst):
    if os.path.lexists(dst):
        shutil.rmtree(dst)
    shutil.copytree(src, dst, symlinks=True)


def state_key(wt):
    """Canonical pending state of a working tree: by-id entries + unversioned files."""
    from mc import wt as mwt
    ents = wt_entries(wt)
    snap = mwt.dir_snapshot(wt.basedir)
    with wt.lock_read():
        unv = tuple(sorted((p, v) for p, v in snap.items() if not wt.is_versioned(p)))
    return (tuple(sorted(ents.items())), unv)
