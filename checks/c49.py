"""C49 - Configuration values resolve by location and round-trip through files.

Part 1 (round trip): every value of <= 4 (thorough: 5) tokens over {a ' ' " ' , # = \\n u-umlaut {x}} is
stored with ``Stack.set`` through the real ``GlobalStack`` (breezy.conf) and
``LocationStack`` (locations.conf, section = the location) on real files in a private
BRZ_HOME, between two neighbour options; all stores are dropped and fresh stacks read the
files back.  Oracle: ``get(expand=False)`` returns the value unchanged (or ``set`` refused
with a ConfigObjError), ``get()`` returns it with ``{x}`` replaced by the value of x, the
neighbours and another section are intact.

Part 2 (location resolution): every ordered list of <= 3 section names from a 15-name
alphabet (plain, trailing slash, file:// URL, globs with *, ? and [seq], http URL) x every assignment of
{option defined?, ignore_parents?} per section x 17 locations, through the real
``LocationMatcher`` + ``LocationSection`` + ``Stack.get`` on an ``IniFileStore`` loaded from
the file text.  Oracle (from the statement and `brz help configuration`): sections match
component-wise (each section component globs the location component); the most specific
(most components; ties: either) section defining the option wins; a section with
ignore_parents=true is the last one consulted; {relpath}, {basename} and the appendpath policy are computed from the unmatched tail.  ``StartingPathMatcher``
(unused by breezy itself, store order by contract) is only measured against the same matching
clause; its divergences are counted, not reported as violations.
"""
import itertools
import os

from mc import par
from mc.evidence import HarnessError

from ._sigacc import SigAcc, smallest

ID = "C49"
LEVEL = "exploration"
TECHNIQUE = "exhaustive small-scope enumeration of option values (set/save/reload on real config files) and of location-section sets x locations against a reference resolver"

VAL_TOKENS = ("a", " ", '"', "'", ",", "#", "=", "\n", "ü", "{x}")
SECTION_NAMES = ("/", "/a", "/a/", "/a/b", "/a/*", "/*/b", "/ab", "/a*", "file:///a", "/a/b/c", "/*", "http://h/a",
                 "/a/?", "/a/[bc]", "/a?")
LOCATIONS = ("/", "/a", "/a/", "/b", "/ab", "/a/b", "/a/b/", "/a/ab", "/ab/b", "/a/b/c", "/a/c/b", "/b/b/c",
             "file:///a/b", "file:///ab", "http://h/a", "http://h/a/b", "http://h/ab")


def values(maxlen):
    for k in range(0, maxlen + 1):
        for w in itertools.product(VAL_TOKENS, repeat=k):
            yield "".join(w)


def _exc_sig(e):
    import traceback
    fn = "?"
    for fr in traceback.extract_tb(e.__traceback__):
        if "/breezy/" in fr.filename:
            fn = fr.name
    return "%s:%s" % (type(e).__name__, fn)


def val_class(v):
    """Abstract class of a value for signatures: what makes it hard to store."""
    if "\n" in v:
        return "multiline"
    if '"' in v and "'" in v:
        return "both-quote-kinds"
    cl = []
    if '"' in v or "'" in v:
        cl.append("quote")
    if "#" in v:
        cl.append("hash")
    if "," in v:
        cl.append("comma")
    if v != v.strip(" "):
        cl.append("edge-space")
    if "{x}" in v:
        cl.append("ref")
    if v == "":
        cl.append("empty")
    return "+".join(cl) or "plain"


# ---- part 1 ------------------------------------------------------------------

_W = {}


def _private_home():
    if "home" in _W and _W["pid"] == os.getpid():
        return _W["home"]
    from mc import boot
    home = boot.scratch("c49home")
    os.environ["BRZ_HOME"] = home
    _W.update(home=home, pid=os.getpid())
    return home


def _fresh():
    """Forget every loaded store: the next stack reads the files again."""
    import breezy
    from breezy import config
    if breezy._global_state is not None:
        breezy._global_state.config_stores.clear()
    config._shared_stores.clear()


def _wipe():
    from breezy import bedding
    d = bedding.config_dir()
    for fn in ("breezy.conf", "locations.conf"):
        try:
            os.unlink(os.path.join(d, fn))
        except FileNotFoundError:
            pass


def roundtrip(kind, value, acc):
    from breezy import config
    import configobj
    _wipe()
    _fresh()

    def mk(loc="/a/b"):
        return config.GlobalStack() if kind == "global" else config.LocationStack(loc)
    st = mk()
    detail = {"stack": kind, "value": value}
    try:
        st.set("x", "X")
        st.set("before", "B")
        if kind == "location":
            mk("/other").set("elsewhere", "E")
        try:
            st.set("opt", value)
        except configobj.ConfigObjError:
            acc.count("refused")
            acc.outcomes.add(("refused", val_class(value)))
            return
        st.set("after", "A")
        import breezy
        try:
            for s in list(config._shared_stores.values()) + list(breezy._global_state.config_stores.values()):
                s.save_changes()
        except configobj.ConfigObjError:
            # set() took the value but the store (with every other pending change) cannot be written
            acc.violation("roundtrip:%s:save-fails-after-set-accepted:%s" % (kind, val_class(value)), detail)
            return
    except Exception as e:  # noqa
        acc.violation("roundtrip:%s:set:%s:%s" % (kind, _exc_sig(e), val_class(value)), detail)
        return
    _fresh()
    try:
        st2 = mk()
        got = st2.get("opt", expand=False)
        nb = (st2.get("before"), st2.get("after"), st2.get("x"))
        other = mk("/other").get("elsewhere") if kind == "location" else "E"
        leak = mk("/other").get("opt") if kind == "location" else None
        exp = st2.get("opt")
    except Exception as e:  # noqa
        acc.violation("roundtrip:%s:reload:%s:%s" % (kind, _exc_sig(e), val_class(value)), detail)
        return
    if got != value:
        acc.violation("roundtrip:%s:value-changed:%s" % (kind, val_class(value)), dict(detail, read_back=got))
        return
    if nb != ("B", "A", "X") or other != "E" or leak is not None:
        acc.violation("roundtrip:%s:neighbours-damaged:%s" % (kind, val_class(value)),
                      dict(detail, neighbours=nb, other_section=other, leak=leak))
        return
    if exp != value.replace("{x}", "X"):
        acc.violation("roundtrip:%s:expanded-value-wrong:%s" % (kind, val_class(value)), dict(detail, expanded=exp))
        return
    acc.outcomes.add(("ok", val_class(value)))


def _work1(chunk):
    _private_home()
    acc = SigAcc()
    for kind, value in chunk:
        acc.n += 1
        if val_class(value) != "plain":
            acc.count("nt1")
        roundtrip(kind, value, acc)
        if acc.n <= 2:
            acc.sample({"stack": kind, "value": value})
    return acc


# ---- part 2: reference resolver ------------------------------------------------

def to_path(s):
    if s.startswith("file://"):
        return s[len("file://"):]       # file:///a -> /a (no escapes in the alphabet)
    return s


def comp_match(pat, comp):
    """Glob one path component: * = any run of characters, ? = any one character,
    [seq] / [!seq] = one character (not) in seq, everything else literal."""
    if pat == "":
        return comp == ""
    c = pat[0]
    if c == "*":
        return any(comp_match(pat[1:], comp[i:]) for i in range(len(comp) + 1))
    if c == "?":
        return comp != "" and comp_match(pat[1:], comp[1:])
    if c == "[":
        j = pat.find("]", 2)
        if j > 0:
            seq = pat[1:j]
            neg = seq[0] == "!"
            if neg:
                seq = seq[1:]
            return comp != "" and ((comp[0] in seq) != neg) and comp_match(pat[j + 1:], comp[1:])
    return comp != "" and comp[0] == c and comp_match(pat[1:], comp[1:])


def parts(path):
    return path.rstrip("/").split("/")


def ref_match(section, location):
    """(n components, unmatched tail) when the section matches the location, else None."""
    sp, lp = parts(to_path(section)), parts(to_path(location))
    if len(sp) > len(lp):
        return None
    for s, l in zip(sp, lp):
        if not comp_match(s, l):
            return None
    return len(sp), "/".join(lp[len(sp):])


def ref_orders(matching):
    """Acceptable consultation orders of [(name, n, extra)]: most components first; the statement
    does not rank sections with equally many components, so those may come in any order."""
    groups = {}
    for m in matching:
        groups.setdefault(-m[1], []).append(m)
    seqs = [[]]
    for k in sorted(groups):
        seqs = [s + list(p) for s in seqs for p in itertools.permutations(groups[k])]
    return seqs


def expected(names, content, location):
    """Set of acceptable (opt, ap) results."""
    matching = []
    for n in names:
        m = ref_match(n, location)
        if m is not None:
            matching.append((n, m[0], m[1]))
    out = set()
    for order in ref_orders(matching):
        res = (None, None)
        for name, _, extra in order:
            has, ign = content[name]
            if has:
                tag = "T%d" % names.index(name)
                base = extra.rsplit("/", 1)[-1]
                opt = "%s:%s:%s" % (tag, extra, base)
                if extra:
                    out.add((opt, "http://h/%s/%s" % (tag, extra)))
                else:
                    # nothing to append: with or without a trailing slash is the same URL
                    out.add((opt, "http://h/%s" % tag))
                    out.add((opt, "http://h/%s/" % tag))
                res = None
                break
            if ign:
                # the section that says ignore_parents is the last one consulted
                break
        if res is not None:
            out.add(res)
    return out, [m[0] for m in matching]


def store_text(names, content):
    lines = []
    for i, n in enumerate(names):
        has, ign = content[n]
        # a name containing ']' has to be quoted in the file (ConfigObj syntax)
        lines.append('["%s"]' % n if "]" in n else "[%s]" % n)
        if has:
            lines.append("opt = T%d:{relpath}:{basename}" % i)
            lines.append("ap = http://h/T%d" % i)
            lines.append("ap:policy = appendpath")
        if ign:
            lines.append("ignore_parents = true")
        lines.append("other%d = o" % i)
    return ("\n".join(lines) + "\n").encode()


CONTENT = ((False, False), (True, False), (True, True), (False, True))


def _work2(chunk):
    from breezy import config
    acc = SigAcc()
    for names in chunk:
        for cont in itertools.product(CONTENT, repeat=len(names)):
            content = dict(zip(names, cont))
            text = store_text(names, content)
            store = config.IniFileStore()
            store._load_from_string(text)
            for loc in LOCATIONS:
                acc.n += 1
                want, matching = expected(names, content, loc)
                detail = {"file": text, "location": loc}
                try:
                    matcher = config.LocationMatcher(store, loc)
                    stack = config.Stack([matcher.get_sections], store)
                    got = (stack.get("opt"), stack.get("ap"))
                    ids = [s.id for _, s in matcher.get_sections()]
                except Exception as e:  # noqa
                    acc.violation("location:%s" % _exc_sig(e), detail)
                    continue
                if len(matching) > 1:
                    acc.count("nt2")
                acc.outcomes.add((len(matching), got[0] is None))
                if got in want:
                    continue
                ign_any = any(content[m][1] for m in matching)
                # classify
                if any(w[0] == got[0] for w in want):
                    what = "appendpath-value-wrong"
                elif got[0] is None and ign_any and any(content[m] == (True, True) for m in matching):
                    what = "section-with-ignore_parents-not-consulted"
                elif got[0] is not None and want == {(None, None)} and not matching:
                    what = "value-from-non-matching-section"
                elif got[0] is not None and any(w[0] is not None and w[0].split(":")[0] == got[0].split(":")[0] for w in want):
                    what = "relpath-or-basename-wrong"
                elif got[0] is None:
                    what = "matching-section-not-used"
                else:
                    what = "wrong-section-wins" + ("-with-ignore_parents" if ign_any else "")
                acc.violation("location:%s" % what, dict(detail, got=got, acceptable=sorted(want, key=repr),
                                                        matching_sections=matching, consulted=ids))
    return acc


def _work3(chunk):
    """StartingPathMatcher: which sections match (component-wise clause only)."""
    from breezy import config
    acc = SigAcc()
    for names in chunk:
        content = {n: (True, False) for n in names}
        text = store_text(names, content)
        store = config.IniFileStore()
        store._load_from_string(text)
        for loc in LOCATIONS:
            acc.n += 1
            want = [n for n in names if ref_match(n, loc) is not None]
            try:
                got = [s.id for _, s in config.StartingPathMatcher(store, loc).get_sections()]
            except Exception as e:  # noqa
                acc.violation("startingpath:%s" % _exc_sig(e), {"file": text, "location": loc})
                continue
            if sorted(got) != sorted(want):
                extra = [g for g in got if g not in want]
                what = "matches-by-string-prefix-not-by-component" if extra else "component-wise-match-missed"
                acc.count("startingpath_" + what)
                acc.sample({"startingpath": what, "sections": list(names), "location": loc, "matched": got,
                            "reference": want})
    return acc


def _smallest(violations):
    best = {}
    for sig, d in violations:
        k = len(repr(d))
        if sig not in best or k < best[sig][0]:
            best[sig] = (k, d)
    return [(s, best[s][1]) for s in sorted(best)]


def run(ctx):
    # harness sanity for the reference resolver, from the documented examples
    if (not comp_match("[bc]", "c") or comp_match("[bc]", "a") or comp_match("?", "ab") or not comp_match("a?", "ab")
            or comp_match("[bc]", "[bc]")):
        raise HarnessError("reference component matcher broken")
    if ref_match("/a", "/ab") is not None or ref_match("/a/*", "/a") is not None or ref_match("/a/*", "/a/b/c") != (3, "c"):
        raise HarnessError("reference matcher broken")
    if ref_match("/top/location", "/top/location/branch1") != (3, "branch1"):
        raise HarnessError("reference matcher broken")
    L = ctx.q(4, 5)
    vals = list(values(L))
    items1 = [(k, v) for v in vals for k in ("global", "location")]
    acc1 = par.merge(par.pmap(_work1, items1, seed=ctx.seed, chunks_per_job=2))
    nsec = ctx.q(3, 3)
    lists = [p for k in range(1, nsec + 1) for p in itertools.permutations(SECTION_NAMES, k)]
    acc2 = par.merge(par.pmap(_work2, lists, seed=ctx.seed, chunks_per_job=8))
    lists3 = [p for k in (1, 2) for p in itertools.permutations(SECTION_NAMES, k)]
    acc3 = par.merge(par.pmap(_work3, lists3, seed=ctx.seed))
    ctx.extend(_smallest(acc1.violations + acc2.violations + acc3.violations))
    ctx.assumptions.append("ties between section names with equally many components: either order is accepted; "
                           "a section that says ignore_parents=true is itself still consulted (as the older LocationConfig does)")
    ctx.assumptions.append("option names, norecurse policy, URL escapes in section names and Windows paths are outside the alphabet")
    return {
        "evaluations": acc1.n + acc2.n + acc3.n,
        "values": len(vals), "max_value_tokens": L, "roundtrips": acc1.n, "refused_by_set": acc1.counters.get("refused", 0),
        "section_lists": len(lists), "locations": len(LOCATIONS), "resolutions": acc2.n,
        "startingpath_evaluations": acc3.n,
        "startingpath_divergences": {k: v for k, v in acc3.counters.items() if k.startswith("startingpath_")},
        "startingpath_divergence_samples": acc3.samples[:2],
        "distinct_nontrivial": acc1.counters.get("nt1", 0) + acc2.counters.get("nt2", 0),
        "distinct_outcomes": len(acc1.outcomes) + len(acc2.outcomes),
        "rule": "distinct by construction; non-trivial = value containing a character that needs quoting/escaping; "
                "resolution where more than one section matches the location",
        "samples": acc1.samples[:2] + [{"sections": list(lists[200]), "locations": list(LOCATIONS[:4])}],
        "exhaustive": True,
    }
