"""C16 - Uncommit undoes commit.

Histories: every DAG with 1..n revisions from gen.dags (ordered parents, <= 2
per revision; n = 4 quick / 5 thorough), materialised with real commits in a
real 2a branch + dirstate working tree on /dev/shm (tip = the last revision),
plus a heavy checkout (bound branch) and a lightweight checkout of it.  One
tag per revision, a second tag on the tip and a tag on a ghost revision.

 A  commit -> uncommit: for every DAG x every ordered list of <= 2 pending
    merges taken from the revisions that are not ancestors of the tip x {API on
    the standalone tree, `uncommit` command, API in the bound checkout} x
    keep_tags x (new revision tagged or not) with the working tree holding a
    modified, an added, a renamed and an unknown file; plus every other pending
    change set (none, modify, add, remove, rename, unknown) x {no pending
    merge, one pending merge}: snapshot, WorkingTree.commit,
    breezy.uncommit.uncommit, compare.
 B  depth-k uncommit: for every DAG x tag configuration {all, none (+ each
    single tag: thorough)} x pre-existing pending merge {none, each revision
    outside the tip's ancestry} x {standalone tree, branch only (tree=None),
    command, bound, bound local=True, lightweight checkout} x every revno in
    1..len(mainline) x keep_tags x dry_run.

Oracle (reference computed from the DAG, not from breezy's graph code):
 A  tip, revno, tree parent list (exact, in order), directory snapshot and
    iter_changes equal their values before the commit; tags present before the
    commit are untouched, the tag on the new revision is dropped unless kept.
 B  tip = the requested left-hand ancestor (null for revno 1), revno = revno-1,
    master likewise (untouched tip for local=True); tree parents = [new tip] +
    pending merges where the pending merges are a duplicate-free list drawn
    from (pre-existing pending merges + right-hand parents of the removed
    left-hand revisions) that contains every such revision that is not an
    ancestor of another one or of the new tip (order only checked - exact -
    when a single removed revision contributes and nothing was pending
    before); working files byte-identical; a tag is kept when keep_tags or its
    revision is not in ancestry(old tip) - ancestry(new tip), dropped when the
    revision is removed and not in the ancestry of any resulting tree parent
    (either outcome accepted for revisions that became pending merges); a dry
    run changes nothing.
"""
import contextlib
import io
import itertools
import os
import shutil
import traceback

from mc import boot, gen, par, world, wt
from mc.evidence import HarnessError

ID = "C16"
LEVEL = "exploration"
TECHNIQUE = "exhaustive enumeration of small revision DAGs x tree states x uncommit depths/options on real branches, checkouts and working trees"

NULL = b"null:"
TS = 1_000_000_000.0
WHO = "Committer <c@example.com>"

_W = {}


def workdir():
    if _W.get("pid") != os.getpid():
        _W.clear()
        _W["pid"] = os.getpid()
        _W["dir"] = boot.scratch("c16")
        import breezy.lockdir as ld
        ld._DEFAULT_TIMEOUT_SECONDS = 0     # self-contention on a lock must fail at once, not after 30 s
    return _W["dir"]


def rid(i):
    return gen.revid(i)


def spec_for(i):
    return {"f": world.F(b"f-id", b"f at revision %d\n" % i), "k": world.F(b"k-id", b"k\n"),
            "g%d" % i: world.F(b"g%d-id" % i, b"g\n")}


def all_tags(n):
    d = {"t%d" % i: rid(i) for i in range(n)}
    d["tip2"] = rid(n - 1)
    d["ghost"] = b"ghost-revision"
    return d


def build(dag, W):
    """W/m: standalone tree+branch at the tip; W/c: heavy checkout; W/l: lightweight checkout.  Copied to W/tpl."""
    from breezy.workingtree import WorkingTree
    for d in ("m", "c", "l", "tpl"):
        shutil.rmtree(os.path.join(W, d), ignore_errors=True)
    n = len(dag)
    tree = wt.make_tree("bzr", os.path.join(W, "m"))
    revs = [world.Rev(rid(i), tuple(rid(p) for p in ps), spec_for(i)) for i, ps in enumerate(dag)]
    world.build_history(tree.branch, revs)
    tree = WorkingTree.open(os.path.join(W, "m"))
    tree.update()
    if tree.get_parent_ids() != [rid(n - 1)] or tree.branch.last_revision() != rid(n - 1):
        raise HarnessError("tree not at tip after build: %r" % (tree.get_parent_ids(),))
    with tree.branch.lock_write():
        for k, v in all_tags(n).items():
            tree.branch.tags.set_tag(k, v)
    co = tree.branch.create_checkout(os.path.join(W, "c"), lightweight=False)
    co.branch.repository.fetch(tree.branch.repository)      # pending merges in the checkout must not be ghosts
    tree.branch.create_checkout(os.path.join(W, "l"), lightweight=True)
    os.mkdir(os.path.join(W, "tpl"))
    for d in ("m", "c", "l"):
        shutil.copytree(os.path.join(W, d), os.path.join(W, "tpl", d), symlinks=True)


def full_restore(W, dirs=("m", "c", "l")):
    for d in dirs:
        shutil.rmtree(os.path.join(W, d), ignore_errors=True)
        shutil.copytree(os.path.join(W, "tpl", d), os.path.join(W, d), symlinks=True)


def control_snapshot(W):
    """bytes of every control file outside the repositories, plus repository file names."""
    files, repo = {}, []
    for d in ("m", "c", "l"):
        top = os.path.join(W, d, ".bzr")
        for dp, dns, fns in os.walk(top):
            if os.path.basename(dp) == "repository" and os.path.dirname(dp) == top:
                for dp2, _d2, f2 in os.walk(dp):
                    repo.extend(os.path.join(dp2, x) for x in f2)
                dns[:] = []
                continue
            for fn in fns:
                p = os.path.join(dp, fn)
                with open(p, "rb") as f:
                    files[p] = f.read()
            for dn in dns:
                files[os.path.join(dp, dn) + "/"] = None
    return files, sorted(repo)


def control_restore(W, snap):
    files, repo = snap
    now, repo_now = control_snapshot(W)
    if repo_now != repo:
        return False
    for p in sorted(now, reverse=True):
        if p not in files:
            if p.endswith("/"):
                shutil.rmtree(p, ignore_errors=True)
            elif os.path.exists(p):
                os.unlink(p)
    for p in sorted(files):
        if p.endswith("/"):
            os.makedirs(p, exist_ok=True)
        elif now.get(p) != files[p]:
            with open(p, "wb") as f:
                f.write(files[p])
    return True


def frame(tb):
    repo = os.path.realpath(boot.REPO) + os.sep
    name = "?"
    for fs in traceback.extract_tb(tb):
        if os.path.realpath(fs.filename).startswith(repo):
            name = "%s:%s" % (os.path.relpath(os.path.realpath(fs.filename), repo), fs.name)
    return name


LOC = {"standalone": "m", "notree": "m", "cmd": "m", "bound": "c", "bound-local": "c", "light": "l"}


def do_uncommit(W, variant, revno, keep_tags, dry_run):
    from breezy import uncommit as U
    from breezy.branch import Branch
    from breezy.workingtree import WorkingTree
    loc = os.path.join(W, LOC[variant])
    with contextlib.redirect_stdout(io.StringIO()), contextlib.redirect_stderr(io.StringIO()):
        if variant == "cmd":
            from breezy.builtins import cmd_uncommit
            args = ["--force"]
            if revno is not None:
                args += ["-r", str(revno - 1)]
            if keep_tags:
                args.append("--keep-tags")
            if dry_run:
                args.append("--dry-run")
            c = cmd_uncommit()
            c.outf = io.StringIO()
            c.run_argv_aliases(args + [loc])
        elif variant == "notree":
            U.uncommit(Branch.open(loc), revno=revno, keep_tags=keep_tags, dry_run=dry_run)
        else:
            t = WorkingTree.open(loc)
            U.uncommit(t.branch, tree=t, revno=revno, keep_tags=keep_tags, dry_run=dry_run,
                       local=(variant == "bound-local"))


def observe(W, variant, with_changes=False):
    from breezy.branch import Branch
    from breezy.workingtree import WorkingTree
    loc = os.path.join(W, LOC[variant])
    t = WorkingTree.open(loc)
    o = {"branch": t.branch.last_revision_info(), "tags": dict(t.branch.tags.get_tag_dict()),
         "parents": list(t.get_parent_ids()), "files": wt.dir_snapshot(loc)}
    if with_changes:
        o["changes"] = wt.changes(t)
    m = Branch.open(os.path.join(W, "m"))
    o["master"] = m.last_revision_info()
    o["master_tags"] = dict(m.tags.get_tag_dict())
    return o


# ---- reference --------------------------------------------------------------------

def anc(dag, node):
    return gen.dag_ancestors(dag, node) if node is not None else set()


def node_of(revid, n):
    if revid == NULL or revid is None:
        return None
    if revid.startswith(b"r") and revid[1:].isdigit() and int(revid[1:]) < n:
        return int(revid[1:])
    return "?"


def check_parents(dag, P, new_tip, pre, removed):
    """Returns None or a short reason.  P actual parent ids; new_tip node or None; pre = list of
    pre-existing pending nodes; removed = removed left-hand nodes, oldest first."""
    n = len(dag)
    nodes = [node_of(p, n) for p in P]
    if "?" in nodes:
        return "unknown-revision-in-parents"
    if new_tip is not None:
        if not nodes or nodes[0] != new_tip:
            return "first-parent-is-not-the-new-tip"
        pend = nodes[1:]
    else:
        pend = nodes
    cands = list(pre)
    contrib = []
    for r in removed:
        rp = list(dag[r][1:])
        if rp:
            contrib.append(rp)
        cands.extend(rp)
    if len(set(pend)) != len(pend):
        return "duplicate-pending-merge"
    if not set(pend) <= set(cands):
        return "pending-merge-that-was-never-merged"
    required = set()
    for c in set(cands):
        if c in anc(dag, new_tip):
            continue        # already part of the new tip's history
        if not any(c != o and c in anc(dag, o) for o in set(cands)):
            required.add(c)
    if not required <= set(pend):
        return "merged-revision-not-re-recorded"
    if not pre and len(contrib) == 1 and new_tip is not None:
        # the single merge revision that was removed: its pending list comes back as it was (modulo dropped non-heads)
        exp = [c for c in contrib[0] if c in pend]
        seen = []
        for c in exp:
            if c not in seen:
                seen.append(c)
        if pend != seen:
            return "pending-merge-order"
    return None


def check_tags(dag, before, after, old_tip, new_tip, P, keep_tags):
    n = len(dag)
    removed = anc(dag, old_tip) - anc(dag, new_tip)
    still = set()
    for p in P:
        x = node_of(p, n)
        if isinstance(x, int):
            still |= anc(dag, x)
    for name in after:
        if name not in before:
            return "tag-appeared"
    for name, rev in before.items():
        x = node_of(rev, n)
        must_keep = keep_tags or not isinstance(x, int) or x not in removed
        if must_keep:
            if after.get(name) != rev:
                return "tag-on-surviving-revision-lost" if not keep_tags else "tag-lost-despite-keep-tags"
        elif x not in still:
            if name in after:
                return "tag-on-removed-revision-kept"
        elif name in after and after[name] != rev:
            return "tag-changed"
    return None


# ---- part B -------------------------------------------------------------------------

B_VARIANTS = ("standalone", "notree", "cmd", "bound", "bound-local", "light")


def set_tags(W, tags):
    from breezy.branch import Branch
    for d in ("m", "c"):
        b = Branch.open(os.path.join(W, d))
        with b.lock_write():
            b.tags._set_tag_dict(dict(tags))


def set_pending(W, tip, pre):
    from breezy.workingtree import WorkingTree
    for d in ("m", "c", "l"):
        t = WorkingTree.open(os.path.join(W, d))
        t.set_parent_ids([rid(tip)] + [rid(p) for p in pre])


def part_b(dag, W, acc, thorough):
    n = len(dag)
    tip = n - 1
    mainline = gen.lefthand(dag, tip)
    m = len(mainline)
    others = [x for x in range(n) if x not in anc(dag, tip)]
    tagconfs = [("all", all_tags(n)), ("none", {})]
    if thorough and n <= 4:
        tagconfs += [("only-t%d" % i, {"t%d" % i: rid(i)}) for i in range(n)]
    pres = [()] + [(o,) for o in others]
    if thorough and n <= 4:
        pres += [p for p in itertools.permutations(others, 2)]
    for tname, tags in tagconfs:
        for pre in pres:
            if tname.startswith("only") and pre:
                continue
            full_restore(W)
            if tname != "all":
                set_tags(W, tags)
            if pre:
                set_pending(W, tip, pre)
            snap = control_snapshot(W)
            base_obs = {}
            for variant in B_VARIANTS:
                if variant == "notree" and pre:
                    continue
                if variant not in base_obs:
                    base_obs[variant] = observe(W, variant)
                o0 = base_obs[variant]
                pre_actual = [node_of(p, n) for p in o0["parents"][1:]]
                for r in range(1, m + 1):
                    for keep in (False, True):
                        for dry in (False, True):
                            if dry and (keep or variant in ("cmd", "light")) and not thorough:
                                continue
                            det = {"dag": [list(p) for p in dag], "variant": variant, "revno": r, "keep_tags": keep, "dry_run": dry,
                                   "tags": tname, "pending_before": list(pre), "mainline": mainline}
                            acc.n += 1
                            err = None
                            try:
                                do_uncommit(W, variant, r, keep, dry)
                            except BaseException as e:  # noqa  (pyo3 PanicException derives from BaseException)
                                if isinstance(e, (KeyboardInterrupt, SystemExit, HarnessError)):
                                    raise
                                err = e
                                acc.violation("uncommit:%s:%s:%s" % (type(e).__name__, frame(e.__traceback__), variant),
                                              dict(det, error=str(e)[:400]))
                            o1 = observe(W, variant)
                            if err is None:
                                judge_b(dag, det, o0, o1, pre_actual, acc)
                            depth = m - r + 1
                            removed = mainline[r - 1:]
                            if not dry and (depth > 1 or any(len(dag[x]) > 1 for x in removed)):
                                acc.nt((dag, variant, r, keep, tname, pre))
                            acc.outcomes.add((tuple(o1["parents"]), o1["branch"], tuple(sorted(o1["tags"]))))
                            if depth > 1 and any(len(dag[x]) > 1 for x in removed):
                                acc.sample(det)
                            if o1 != o0:
                                if o1["files"] != o0["files"] or not control_restore(W, snap):
                                    full_restore(W)
                                    if tname != "all":
                                        set_tags(W, tags)
                                    if pre:
                                        set_pending(W, tip, pre)
                                    snap = control_snapshot(W)


def judge_b(dag, det, o0, o1, pre_actual, acc):
    n = len(dag)
    variant, r, keep, dry = det["variant"], det["revno"], det["keep_tags"], det["dry_run"]
    mainline = det["mainline"]
    m = len(mainline)
    V = lambda what, **kw: acc.violation("uncommit:%s:%s" % (what, variant), dict(det, **kw))  # noqa
    if dry:
        if o1 != o0:
            V("dry-run-changed-state", changed=sorted(k for k in o0 if o0[k] != o1[k]))
        return
    new_tip = mainline[r - 2] if r >= 2 else None
    exp_info = (r - 1, rid(new_tip) if new_tip is not None else NULL)
    if o1["branch"][1] != exp_info[1]:
        V("tip-wrong", expected=exp_info, got=o1["branch"])
    elif o1["branch"][0] != exp_info[0]:
        V("revno-wrong", expected=exp_info, got=o1["branch"])
    if variant == "bound":
        if o1["master"] != exp_info:
            V("master-tip-wrong", expected=exp_info, got=o1["master"])
    elif variant == "bound-local":
        if o1["master"] != o0["master"]:
            V("master-moved-by-local-uncommit", before=o0["master"], got=o1["master"])
        if o1["master_tags"] != o0["master_tags"]:
            acc.count("observation:local-uncommit-dropped-tags-in-master")
    removed = mainline[r - 1:]
    if variant == "notree":
        if o1["parents"] != o0["parents"]:
            V("tree-parents-changed-without-tree", before=o0["parents"], got=o1["parents"])
        P_for_tags = [exp_info[1]] if new_tip is not None else []
    else:
        why = check_parents(dag, o1["parents"], new_tip, pre_actual, removed)
        if why:
            V("pending-merges:" + why, got=o1["parents"], removed_mainline=removed)
        P_for_tags = o1["parents"]
    if o1["files"] != o0["files"]:
        V("working-files-changed", changed=sorted(k for k in set(o0["files"]) | set(o1["files"]) if o0["files"].get(k) != o1["files"].get(k)))
    why = check_tags(dag, o0["tags"], o1["tags"], n - 1, new_tip, P_for_tags, keep)
    if why:
        V("tags:" + why, before=o0["tags"], got=o1["tags"])
    if variant == "bound":
        why = check_tags(dag, o0["master_tags"], o1["master_tags"], n - 1, new_tip, P_for_tags, keep)
        if why:
            V("master-tags:" + why, before=o0["master_tags"], got=o1["master_tags"])


# ---- part A -------------------------------------------------------------------------

CHANGES_Q = ("none", "modify", "all+unknown")
CHANGES_T = ("none", "modify", "add", "remove", "rename", "unknown", "all+unknown")
A_VARIANTS = (("standalone", False, True), ("standalone", True, True), ("cmd", False, True),
              ("bound", False, False), ("bound", True, True), ("bound", False, True))


def apply_changes(t, root, ch):
    parts = {"none": (), "all+unknown": ("modify", "add", "rename", "unknown")}.get(ch, (ch,))
    for p in parts:
        if p == "modify":
            with open(os.path.join(root, "f"), "wb") as f:
                f.write(b"f edited in the working tree\n")
        elif p == "add":
            with open(os.path.join(root, "n"), "wb") as f:
                f.write(b"new file\n")
            t.add(["n"], ids=[b"n-id"])
        elif p == "remove":
            t.remove(["k"], keep_files=False, force=True)
        elif p == "rename":
            t.rename_one("k", "k2")
        elif p == "unknown":
            with open(os.path.join(root, "u"), "wb") as f:
                f.write(b"unknown file\n")


def part_a(dag, W, acc, thorough):
    from breezy.workingtree import WorkingTree
    n = len(dag)
    tip = n - 1
    others = [x for x in range(n) if x not in anc(dag, tip)]
    merges = [()] + [(o,) for o in others] + list(itertools.permutations(others, 2))
    # every merge list x every variant with the richest change set; every change set x {no merge, first merge} x plain variant
    cases = [("all+unknown", ml, v) for ml in merges for v in A_VARIANTS]
    for ch in (CHANGES_T if thorough else CHANGES_Q):
        if ch != "all+unknown":
            cases += [(ch, ml, A_VARIANTS[0]) for ml in merges[:2]]
            if thorough:
                cases += [(ch, ml, A_VARIANTS[3]) for ml in merges[:2]]
    for ch, ml, (variant, keep, tagnew) in cases:
        det = {"dag": [list(p) for p in dag], "variant": variant, "changes": ch, "pending_merges": list(ml),
               "keep_tags": keep, "new_revision_tagged": tagnew}
        full_restore(W, ("m", "c") if variant == "bound" else ("m",))
        loc = os.path.join(W, LOC[variant])
        t = WorkingTree.open(loc)
        if ml:
            t.set_parent_ids([rid(tip)] + [rid(x) for x in ml])
        apply_changes(t, loc, ch)
        o0 = observe(W, variant, with_changes=True)
        t = WorkingTree.open(loc)
        with contextlib.redirect_stdout(io.StringIO()), contextlib.redirect_stderr(io.StringIO()):
            t.commit("new", rev_id=b"new", timestamp=TS + 100, timezone=0, committer=WHO, allow_pointless=True)
        t = WorkingTree.open(loc)
        if t.branch.last_revision() != b"new" or t.get_parent_ids() != [b"new"]:
            raise HarnessError("commit did not produce the expected state")
        if tagnew:
            t.branch.tags.set_tag("newtag", b"new")
        acc.n += 1
        try:
            do_uncommit(W, variant, None, keep, False)
        except BaseException as e:  # noqa
            if isinstance(e, (KeyboardInterrupt, SystemExit, HarnessError)):
                raise
            acc.violation("commit-uncommit:%s:%s:%s" % (type(e).__name__, frame(e.__traceback__), variant),
                          dict(det, error=str(e)[:400]))
            continue
        o1 = observe(W, variant, with_changes=True)
        V = lambda what, **kw: acc.violation("commit-uncommit:%s:%s" % (what, variant), dict(det, **kw))  # noqa
        if o1["branch"] != o0["branch"]:
            V("tip-or-revno-not-restored", before=o0["branch"], got=o1["branch"])
        if o1["master"] != o0["master"]:
            V("master-not-restored", before=o0["master"], got=o1["master"])
        if o1["parents"] != o0["parents"]:
            V("parent-list-not-restored", before=o0["parents"], got=o1["parents"])
        if o1["files"] != o0["files"]:
            V("working-files-changed", changed=sorted(k for k in set(o0["files"]) | set(o1["files"])
                                                      if o0["files"].get(k) != o1["files"].get(k)))
        if o1["changes"] != o0["changes"]:
            V("reported-changes-differ", before=o0["changes"], got=o1["changes"])
        for which in ("tags", "master_tags") if variant == "bound" else ("tags",):
            exp = dict(o0[which])
            got = dict(o1[which])
            new = got.pop("newtag", None)
            if got != exp:
                V("%s-changed" % which, before=exp, got=got)
            if tagnew and keep and new != b"new":
                V("%s:tag-lost-despite-keep-tags" % which)
            if tagnew and not keep and new is not None:
                V("%s:tag-on-removed-revision-kept" % which)
        if len(o0["parents"]) > 1 or ch != "none":
            acc.nt((dag, variant, ch, ml, keep, tagnew))
        acc.outcomes.add((tuple(o1["parents"]), repr(o1["changes"])))
        if len(o0["parents"]) > 2:
            acc.sample(det)


@contextlib.contextmanager
def quiet_fd2():
    """breezy's log handler and Rust panics write to file descriptor 2 directly."""
    import sys
    sys.stderr.flush()
    saved = os.dup(2)
    null = os.open(os.devnull, os.O_WRONLY)
    os.dup2(null, 2)
    os.close(null)
    try:
        yield
    finally:
        sys.stderr.flush()
        os.dup2(saved, 2)
        os.close(saved)


def _work(chunk):
    acc = par.Acc()
    W = workdir()
    with quiet_fd2():
        for dag, thorough, parts in chunk:
            build(dag, W)
            if "A" in parts:
                part_a(dag, W, acc, thorough)
            if "B" in parts:
                part_b(dag, W, acc, thorough)
            acc.count("dags")
    for d in ("m", "c", "l", "tpl"):
        shutil.rmtree(os.path.join(W, d), ignore_errors=True)
    return acc


def run(ctx):
    n = ctx.q(4, 5)
    items = [(dag, ctx.thorough, "AB") for dag in gen.dags(n, min_nodes=1)]
    a0 = _work(items[:3])
    a1 = _work(items[:3])
    if (a0.n, a0.violations, sorted(a0.outcomes, key=repr)) != (a1.n, a1.violations, sorted(a1.outcomes, key=repr)):
        raise HarnessError("C16 not deterministic on the first DAGs")
    acc = par.merge(par.pmap(_work, items, seed=ctx.seed, chunks_per_job=8))
    best = {}
    for sig, d in acc.violations:
        k = (len(d["dag"]), sum(len(p) for p in d["dag"]), d.get("revno", 0), len(repr(d)))
        if sig not in best or k < best[sig][0]:
            best[sig] = (k, d)
    for sig in sorted(best):
        ctx.violation(sig, best[sig][1])
    ctx.assumptions.append("bzr 2a branches and dirstate working trees; tip of every history is its last revision; "
                           "lock wait timeout set to 0 so that self-contention surfaces immediately")
    ctx.assumptions.append("tags on revisions that became pending merges of the tree may be kept or dropped (both readings of "
                           "'removed revisions' accepted); tags dropped from the master by a local-only uncommit are counted, not judged")
    cov = {
        "evaluations": acc.n,
        "dags": acc.counters.get("dags", 0),
        "max_revisions": n,
        "distinct_nontrivial": len(acc.nontrivial),
        "distinct_outcomes": len(acc.outcomes),
        "rule": "every DAG with 1..%d revisions; non-trivial = (A) the tree had pending merges or changes when committed, "
                "(B) more than one revision or a merge revision was uncommitted for real" % n,
        "samples": acc.samples[:4],
        "exhaustive": True,
    }
    for k, v in acc.counters.items():
        if k.startswith("observation:"):
            cov[k] = v
    return cov
