"""Private helpers of the history-shaped checks (C21, C22, C25, C51).

Declarative DAGs (``mc.gen.dags``: a tuple of ordered parent tuples, node i may
only have parents < i, the first parent is the left-hand parent) are turned
into real 2a repositories on an ``mc.vfs`` store, and the reference graph
computations used as oracles live here.  The reference functions are written
from the documented definitions (left-hand history, ancestry, merge-sorted
order, depth, dotted revision numbers, reverse-by-depth); none of them calls
breezy.

Ghosts: ``ghosts`` is a set of node numbers that are *not* committed; children
keep referring to them.
"""
from mc import gen, par
from mc import world as mw
from mc.evidence import HarnessError
from mc.vfs import new_store

rid = gen.revid
NULL = b"null:"


def num(revid):
    """b"r3" -> 3 ; anything else is returned unchanged."""
    if isinstance(revid, bytes) and revid[:1] == b"r" and revid[1:].isdigit():
        return int(revid[1:])
    return revid


def connected_dags(nmax, nmin=1, max_parents=2):
    """All DAGs with nmin..nmax nodes whose last node reaches every node."""
    for n in range(nmin, nmax + 1):
        for dag in gen.dags(n, max_parents=max_parents):
            if gen.connected_to_tip(dag):
                yield dag


class Ref:
    """Reference graph computations on a declarative DAG (no breezy involved)."""

    def __init__(self, dag, ghosts=()):
        self.dag = dag
        self.ghosts = frozenset(ghosts)
        self._anc = {}
        self._ms = {}

    def present(self, v):
        return v not in self.ghosts

    def parents(self, v):
        return () if v in self.ghosts else self.dag[v]

    def anc(self, v):
        """Non-ghost ancestors of v, inclusive."""
        if v is None:
            return frozenset()
        r = self._anc.get(v)
        if r is None:
            seen = set()
            todo = [v]
            while todo:
                x = todo.pop()
                if x in seen or x in self.ghosts:
                    continue
                seen.add(x)
                todo.extend(self.dag[x])
            r = self._anc[v] = frozenset(seen)
        return r

    def anc_g(self, v):
        """Ancestors of v inclusive, ghosts counted as (parentless) graph nodes."""
        if v is None:
            return frozenset()
        seen = set()
        todo = [v]
        while todo:
            x = todo.pop()
            if x in seen:
                continue
            seen.add(x)
            if x not in self.ghosts:
                todo.extend(self.dag[x])
        return frozenset(seen)

    def is_ancestor(self, a, b):
        return a in self.anc(b)

    def lefthand(self, v):
        """Left-hand history of v, oldest first; stops at (excludes) a ghost."""
        out = []
        x = v
        while x is not None and x not in self.ghosts:
            out.append(x)
            x = self.dag[x][0] if self.dag[x] else None
        return out[::-1]

    def lefthand_ends_in_ghost(self, v):
        x = v
        while True:
            if x in self.ghosts:
                return True
            if not self.dag[x]:
                return False
            x = self.dag[x][0]

    def left_parent(self, v):
        ps = self.parents(v)
        return ps[0] if ps else None

    def heads(self, nodes):
        nodes = set(nodes)
        return {x for x in nodes if not any(x != y and x in self.anc(y) for y in nodes)}

    def lcas(self, a, b):
        common = self.anc(a) & self.anc(b)
        return self.heads(common), common

    def merge_sort(self, tip):
        """(order newest first, depth, revno, end_of_merge) of tip's ancestry.

        Documented rules: a depth-first walk from the tip that always follows the
        left-hand parent first and stays at the same depth, then the other
        parents one level deeper; a revision is emitted after all its parents
        (the result is that order reversed).  Mainline revisions are numbered
        1..n; the first child (in walk order) whose LEFT parent is p continues
        p's line (last component + 1), every other child of p starts a new line
        (x, k, 1) with x the first component of p's number and k a counter per
        x; additional roots are (0, k, 1).
        """
        if tip in self._ms:
            return self._ms[tip]
        depth = {}
        order = []
        revno = {}
        taken = set()
        first = {}
        count = {}
        import sys
        sys.setrecursionlimit(max(sys.getrecursionlimit(), 10000))

        def visit(v, d):
            if v in depth or v in self.ghosts:
                return
            depth[v] = d
            ps = [p for p in self.dag[v] if p not in self.ghosts]
            if ps:
                if ps[0] not in taken:
                    taken.add(ps[0])
                    first[v] = True
                else:
                    first[v] = False
                visit(ps[0], d)
            for p in ps[1:]:
                visit(p, d + 1)
            if ps:
                pr = revno[ps[0]]
                if first[v]:
                    revno[v] = pr[:-1] + (pr[-1] + 1,)
                else:
                    base = pr[0]
                    count[base] = count.get(base, 0) + 1
                    revno[v] = (base, count[base], 1)
            else:
                rc = count.get(0, -1) + 1
                revno[v] = (0, rc, 1) if rc else (1,)
                count[0] = rc
            order.append(v)

        visit(tip, 0)
        order.reverse()
        r = self._ms[tip] = (order, depth, revno)
        return r

    def lefthand_merger(self, rev, tip):
        """Oldest revision of tip's left-hand history whose ancestry contains rev."""
        for m in self.lefthand(tip):
            if rev in self.anc(m):
                return m
        return None


def reverse_by_depth(seq):
    """Reference for the documented forward order of a merge-sorted (newest
    first) list of (item, depth): revisions of the top depth are reversed; the
    deeper revisions that follow a top-level revision stay attached after it
    and are reversed among themselves by the same rule."""
    if not seq:
        return []
    base = min(d for _, d in seq)
    return _rbd(list(seq), base)


def _rbd(seq, depth):
    groups = []
    lead = []        # deeper items before the first item at this depth
    for it in seq:
        if it[1] == depth:
            groups.append([it])
        elif groups:
            groups[-1].append(it)
        else:
            lead.append(it)
    out = []
    for g in reversed(groups):
        out.append(g[0])
        if len(g) > 1:
            out.extend(_rbd(g[1:], min(d for _, d in g[1:])))
    if lead:
        out.extend(_rbd(lead, min(d for _, d in lead)))
    return out


# ---------------------------------------------------------------------------
# materialisation

GHOST_FMT = b"g%d"


def node_id(ref_or_ghosts, v):
    ghosts = ref_or_ghosts.ghosts if isinstance(ref_or_ghosts, Ref) else ref_or_ghosts
    return GHOST_FMT % v if v in ghosts else rid(v)


def build(dag, ghosts=(), trees=None, fmt="2a", store=None, path="b", shared=False):
    """Commit every non-ghost node of dag into a fresh branch; returns (store, url).

    The branch tip is left at the last committed node.  trees: optional
    {node: tree spec}.  shared=True: the store root holds a shared repository, so
    further branches made with ``mw.make_branch(store.transport(x), fmt)`` see
    the same revisions.
    """
    own = store is None
    if own:
        store = new_store()
        store.logging = False
    ghosts = frozenset(ghosts)
    ref = Ref(dag, ghosts)
    if shared:
        from breezy import controldir
        from breezy.controldir import ControlDir
        f = controldir.format_registry.make_controldir(fmt)
        ControlDir.create(store.url, format=f).create_repository(shared=True)
    b = mw.make_branch(store.transport(path), fmt)
    for i, ps in enumerate(dag):
        if i in ghosts:
            if ps:
                raise HarnessError("a ghost node must not have parents: %r" % (dag,))
            continue
        pids = [node_id(ghosts, p) for p in ps]
        left_ghost = bool(ps) and ps[0] in ghosts
        if left_ghost:
            # world.commit_spec would first move the branch to the (absent) left-hand parent;
            # commit on top of an empty branch instead: the new revision gets revno 1
            with b.lock_write():
                b.set_last_revision_info(0, NULL)
            tree = b.create_memorytree()
            with tree.lock_write():
                tree.set_parent_ids(pids, allow_leftmost_as_ghost=True)
                mw.set_tree_state(tree, (trees or {}).get(i, {}))
                tree.commit("commit %s" % rid(i).decode(), rev_id=rid(i), timestamp=1_000_000_000.0 + i, timezone=0,
                            committer="Committer <c@example.com>", allow_pointless=True)
            continue
        if pids and b.last_revision() != pids[0]:
            # move the branch to the left-hand parent ourselves (world.commit_spec would ask breezy to
            # compute the revno, which it refuses when the left-hand history ends in a ghost)
            with b.lock_write():
                b.set_last_revision_info(len(ref.lefthand(ps[0])), pids[0])
        mw.commit_spec(b, rid(i), pids, (trees or {}).get(i, {}), timestamp=1_000_000_000.0 + i)
    return store, store.url + path + "/"


def set_tip(branch, ref, tip):
    """Point an (unlocked) branch at node tip with the reference revno."""
    with branch.lock_write():
        if tip is None:
            branch.set_last_revision_info(0, NULL)
        else:
            branch.set_last_revision_info(len(ref.lefthand(tip)), rid(tip))


def exc_sig(e, repo_root="/"):
    """'ExcClass@function' with the innermost frame that lies in the breezy tree."""
    import os
    import traceback

    from mc import boot
    root = os.path.realpath(boot.REPO) + os.sep
    fn = "?"
    for fr in traceback.extract_tb(e.__traceback__):
        p = os.path.realpath(fr.filename)
        if p.startswith(root):
            fn = "%s:%s" % (os.path.relpath(p, root), fr.name)
    return "%s@%s" % (type(e).__name__, fn)


def quiet_trace():
    """Discard breezy's debug log (mutter) output in this process: formatting and writing
    ~10^5 debug lines per second dominates otherwise.  Harness-side switch only."""
    from breezy import trace
    trace._trace_handler = None


class Acc(par.Acc):
    """par.Acc that keeps, per signature, the smallest violation (fewest revisions, then shortest
    detail) instead of the first 200 violations of whatever signature: no signature can be crowded
    out by a frequent one, whatever the sharding."""

    def __init__(self):
        super().__init__()
        self._best = {}

    @staticmethod
    def size(detail):
        return (len(detail.get("dag", ())), len(detail.get("ghosts", ())), detail.get("start") is not None,
                len(repr(detail)), repr(detail))

    def violation(self, sig, detail):
        k = self.size(detail)
        cur = self._best.get(sig)
        if cur is None or k < cur[0]:
            self._best[sig] = (k, detail)
            self.violations = [(s_, d) for s_, (_, d) in sorted(self._best.items())]
        self.count("violations_raw")
        self.count("sig:" + sig)


def smallest(violations):
    """One violation per signature (the smallest) out of merged lists."""
    best = {}
    for sig, d in violations:
        k = Acc.size(d)
        if sig not in best or k < best[sig][0]:
            best[sig] = (k, d)
    return [(sig, best[sig][1]) for sig in sorted(best)]
