"""C04 - Pack repositories are crash-atomic.

For each scenario (commit into a repository with 0/1/2 packs, the autopacking
10th commit, fetch of two revisions, pack(), pack(clean_obsolete_packs=True),
for 2a and pack-0.92) the real operation is run once on the logging seam; then
EVERY prefix of its sequence of mutating transport operations - plus torn
variants (0, 1, half, len-1 bytes) of every non-atomic write, which includes each
stream write to pack and index files - is materialised in a fresh store and
examined by fresh objects: the repository opens; the visible revision set is
exactly the old or exactly the new one; every listed revision (revision text,
inventory, every file text, graph index) is readable; the branch tip is visible;
check() is clean; after breaking the crashed process's stale locks one more
commit succeeds and is readable.  Thorough: the follow-up commit is itself
crashed at every prefix (double crash).
"""
from mc import crash, par, repocheck
from mc import world as mw
from mc.evidence import HarnessError
from mc.vfs import new_store

ID = "C04"
LEVEL = "fault_enumeration"
TECHNIQUE = "exhaustive crash-prefix and torn-write enumeration of the recorded transport-op sequence, recovery checked with fresh objects on the real repository code"

FORMATS = ("2a", "pack-0.92")


def spec(i):
    return {"a": mw.F(b"a-id", b"content %d\n" % i), "d": mw.D(b"d-id"), "d/b": mw.F(b"b-id", b"b%d\n" % (i // 3))}


def chain(branch, prefix, n, start=0):
    tip = branch.last_revision()
    for i in range(start, start + n):
        rid = b"%s%d" % (prefix, i)
        mw.commit_spec(branch, rid, [tip] if tip != b"null:" else [], spec(i))
        tip = rid
    return tip


def no_autopack():
    from breezy.bzr import pack_repo

    class _C:
        def __enter__(self):
            self.orig = pack_repo.RepositoryPackCollection._max_pack_count
            pack_repo.RepositoryPackCollection._max_pack_count = lambda s, t: 10 ** 6

        def __exit__(self, *a):
            pack_repo.RepositoryPackCollection._max_pack_count = self.orig
    return _C()


def split_stream(store, b, fmt):
    """Insert two revisions from a source into b's repository in two write groups: first the file
    texts and CHK pages, then inventories and revisions.  Returns the pack names of the first group."""
    src = mw.make_branch(store.transport("src"), fmt)
    with no_autopack():
        chain(src, b"s", 2, start=100)
    source, target = src.repository, b.repository
    with source.lock_read(), target.lock_write():
        names = []
        for group in (("chk_bytes", "texts"), ("inventories", "revisions")):
            target.start_write_group()
            try:
                for vf in group:
                    svf = getattr(source, vf, None)
                    if svf is None:
                        continue
                    getattr(target, vf).insert_record_stream(
                        svf.get_record_stream(sorted(svf.keys()), "unordered", True))
                names.append(target.commit_write_group())
            except BaseException:
                target.abort_write_group()
                raise
    return list(names[0])


def build_scenarios(thorough):
    """Run every scenario fault-free; returns list of dicts with s0, ops, old, new."""
    from breezy.branch import Branch
    out = []
    for fmt in FORMATS:
        scns = []
        for j in (0, 1, 2):
            scns.append(("commit-into-%d-packs" % j, j, "commit"))
        scns += [("autopack-10th-commit", 9, "commit"), ("fetch-2-revisions", 2, "fetch"),
                 ("pack", 3, "pack"), ("pack-clean-obsolete", 3, "packclean"),
                 ("pack-after-autopack-leftovers", 10, "packclean"),
                 # a partial repack as fetch issues it (pack(hint=names returned by commit_write_group)):
                 # of the newest pack of three, and of a pack holding only the texts (+ CHK pages) of
                 # revisions whose inventories/revisions arrived in a later write group (a stream split
                 # over two write groups, as suspend/resume of an incomplete stream produces)
                 ("pack-hint-newest", 3, "packhint"), ("pack-hint-split-stream", 0, "packhint-split")]
        for name, npre, what in scns:
            if what == "packhint-split" and fmt != "2a":
                # (on pack-0.92 repacking a texts-only pack reproduces the same content-named pack and
                # pack() refuses cleanly with "Pack already exists" before writing anything)
                continue
            store = new_store()
            b = mw.make_branch(store.transport("b"), fmt)
            if npre:
                if npre == 10:
                    chain(b, b"r", 10)      # autopack happened: obsolete_packs populated
                else:
                    with no_autopack():
                        chain(b, b"r", npre)
            src_tip = None
            if what == "fetch":
                src = mw.make_branch(store.transport("src"), fmt)
                src.repository.fetch(b.repository)
                with src.lock_write():
                    src.generate_revision_history(b.last_revision())
                src_tip = chain(src, b"s", 2, start=100)
            hint = None
            if what == "packhint":
                with b.repository.lock_read():
                    pc = b.repository._pack_collection
                    pc.ensure_loaded()
                    hint = [pk.name for pk in pc.all_packs()
                            if any(n[1] == (b"r2",) for n in pk.revision_index.iter_all_entries())]
                if len(hint) != 1:
                    raise HarnessError("cannot find the newest pack: %r" % (hint,))
            if what == "packhint-split":
                hint = split_stream(store, b, fmt)
            s0 = store.walk()
            b = Branch.open(store.url + "b")
            with b.repository.lock_read():
                old = frozenset(b.repository.all_revision_ids())
            store.log.clear()
            if what == "commit":
                fn = lambda: chain(Branch.open(store.url + "b"), b"n", 1, start=50)  # noqa
            elif what == "fetch":
                def fn():
                    t = Branch.open(store.url + "b")
                    s = Branch.open(store.url + "src")
                    t.repository.fetch(s.repository, revision_id=src_tip)
            elif what in ("packhint", "packhint-split"):
                fn = lambda: Branch.open(store.url + "b").repository.pack(hint=list(hint))  # noqa
            elif what == "pack":
                fn = lambda: Branch.open(store.url + "b").repository.pack()  # noqa
            else:
                fn = lambda: Branch.open(store.url + "b").repository.pack(clean_obsolete_packs=True)  # noqa
            ops, _, exc = crash.record(store, fn)
            if exc is not None:
                raise HarnessError("fault-free scenario %s/%s failed: %r" % (fmt, name, exc))
            with Branch.open(store.url + "b").repository.lock_read() as r:
                pass
            r = Branch.open(store.url + "b").repository
            with r.lock_read():
                new = frozenset(r.all_revision_ids())
            muts = crash.mutating(ops)
            out.append({"fmt": fmt, "name": name, "s0": s0, "ops": ops, "muts": muts, "old": old, "new": new,
                        "final": store.walk()})
            store.close()
    return out


_SCN = []
_W = {}


def _stores():
    if not _W:
        _W["scratch"] = new_store()
        _W["rec"] = new_store()
        _W["scratch2"] = new_store()
    return _W


def observe(store, scn, acc, label, depth=0):
    """Recovery observation on the state loaded in `store`.  Returns a violation or None."""
    from breezy.branch import Branch
    from breezy.repository import Repository
    where = "%s/%s" % (scn["fmt"], scn["name"])
    det = {"scenario": where, "crash_after_mutating_ops": label[0], "torn_bytes": label[1],
           "next_op": scn["muts"][label[0]].brief() if label[0] < len(scn["muts"]) else None}
    try:
        # the recovering process is a new one: no CHK page survives in a process-wide cache
        from bzrformats import chk_map
        chk_map.clear_cache()
        r = Repository.open(store.url + "b")
        with r.lock_read():
            vis = frozenset(r.all_revision_ids())
    except Exception as e:  # noqa
        return ("reopen-failed:%s" % type(e).__name__, dict(det, error=repr(e)[:300]))
    if vis != scn["old"] and vis != scn["new"]:
        return ("visible-set-neither-old-nor-new", dict(det, visible=sorted(vis), old=sorted(scn["old"]),
                                                          new=sorted(scn["new"])))
    acc.outcomes.add((where, "new" if vis == scn["new"] and scn["new"] != scn["old"] else "old"))
    try:
        repocheck.full_read(r)
    except Exception as e:  # noqa
        return ("listed-revision-unreadable:%s" % type(e).__name__, dict(det, error=repr(e)[:300]))
    try:
        b = Branch.open(store.url + "b")
        tip = b.last_revision()
    except Exception as e:  # noqa
        return ("branch-unreadable:%s" % type(e).__name__, dict(det, error=repr(e)[:300]))
    if tip != b"null:" and tip not in vis:
        return ("branch-tip-not-in-repository", dict(det, tip=tip))
    try:
        probs = repocheck.check_problems(r)
    except Exception as e:  # noqa
        return ("check-raised:%s" % type(e).__name__, dict(det, error=repr(e)[:300]))
    if probs:
        return ("check-not-clean", dict(det, problems=probs))
    if depth:
        return None
    # usability: break stale locks, commit once more, reopen and read
    try:
        repocheck.break_all_locks(store)
        b = Branch.open(store.url + "b")
        chain(b, b"z", 1, start=70)
        r2 = Repository.open(store.url + "b")
        with r2.lock_read():
            vis2 = frozenset(r2.all_revision_ids())
        if vis2 != vis | {b"z70"}:
            return ("followup-commit-changed-visible-set", dict(det, before=sorted(vis), after=sorted(vis2)))
        repocheck.full_read(r2)
    except Exception as e:  # noqa
        return ("followup-commit-failed:%s" % type(e).__name__, dict(det, error=repr(e)[:300]))
    return None


def _work(chunk):
    from breezy.branch import Branch
    acc = par.Acc()
    w = _stores()
    double = chunk and chunk[0][2]
    for si, label, _d in chunk:
        scn = _SCN[si]
        # materialise the crash state: apply the prefix through the real transport
        sc = w["scratch"]
        sc.restore(scn["s0"])
        raw = sc.raw()
        i, k = label
        for op in scn["muts"][:i]:
            crash.apply_op(raw, op)
        if k is not None:
            op = scn["muts"][i]
            crash.apply_op(raw, op, op.data[:k])
        snap = sc.walk()
        rec = w["rec"]
        rec.restore(snap)
        acc.n += 1
        if snap != scn["s0"] and snap != scn["final"]:
            acc.nt((si, label))
        v = observe(rec, scn, acc, label)
        if v:
            acc.violation(v[0], v[1])
            continue
        if double:
            # second crash: break locks, run a follow-up commit with logging, crash it at every prefix
            rec.restore(snap)
            try:
                repocheck.break_all_locks(rec)
                s1 = rec.walk()
                vis = scn["new"] if (scn["fmt"] + "/" + scn["name"], "new") in acc.outcomes and False else None
                rec.log.clear()
                ops2, _, exc = crash.record(rec, lambda: chain(Branch.open(rec.url + "b"), b"y", 1, start=80))
            except Exception as e:  # noqa
                acc.violation("double:setup-failed:%s" % type(e).__name__, {"scenario": scn["name"], "label": label})
                continue
            if exc is not None:
                acc.violation("double:followup-failed:%s" % type(exc).__name__,
                              {"scenario": scn["fmt"] + "/" + scn["name"], "label": label, "error": repr(exc)[:200]})
                continue
            from breezy.repository import Repository
            r = Repository.open(rec.url + "b")
            with r.lock_read():
                new2 = frozenset(r.all_revision_ids())
            old2 = new2 - {b"y80"}
            scn2 = {"fmt": scn["fmt"], "name": scn["name"] + "+commit", "old": old2, "new": new2,
                    "muts": crash.mutating(ops2)}
            for label2, snap2 in crash.crash_states(w["scratch2"], s1, ops2, torn=False):
                rec.restore(snap2)
                acc.n += 1
                acc.count("double_crash_states")
                v = observe(rec, scn2, acc, label2, depth=1)
                if v:
                    acc.violation("double:" + v[0], dict(v[1], first_crash=label))
                    break
    return acc


def run(ctx):
    global _SCN
    _SCN = build_scenarios(ctx.thorough)
    items = []
    per = {}
    for si, scn in enumerate(_SCN):
        labels = [(0, None)]
        for i, op in enumerate(scn["muts"]):
            if op.kind in crash.NON_ATOMIC and op.data:
                for k in crash.torn_lengths(len(op.data)):
                    labels.append((i, k))
            labels.append((i + 1, None))
        per["%s/%s" % (scn["fmt"], scn["name"])] = {"mutating_ops": len(scn["muts"]), "crash_states": len(labels)}
        double = ctx.thorough and scn["name"] in ("commit-into-1-packs", "autopack-10th-commit", "pack-clean-obsolete")
        for lab in labels:
            if double and lab[1] is None:
                items.append((si, lab, True))
            else:
                items.append((si, lab, False))
    # keep double and single items in separate chunks (chunk[0][2] decides)
    singles = [it for it in items if not it[2]]
    doubles = [it for it in items if it[2]]
    accs = par.pmap(_work, singles, seed=ctx.seed)
    if doubles:
        accs += par.pmap(_work, doubles, seed=ctx.seed)
    acc = par.merge(accs)
    best = {}
    for sig, d in acc.violations:
        k = (d.get("crash_after_mutating_ops", 0), d.get("torn_bytes") or 0)
        if sig not in best or k < best[sig][0]:
            best[sig] = (k, d)
    for sig in sorted(best):
        ctx.violation(sig, best[sig][1])
    ctx.assumptions += [
        "crash = prefix of the transport-op sequence; put (temp+rename), mkdir, rename, move, delete are atomic; append/put_non_atomic may be torn; no reordering (no fsync model)",
        "stale locks of the crashed process are broken by the recovering user before the follow-up commit",
    ]
    s = _SCN[3]
    flips = sorted(acc.outcomes)
    return {
        "evaluations": acc.n,
        "distinct_nontrivial": len(acc.nontrivial),
        "rule": "one evaluation = one crash state (op-log prefix or torn write) recovered and observed with fresh objects; non-trivial = state differs from both the initial and the final store content",
        "scenarios": per,
        "outcomes_seen": [list(o) for o in flips],
        "double_crash_states": acc.counters.get("double_crash_states", 0),
        "samples": [{"scenario": s["fmt"] + "/" + s["name"], "mutating_ops": [o.brief() for o in s["muts"]][:40]}],
        "exhaustive": True,
    }
