"""C33 - Search recipes sent to the server describe exactly the intended revisions.

Part A (recipes): every revision DAG with <= n nodes (ordered parent tuples of
length 0..2 over earlier nodes and up to two ghosts), every client-known subset
K (parent map = K with complete parent tuples, optionally with the cached
``null: ()`` entry), every set of known-missing keys (referenced ghosts,
optionally ``null:``).  The recipe is built by the real
``search_result_from_parent_map`` and, for every tip set of <= 2 keys (known,
unknown, ghost or foreign) and every depth in {1,2,3,100}, by the real
``limited_search_result_from_parent_map`` (tip sets of one key only at the largest bound of
the thorough tier: 4 nodes + 2 ghosts), with the client's negative cache = the referenced
ghosts, plus ``null:`` whenever a known root names it (the real client notes ``null:`` missing
after asking for it together with another key), plus - at the smaller bounds - one key noted
missing that the server has by now (ghost filled in since); serialised by the real
``RemoteRepository._serialise_search_recipe``; replayed by the real
``SmartServerRepositoryRequest.recreate_search_from_recipe`` on the full graph
(vcsgraph ``Graph`` over the complete parent map).  Oracle: the count check
passes; the server's included set is K (unlimited) resp. is the set the
client's own knowledge yields for the recipe, a subset of K (depth-limited).

Part B (end to end): the same graphs (smaller bound) stored in real 2a
repositories behind the vfs seam; the serialised recipe is the body of a real
``Repository.get_parent_map`` request object; the decoded response must hold
exactly the requested keys plus their ancestry minus the intended set.
"""
import bz2
import contextlib
import itertools

from mc import par
from mc.evidence import HarnessError

from ._sigacc import SigAcc, smallest

ID = "C33"
LEVEL = "exploration"
TECHNIQUE = "exhaustive enumeration of small revision DAGs x client-known subsets x tips x depths through the real recipe builder, serialiser and server replay"

NULL = b"null:"
FOREIGN = b"zz"          # a key nobody has ever heard of
DEPTHS = (1, 2, 3, 100)  # 100 = breezy.bzr.remote._DEFAULT_SEARCH_DEPTH


def key(x):
    return x if isinstance(x, bytes) else b"r%d" % x


def graphs(n, nghost):
    """All DAGs with exactly n nodes; parents ordered, <= 2, from earlier nodes and
    ghosts g0..g(nghost-1); ghost names are used in order of first appearance."""
    ghosts = [b"g%d" % i for i in range(nghost)]
    choices = []
    for i in range(n):
        cand = list(range(i)) + ghosts
        opts = [()]
        opts += [(p,) for p in cand]
        opts += [(p, q) for p in cand for q in cand if p != q]
        choices.append(opts)
    for d in itertools.product(*choices):
        if nghost > 1:
            order = [p for ps in d for p in ps if isinstance(p, bytes)]
            seen = []
            for g in order:
                if g not in seen:
                    seen.append(g)
            if seen != ghosts[:len(seen)]:
                continue
        yield d


def graph_items(n, nghost):
    """Work items: the choice for the first min(n,3) nodes is fixed per item so that the
    space shards evenly; an item is (n, nghost, prefix)."""
    k = min(n, 3)
    ghosts = [b"g%d" % i for i in range(nghost)]
    choices = []
    for i in range(k):
        cand = list(range(i)) + ghosts
        opts = [()]
        opts += [(p,) for p in cand]
        opts += [(p, q) for p in cand for q in cand if p != q]
        choices.append(opts)
    return [(n, nghost, pre) for pre in itertools.product(*choices)]


def expand_item(item):
    n, nghost, pre = item
    ghosts = [b"g%d" % i for i in range(nghost)]
    choices = [[p] for p in pre]
    for i in range(len(pre), n):
        cand = list(range(i)) + ghosts
        opts = [()]
        opts += [(p,) for p in cand]
        opts += [(p, q) for p in cand for q in cand if p != q]
        choices.append(opts)
    for d in itertools.product(*choices):
        if nghost > 1:
            seen = []
            for ps in d:
                for p in ps:
                    if isinstance(p, bytes) and p not in seen:
                        seen.append(p)
            if seen != ghosts[:len(seen)]:
                continue
        yield d


def full_map(d):
    return {key(i): (tuple(key(p) for p in ps) if ps else (NULL,)) for i, ps in enumerate(d)}


# ---- reference model (from the statement / recipe docstring) ---------------

def ref_walk(start, stop, pm):
    """Keys a replay of (start, stop) includes on graph pm: everything present in pm that
    is reachable from start along parent edges without entering a stop key."""
    seen = set()
    todo = [k for k in start]
    while todo:
        k = todo.pop()
        if k in seen or k in stop or k not in pm:
            continue
        seen.add(k)
        todo.extend(pm[k])
    return seen


def ancestors(keys, pm):
    """(present ancestors incl. keys, ghosts met) in pm; NULL is not followed."""
    seen, ghosts = set(), set()
    todo = list(keys)
    while todo:
        k = todo.pop()
        if k in seen or k in ghosts or k == NULL:
            continue
        if k not in pm:
            ghosts.add(k)
            continue
        seen.add(k)
        todo.extend(pm[k])
    return seen, ghosts


class FakeRepo:
    """What recreate_search_from_recipe needs from a repository: lock_read + get_graph
    (a real vcsgraph Graph; like a real repository it knows null: with no parents)."""

    def __init__(self, pm):
        from vcsgraph.graph import DictParentsProvider, Graph
        pm = dict(pm)
        pm[NULL] = ()      # every real repository answers null: -> ()
        self._g = Graph(DictParentsProvider(pm))

    def lock_read(self):
        return contextlib.nullcontext()

    def get_graph(self):
        return self._g


_S = {}


def _setup():
    if _S:
        return _S
    from breezy.bzr import remote, vf_search
    from breezy.bzr.smart.repository import SmartServerRepositoryRequest
    _S.update(vf=vf_search, req=SmartServerRepositoryRequest(None),
              ser=remote.RemoteRepository._serialise_search_recipe)
    return _S


def send(S, repo, recipe):
    """Serialise with the real client code, replay with the real server code."""
    body = S["ser"](None, ("manual",) + tuple(recipe))
    lines = body.split(b"\n")
    if len(lines) != 3:
        return None, "bad-serialisation", body
    res, err = S["req"].recreate_search_from_recipe(repo, lines)
    if err is not None:
        return None, "count-check-failed", body
    return set(res.get_keys()), None, body


def _exc_sig(e):
    import traceback
    tb = traceback.extract_tb(e.__traceback__)
    fn = "?"
    for fr in tb:
        if "/breezy/" in fr.filename:
            fn = fr.name
    return "%s:%s" % (type(e).__name__, fn)


class _Lazy:
    """Violation detail, materialised only when a violation is recorded."""
    __slots__ = ("kw",)

    def __init__(self, **kw):
        self.kw = kw

    def d(self, **more):
        out = {k: (sorted(v) if isinstance(v, (set, frozenset)) or (k == "known") else v) for k, v in self.kw.items()}
        out.update(more)
        return out


def check_graph(S, d, acc, variants, limited, ident):
    """All K / missing / tips / depth cases for one DAG.  limited = 0/False, or (max number of tip keys,
    missing-keys mode) with mode "all" (every variant below) or "hostile" (only the largest one)."""
    vf = S["vf"]
    full = full_map(d)
    repo = FakeRepo(full)
    nodes = list(full)
    ghosts_all = sorted({p for ps in full.values() for p in ps if p not in full and p != NULL})
    tipcands = nodes + ghosts_all + [FOREIGN]
    max_tips, missing_mode = limited if limited else (0, None)
    tipsets = [frozenset(t) for k in range(1, max_tips + 1) for t in itertools.combinations(tipcands, k)]
    for r in range(len(nodes) + 1):
        for K in itertools.combinations(nodes, r):
            pm = {k: full[k] for k in K}
            Kset = set(K)
            refs = set(itertools.chain.from_iterable(pm.values()))
            gref = [g for g in ghosts_all if g in refs]
            closed = all(p in Kset or p == NULL for p in refs)
            # ---------------- unlimited recipe
            miss_opts = [frozenset(m) for k in range(len(gref) + 1) for m in itertools.combinations(gref, k)]
            cases = [(pm, m) for m in miss_opts]
            if variants and K:
                pmn = dict(pm)
                pmn[NULL] = ()
                cases += [(pmn, m) for m in miss_opts]
                if NULL in refs:
                    # (null: both cached as present and noted missing is not a state a client can be in)
                    cases += [(pm, m | {NULL}) for m in miss_opts]
            for pmap, missing in cases:
                acc.n += 1
                detail = _Lazy(graph=full, known=pmap, missing_keys=missing)
                try:
                    recipe = vf.search_result_from_parent_map(dict(pmap), set(missing))
                    got, err, body = send(S, repo, recipe)
                except Exception as e:  # noqa
                    acc.violation("unlimited:%s" % _exc_sig(e), detail.d())
                    continue
                detail.kw["recipe"] = body
                if not closed or missing:
                    acc.count("nt_unlimited")
                if err:
                    acc.violation("unlimited:%s%s" % (err, ":null-in-missing" if NULL in missing else ""), detail.d())
                    continue
                want = set(pmap)
                # NULL is not a revision: when the client lists it as missing the server still walks
                # it (documented in search_result_from_parent_map); accept both readings for it.
                if got - {NULL} != want - {NULL} or (NULL not in missing and got != want):
                    extra, lost = got - want, want - got
                    acc.violation("unlimited:server-walk-%s" % ("-and-".join(
                        x for x, s in (("extra", extra - {NULL} or (extra and NULL not in missing)), ("missing", lost)) if s) or "differs"),
                        detail.d(server_included=sorted(got)))
                    continue
                acc.outcomes.add(("u", len(recipe[0]), len(recipe[1]), recipe[2]))
                if ident is not None and acc.n <= 3:
                    acc.sample({"graph": full, "known": sorted(pmap), "missing_keys": sorted(missing), "recipe": body})
            # ---------------- depth-limited recipe
            if not limited or not K:
                continue
            pmaps = [pm]
            if variants:
                pmn = dict(pm)
                pmn[NULL] = ()
                pmaps.append(pmn)
            lcases = []
            for pmap in pmaps:
                # What the client's negative cache may hold: the referenced ghosts; null: as well once
                # it was asked for together with another key (RemoteRepository._get_parent_map_rpc answers
                # without it, the caching provider then notes it missing) - possible whenever a known
                # root names it as parent and it is not cached as present; and a key noted missing that
                # the server has by now (a ghost filled in since).
                hostile = frozenset(gref) | ({NULL} if (NULL in refs and NULL not in pmap) else frozenset())
                if missing_mode == "all":
                    mvs = [frozenset(gref)]
                    if hostile not in mvs:
                        mvs.append(hostile)
                    for x in sorted(refs):
                        if x in full and x not in Kset:
                            mvs.append(hostile | {x})
                else:
                    mvs = [hostile]
                lcases.extend((pmap, m) for m in mvs)
            for pmap, missing in lcases:
                for tips in tipsets:
                    for depth in DEPTHS:
                        acc.n += 1
                        acc.count("limited")
                        if missing != frozenset(gref):
                            acc.count("limited_null_or_filled_ghost_noted_missing")
                        detail = _Lazy(graph=full, known=pmap, missing_keys=missing, tips=tips, depth=depth)
                        try:
                            recipe = vf.limited_search_result_from_parent_map(dict(pmap), set(missing), set(tips), depth)
                            got, err, body = send(S, repo, recipe)
                        except Exception as e:  # noqa
                            acc.violation("limited:%s" % _exc_sig(e), detail.d())
                            continue
                        detail.kw["recipe"] = body
                        if err:
                            acc.violation("limited:%s%s" % (err, ":null-in-missing" if NULL in missing else (
                                ":filled-ghost-in-missing" if missing - set(gref) else "")), detail.d())
                            continue
                        intended = ref_walk(set(recipe[0]), set(recipe[1]), pmap)
                        if not got <= set(pmap):
                            acc.violation("limited:server-walk-includes-revision-unknown-to-client",
                                          detail.d(server_included=sorted(got)))
                            continue
                        if got != intended or len(got) != recipe[2]:
                            acc.violation("limited:server-walk-differs-from-client-walk",
                                          detail.d(server_included=sorted(got), client=sorted(intended)))
                            continue
                        if got:
                            acc.count("nt_limited")
                            if got - {NULL} != Kset:
                                acc.count("limited_strict_subset_of_known")
                        acc.outcomes.add(("l", len(recipe[0]), len(recipe[1]), recipe[2]))


def _work(chunk):
    S = _setup()
    acc = SigAcc()
    for item, variants, limited in chunk:
        for d in expand_item(item):
            acc.count("graphs")
            check_graph(S, d, acc, variants, limited, item)
    return acc


# ---- part B: real repositories, real request object ------------------------

def build_repo(store, name, full):
    from breezy.revision import Revision
    from bzrformats.inventory import Inventory, InventoryDirectory
    from mc import world as mw
    b = mw.make_branch(store.transport(name), "2a")
    repo = b.repository
    with repo.lock_write():
        repo.start_write_group()
        try:
            for i, (revid, parents) in enumerate(full.items()):
                inv = Inventory(None, revid)
                inv.add(InventoryDirectory(b"TREE_ROOT", "", None, revid))
                ps = [p for p in parents if p != NULL]
                rev = Revision(revid, parent_ids=ps, committer="C <c@example.com>", message="m",
                               timestamp=1e9 + i, timezone=0, properties={}, inventory_sha1=None)
                repo.add_revision(revid, rev, inv)
                repo.texts.add_lines((b"TREE_ROOT", revid), [], [])
        except BaseException:
            repo.abort_write_group()
            raise
        repo.commit_write_group()


def decode_response(resp):
    """{key: parents tuple | 'missing'} from a get_parent_map response body."""
    coded = bz2.decompress(resp.body)
    out = {}
    if coded == b"":
        return out
    for line in coded.split(b"\n"):
        d = tuple(line.split())
        if d[0].startswith(b"missing:"):
            out[d[0][8:]] = "missing"
        else:
            out[d[0]] = d[1:] if len(d) > 1 else (NULL,)
    return out


def _work_b(chunk):
    from breezy.bzr.smart.repository import SmartServerRepositoryGetParentMap
    from mc.vfs import new_store
    S = _setup()
    vf = S["vf"]
    acc = SigAcc()
    for d in chunk:
        full = full_map(d)
        store = new_store()
        build_repo(store, "r", full)
        backing = store.transport("")
        nodes = list(full)
        ghosts_all = sorted({p for ps in full.values() for p in ps if p not in full and p != NULL})
        reqsets = [frozenset(t) for k in (1, 2) for t in itertools.combinations(nodes + ghosts_all, k)]
        acc.count("repositories")
        for r in range(len(nodes) + 1):
            for K in itertools.combinations(nodes, r):
                pm = {k: full[k] for k in K}
                refs = set(itertools.chain.from_iterable(pm.values()))
                gref = {g for g in ghosts_all if g in refs}
                for wanted in reqsets:
                    if wanted & set(K):
                        continue      # the caching provider never asks for a key it has
                    recipes = [("unlimited", None, vf.search_result_from_parent_map(dict(pm), set(gref)))]
                    if K:
                        for depth in (1, 2, 100):
                            recipes.append(("limited", depth, vf.limited_search_result_from_parent_map(
                                dict(pm), set(gref) | ({NULL} if NULL in refs else set()), set(wanted), depth)))
                    for kind, depth, recipe in recipes:
                        acc.n += 1
                        body = S["ser"](None, ("manual",) + tuple(recipe))
                        detail = {"graph": full, "known": sorted(K), "requested": sorted(wanted), "kind": kind,
                                  "depth": depth, "recipe": body}
                        req = SmartServerRepositoryGetParentMap(backing, "/")
                        try:
                            first = req.execute(b"r", b"include-missing:", *sorted(wanted))
                            resp = req.do_body(body) if first is None else first
                        except Exception as e:  # noqa
                            acc.violation("e2e:%s:%s" % (kind, _exc_sig(e)), detail)
                            continue
                        if not resp.is_successful():
                            acc.violation("e2e:%s:request-refused:%s" % (kind, resp.args[0].decode()), detail)
                            continue
                        got = decode_response(resp)
                        if kind == "unlimited":
                            seen = set(K)
                        else:
                            seen = ref_walk(set(recipe[0]), set(recipe[1]), pm)
                        anc, gh = ancestors(wanted, full)
                        want = {k: full[k] for k in anc if k not in seen or k in wanted}
                        want.update({g: "missing" for g in gh})
                        if K and anc & set(K):
                            acc.count("nt_e2e")
                        if got != want:
                            resent = sorted(k for k in got if k in seen and k not in wanted)
                            lost = sorted(k for k in want if k not in got)
                            what = "resends-known-revisions" if resent else (
                                "omits-revisions" if lost else "differs")
                            acc.violation("e2e:%s:response-%s" % (kind, what),
                                          dict(detail, response=got, expected=want))
                            continue
                        acc.outcomes.add((kind, len(got)))
        store.close()
    return acc


def _smallest(violations):
    best = {}
    for sig, d in violations:
        k = (len(d.get("graph", ())), len(d.get("known", ())), len(repr(d)))
        if sig not in best or k < best[sig][0]:
            best[sig] = (k, d)
    return [(s, best[s][1]) for s in sorted(best)]


def plan(ctx):
    """[(n, nghost, variants, limited, max_tips, missing_mode)] for part A."""
    if ctx.thorough:
        return [(n, 2, True, True, 2, "all") for n in range(1, 4)] + [
            (4, 2, True, True, 1, "hostile"), (4, 1, False, True, 2, "all"),
            (5, 1, True, False, 0, None), (5, 2, False, False, 0, None), (6, 0, False, False, 0, None)]
    return [(n, 2, True, True, 2, "all") for n in range(1, 4)] + [
        (4, 2, True, False, 0, None), (4, 1, False, True, 2, "hostile"), (5, 1, False, False, 0, None)]


def run(ctx):
    S = _setup()
    # determinism audit: first graphs twice
    for d in itertools.islice(graphs(3, 1), 25):
        a1, a2 = SigAcc(), SigAcc()
        check_graph(S, d, a1, True, (2, "all"), None)
        check_graph(S, d, a2, True, (2, "all"), None)
        if (a1.n, a1.outcomes, a1.counters, a1.violations) != (a2.n, a2.outcomes, a2.counters, a2.violations):
            raise HarnessError("non-deterministic result for graph %r" % (d,))
    items = []
    bounds = []
    for n, ng, variants, limited, max_tips, mmode in plan(ctx):
        its = graph_items(n, ng)
        items.extend((it, variants, (max_tips, mmode) if limited else 0) for it in its)
        bounds.append({"nodes": n, "ghosts": ng, "null_variants": variants, "depth_limited": bool(limited),
                       "max_tip_keys": max_tips if limited else None, "limited_missing_keys": mmode})
    acc = par.merge(par.pmap(_work, items, seed=ctx.seed, chunks_per_job=8))
    if ctx.thorough:
        b_plan = [(1, 2), (2, 2), (3, 2), (4, 0)]
    else:
        b_plan = [(1, 1), (2, 1), (3, 1)]
    b_items = [d for n, g in b_plan for d in graphs(n, g)]
    accb = par.merge(par.pmap(_work_b, b_items, seed=ctx.seed, chunks_per_job=8))
    ctx.extend(_smallest(acc.violations + accb.violations))
    ctx.assumptions.append("server graph = the full graph (no ghost is filled in between the client's requests and the replay)")
    ctx.assumptions.append("part A replays against a vcsgraph Graph over the full parent map (what Repository.get_graph() "
                           "provides); part B uses real 2a repositories through the real get_parent_map request object")
    nt = acc.counters.get("nt_unlimited", 0) + acc.counters.get("nt_limited", 0) + accb.counters.get("nt_e2e", 0)
    return {
        "evaluations": acc.n + accb.n,
        "recipes_replayed": acc.n,
        "limited_recipes": acc.counters.get("limited", 0),
        "limited_nonempty": acc.counters.get("nt_limited", 0),
        "limited_strict_subset_of_known": acc.counters.get("limited_strict_subset_of_known", 0),
        "limited_null_or_filled_ghost_noted_missing": acc.counters.get("limited_null_or_filled_ghost_noted_missing", 0),
        "graphs": acc.counters.get("graphs", 0),
        "e2e_requests": accb.n,
        "e2e_repositories": accb.counters.get("repositories", 0),
        "distinct_nontrivial": nt,
        "distinct_outcomes": len(acc.outcomes) + len(accb.outcomes),
        "rule": "cases are distinct by construction (graph, known set, parent-map variant, missing keys, tips, depth); "
                "non-trivial = unlimited recipe whose known set is not ancestry-closed or has known-missing keys (a stop key "
                "or ghost matters), limited recipe whose walk is non-empty, end-to-end request whose ancestry meets the known set",
        "bounds": bounds,
        "e2e_bounds": {"nodes_ghosts": [list(x) for x in b_plan], "requested": "<=2 keys not known", "depths": [1, 2, 100]},
        "tips": "every set of <= max_tip_keys keys over nodes + ghosts + one foreign key", "depths": list(DEPTHS),
        "samples": acc.samples[:3],
        "exhaustive": True,
    }
