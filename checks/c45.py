"""C45 - End-of-line filters round-trip canonical content.

Part A (filters): every byte string up to 6 (thorough 8) bytes over {CR, LF, NUL, 'a'} x
each of the 7 eol settings, filter stacks obtained through the real registry
(filters._get_filter_stack_for((('eol', value),))) and applied with the real
filtered_output_bytes / filtered_input_file, content given as one chunk and as every
two-chunk split.  Oracle: content in canonical repository form for the setting [exact:
anything; native/lf/crlf: no NUL and no CRLF pair; *-with-crlf-in-repo: no NUL and every
LF preceded by CR] satisfies input(output(s)) == s; content with a NUL is returned
unchanged by both directions; the result does not depend on the chunking.
Part B (trees): every byte string up to 4 (thorough 6) bytes is written to 8 files
(one per setting selected by a real per-user rules file '[name *.<setting>] eol = ...',
plus one without a rule) of a real format-2a working tree and committed; the branch is
then checked out afresh (sprout; thorough: also a lightweight checkout).  For every file
whose stored text is canonical: the fresh tree reads back exactly the stored text, its
sha1 equals the stored sha1 and iter_changes against the basis does not list it; a file
with a NUL has byte-identical content on disk and is not listed either.
"""
import hashlib
import itertools
import os
import shutil
from io import BytesIO

from mc import boot, par, wt
from mc.evidence import HarnessError

from . import _u5

ID = "C45"
LEVEL = "exploration"
TECHNIQUE = "exhaustive small-alphabet content enumeration x all eol settings on the real filters and on real checkouts"

SETTINGS = ("exact", "native", "lf", "crlf", "native-with-crlf-in-repo", "lf-with-crlf-in-repo",
            "crlf-with-crlf-in-repo")
ALPHA = (b"a", b"\n", b"\r", b"\x00")
BATCH = 16


def canonical(setting, s):
    """Is s in the canonical repository form of the setting (from brz help eol)?"""
    if setting in ("exact", None):
        return True
    if b"\x00" in s:
        return False
    if setting.endswith("-with-crlf-in-repo"):
        return all(i > 0 and s[i - 1:i] == b"\r" for i in range(len(s)) if s[i:i + 1] == b"\n")
    return b"\r\n" not in s


def shape(s):
    """Abstract class of a content for signatures."""
    if b"\x00" in s:
        return "binary"
    if b"\r\r\n" in s:
        return "text-with-CR-before-CRLF"
    if b"\r" in s.replace(b"\r\n", b""):
        return "text-with-lone-CR"
    return "text"


def conv(e):
    """Abstract class of a setting for signatures (POSIX: native == lf)."""
    if e in ("exact", "none", None):
        return "no-conversion"
    repo = "crlf-in-repo" if e.endswith("-with-crlf-in-repo") else "lf-in-repo"
    return repo + ("/crlf-checkout" if e.startswith("crlf") else "/lf-checkout")


def strings(maxlen):
    for k in range(0, maxlen + 1):
        for w in itertools.product(ALPHA, repeat=k):
            yield b"".join(w)


def _stack(setting):
    from breezy import filters
    return filters._get_filter_stack_for((("eol", setting),))


def _filter_work(chunk):
    from breezy import filters
    acc = par.Acc()
    vs = _u5.SmallestViolations(acc)
    stacks = {e: _stack(e) for e in SETTINGS}
    for s in chunk:
        for e in SETTINGS:
            acc.n += 1
            st = stacks[e]
            inp = {"content": s, "eol": e}
            try:
                out = b"".join(filters.filtered_output_bytes([s], st, None))
                f, size = filters.filtered_input_file(BytesIO(out), st)
                back = f.read()
                rd = filters.filtered_input_file(BytesIO(s), st)[0].read()
            except Exception as ex:  # noqa
                vs.add("filters:%s:%s" % (type(ex).__name__, _u5.innermost_repo_frame(ex, boot.REPO)),
                       dict(input=inp, error=repr(ex)))
                continue
            can = canonical(e, s)
            acc.outcomes.add((e, can, shape(s), out == s, back == s))
            if size != len(back):
                vs.add("filtered_input_file:size-differs-from-content", dict(input=inp, size=size, length=len(back)))
            if b"\x00" in s:
                acc.count("binary")
                if out != s:
                    vs.add("output-filter:binary-content-converted:" + e, dict(input=inp, written=out))
                if rd != s:
                    vs.add("input-filter:binary-content-converted:" + e, dict(input=inp, read=rd))
            if can:
                acc.count("canonical")
                if e != "exact" and (b"\n" in s or b"\r" in s):
                    acc.nt((e, s))
                if back != s:
                    vs.add("roundtrip:canonical-content-not-read-back:%s:%s" % (conv(e), shape(s)),
                           dict(input=inp, written=out, read_back=back))
            for i in range(1, len(s)):
                acc.count("chunk_splits")
                o2 = b"".join(filters.filtered_output_bytes([s[:i], s[i:]], st, None))
                if o2 != out:
                    vs.add("output-filter:depends-on-chunking:" + e, dict(input=inp, split=i, whole=out, chunked=o2))
        acc.sample({"content": s, "written": {e: b"".join(filters.filtered_output_bytes([s], stacks[e], None)) for e in ("lf", "crlf")}})
    vs.flush()
    return acc


_RULES_DONE = []


def install_rules():
    """A real per-user rules file selecting each eol setting by file extension."""
    from breezy import rules
    if _RULES_DONE:
        return
    rp = rules.rules_path()
    os.makedirs(os.path.dirname(rp), exist_ok=True)
    with open(rp, "w") as f:
        for e in SETTINGS:
            f.write("[name *.%s]\neol = %s\n\n" % (e, e))
    rules.reset_rules()
    _RULES_DONE.append(rp)


def _sha(b):
    return hashlib.sha1(b).hexdigest().encode()


def _tree_work(chunk):
    from breezy import filters as _f
    acc = par.Acc()
    vs = _u5.SmallestViolations(acc)
    install_rules()
    exts = SETTINGS + ("none",)
    for batch, modes in chunk:
        d = boot.scratch("eol")
        try:
            t = wt.make_tree("bzr", os.path.join(d, "a"))
            if not t.supports_content_filtering():
                raise HarnessError("working tree format without content filtering")
            names = {}
            for i, s in enumerate(batch):
                for e in exts:
                    n = "c%02d.%s" % (i, e)
                    names[n] = (s, e)
                    with open(os.path.join(d, "a", n), "wb") as f:
                        f.write(s)
            t.add(sorted(names))
            t.commit("c", rev_id=b"r1", timestamp=1000000000.0, timezone=0, committer="V <v@example.com>")
            basis = t.basis_tree()
            with basis.lock_read():
                stored = {n: basis.get_file_text(n) for n in names}
            for mode in modes:
                dest = os.path.join(d, mode)
                try:
                    if mode == "sprout":
                        t2 = t.controldir.sprout(dest).open_workingtree()
                    else:
                        t2 = t.branch.create_checkout(dest, lightweight=True)
                    with t2.lock_read():
                        b2 = t2.basis_tree()
                        with b2.lock_read():
                            changed = {c.path[1] if c.path[1] is not None else c.path[0]: c
                                       for c in t2.iter_changes(b2)}
                        back = {n: t2.get_file_text(n) for n in names}
                        shas = {n: t2.get_file_sha1(n) for n in names}
                except Exception as ex:  # noqa
                    vs.add("checkout(%s):%s:%s" % (mode, type(ex).__name__, _u5.innermost_repo_frame(ex, boot.REPO)),
                           dict(input={"contents": list(batch)}, error=repr(ex)))
                    continue
                for n in sorted(names):
                    s, e = names[n]
                    st = stored[n]
                    setting = None if e == "none" else e
                    acc.n += 1
                    with open(os.path.join(dest, n), "rb") as f:
                        disk = f.read()
                    inp = {"working_content_committed": s, "eol": e, "stored": st, "checkout": mode}
                    can = canonical(setting, st)
                    acc.outcomes.add((e, can, shape(st), disk == st, n in changed))
                    if b"\x00" in st:
                        acc.count("binary_files")
                        if disk != st:
                            vs.add("checkout:binary-content-converted:" + e, dict(input=inp, on_disk=disk))
                    if not can and b"\x00" not in st:
                        acc.count("stored_not_canonical")
                        continue
                    if e not in ("exact", "none") and disk != st:
                        acc.nt((e, st, mode))
                    if back[n] != st:
                        vs.add("checkout:canonical-content-not-read-back:%s:%s" % (conv(e), shape(st)),
                               dict(input=inp, on_disk=disk, read_back=back[n]))
                    elif shas[n] != _sha(st):
                        vs.add("checkout:sha1-differs-although-content-reads-back:%s:%s" % (conv(e), shape(st)),
                               dict(input=inp, on_disk=disk))
                    if n in changed:
                        vs.add("checkout:fresh-tree-reports-changes:%s:%s" % (conv(e), shape(st)),
                               dict(input=inp, on_disk=disk, change=repr(changed[n])[:200]))
                acc.count("checkouts")
            acc.sample({"contents": [bytes(b) for b in batch[:3]], "files_per_tree": len(names), "modes": list(modes)})
        finally:
            shutil.rmtree(d, ignore_errors=True)
    _f._stack_cache.clear()
    vs.flush()
    return acc


def run(ctx):
    flen = ctx.q(6, 8)
    tlen = ctx.q(4, 6)
    modes = ctx.q(("sprout",), ("sprout", "lightweight"))
    install_rules()
    fitems = list(strings(flen))
    a1, a2 = _filter_work(fitems[:25]), _filter_work(fitems[:25])
    if (a1.n, a1.violations, sorted(a1.outcomes)) != (a2.n, a2.violations, sorted(a2.outcomes)):
        raise HarnessError("determinism audit failed")
    accA = par.merge(par.pmap(_filter_work, fitems, seed=ctx.seed))
    contents = list(strings(tlen))
    batches = [(tuple(contents[i:i + BATCH]), modes) for i in range(0, len(contents), BATCH)]
    accB = par.merge(par.pmap(_tree_work, batches, seed=ctx.seed, chunks_per_job=2))
    _u5.report_smallest(ctx, [accA, accB])
    ctx.assumptions.append("POSIX platform: 'native' means LF; canonical forms as in 'brz help eol' "
                           "(LF in repository: no CRLF pair; CRLF in repository: every LF preceded by CR; no NUL)")
    ctx.assumptions.append("tree part: the stored text is what the real commit stored through the read filter; files whose "
                           "stored text is not canonical by the predicate (e.g. 'CR CR LF' committed under eol=lf is stored "
                           "as 'CR LF') carry no claim and are counted in stored_not_canonical")
    return {
        "evaluations": accA.n + accB.n,
        "filter_evaluations": accA.n,
        "filter_canonical_cases": accA.counters.get("canonical", 0),
        "filter_binary_cases": accA.counters.get("binary", 0),
        "chunk_splits": accA.counters.get("chunk_splits", 0),
        "tree_file_checks": accB.n,
        "checkouts": accB.counters.get("checkouts", 0),
        "tree_binary_files": accB.counters.get("binary_files", 0),
        "stored_not_canonical": accB.counters.get("stored_not_canonical", 0),
        "distinct_nontrivial": len(accA.nontrivial) + len(accB.nontrivial),
        "rule": "A: every byte string <=%d over CR/LF/NUL/a x 7 settings, non-trivial = canonical for a converting setting and "
                "containing CR or LF; B: every byte string <=%d x 8 files (7 settings + no rule) x checkout modes %r, "
                "non-trivial = canonical stored text whose on-disk form differs from it (a conversion really happened)"
                % (flen, tlen, list(modes)),
        "distinct_outcomes": len(accA.outcomes) + len(accB.outcomes),
        "max_len_filters": flen,
        "max_len_trees": tlen,
        "samples": accA.samples[:2] + accB.samples[:2],
        "exhaustive": True,
    }


def replay(ctx, data):
    """Re-run the recorded content: filter-level inputs directly, tree-level ones as a one-content tree."""
    install_rules()
    inp = data["first"]["input"]
    if "content" in inp:
        acc = _filter_work([inp["content"].encode("utf-8")])
    else:
        acc = _tree_work([((inp["working_content_committed"].encode("utf-8"),), (inp["checkout"],))])
    return data["signature"] not in [s for s, _ in acc.violations]
