"""C26 - Directory locks provide mutual exclusion.

Schedule exploration of real LockDir objects (one per simulated process) on one
shared lock directory behind the vfs seam.  Every transport operation is a
scheduling point.  Monitor, evaluated after every step:

 I1  at most one non-exempt process believes it holds the lock (is_held);
     a process becomes exempt when its live lock was broken *legitimately*
     (the lock removed is the lock whose info the breaker examined);
 I2  a break (rename of held -> broken.*) removes the lock whose holder info was
     examined (nonce passed to force_break == nonce on disk just before);
 I3  a steal (force_break from the contention handler) happens only when the
     removed lock's recorded host and user are ours and its pid is dead.
"""
import re

from mc import par, procs
from mc.evidence import HarnessError
from mc.vfs import new_store

ID = "C26"
LEVEL = "model_checking"
TECHNIQUE = "stateless schedule exploration (iterative preemption bounding, unbounded for pairs in the thorough tier) of real LockDir processes over a transport seam, with an invariant monitor after every step"

DEAD_PID = 4194305


def _N(x):
    if x is None:
        return None
    return x.decode() if isinstance(x, bytes) else str(x)


class World:
    """Per-worker world: one store, patched rand_chars / time / force_break."""

    def __init__(self):
        import breezy.lockdir as ld
        from breezy import config
        from breezy._cmd_rs import LockHeldInfo
        self.ld = ld
        self.config = config
        self.store = new_store()
        self.t = self.store.transport()
        procs.install_virtual_time()
        self.counters = {}
        store = self.store

        def rand_chars(n):
            p = getattr(store.tl, "proc", None)
            k = self.counters.get(p, 0)
            self.counters[p] = k + 1
            return ("p%sn%d" % ("x" if p is None else p, k)).ljust(n, "z")[:n]
        ld.rand_chars = rand_chars
        self.examined = {}
        self.examined_hold = {}
        self.mon_st = None
        self.stealing = {}
        orig_fb = ld.LockDir.force_break
        orig_hc = ld.LockDir._handle_lock_contention
        w = self

        def force_break(self_, info):
            p_ = getattr(store.tl, "proc", None)
            w.examined[p_] = _N(info.nonce) if isinstance(info, LockHeldInfo) else None
            # which *holding* (acquisition number) that info was read from: the caller's last look at held/info
            w.examined_hold[p_] = (w.mon_st or {}).get("peek_hold", {}).get(p_)
            return orig_fb(self_, info)

        def handle(self_, other):
            p = getattr(store.tl, "proc", None)
            w.stealing[p] = True
            try:
                return orig_hc(self_, other)
            finally:
                w.stealing[p] = False
        if not getattr(ld.LockDir, "_verif_wrapped", False):
            ld.LockDir.force_break = force_break
            ld.LockDir._handle_lock_contention = handle
            ld.LockDir._verif_wrapped = True
        self.me = LockHeldInfo.for_this_process({})
        self.steal = None
        self.snaps = {}

    def set_steal(self, on):
        if self.steal != on:
            self.config.GlobalStack().set("locks.steal_dead", on)
            self.steal = on

    def initial(self, kind):
        """Snapshot of the store for an initial lock state."""
        if kind in self.snaps:
            return self.snaps[kind]
        s = self.store
        s.restore({})
        self.ld.LockDir(self.t, "lock").create()
        if kind != "free":
            l = self.ld.LockDir(self.t, "lock")
            l.attempt_lock()
            raw = s.raw()
            info = raw.get_bytes("lock/held/info")
            if kind == "dead":
                info = re.sub(rb"pid: \d+", b"pid: %d" % DEAD_PID, info)
            elif kind == "otherhost":
                info = re.sub(rb"pid: \d+", b"pid: %d" % DEAD_PID, info)
                info = re.sub(rb"hostname: (\S+)", rb"hostname: elsewhere-\1", info)
            elif kind == "otheruser":
                info = re.sub(rb"pid: \d+", b"pid: %d" % DEAD_PID, info)
                info = re.sub(rb"user: (\S+)", rb"user: someone-else", info)
            elif kind == "alive":
                pass
            else:
                raise ValueError(kind)
            raw.put_bytes("lock/held/info", info)
        self.snaps[kind] = s.walk()
        return self.snaps[kind]


_W = None


def world():
    global _W
    if _W is None:
        _W = World()
    return _W


def disk_info(store):
    try:
        b = store.raw().get_bytes("lock/held/info")
    except Exception:
        return None
    d = {}
    for line in b.decode("utf-8", "replace").splitlines():
        k, _, v = line.partition(":")
        d[k.strip()] = v.strip().strip("'\"")
    return d


# ---- process bodies -----------------------------------------------------

def make_bodies(w, kinds, lds):
    from breezy import errors
    LockDir = w.ld.LockDir

    def mk(i):
        ld = LockDir(w.store.transport(), "lock")
        lds[i] = ld
        return ld

    def L(i):
        ld = mk(i)
        try:
            ld.attempt_lock()
        except errors.LockContention:
            return "contention"
        try:
            ld.confirm()
            ld.unlock()
        except errors.LockBroken:
            return "broken"
        return "ok"

    def L2(i):
        ld = mk(i)
        try:
            ld.attempt_lock()
            ld.unlock()
            ld.attempt_lock()
        except errors.LockContention:
            return "contention"
        except errors.LockBroken:
            return "broken"
        return "held"

    def H(i):   # take and keep
        ld = mk(i)
        try:
            ld.attempt_lock()
        except errors.LockContention:
            return "contention"
        return "held"

    def B(i):
        ld = mk(i)
        info = ld.peek()
        if info is None:
            return "nolock"
        try:
            ld.force_break(info)
        except errors.LockBreakMismatch:
            return "mismatch"
        return "broke"

    def W(i):
        ld = mk(i)
        try:
            ld.wait_lock(timeout=5, poll=1, max_attempts=2)
        except errors.LockContention:
            return "contention"
        try:
            ld.unlock()
        except errors.LockBroken:
            return "broken"
        return "ok"

    table = {"L": L, "L2": L2, "H": H, "B": B, "W": W}

    def guarded(f):
        def g(i):
            try:
                return f(i)
            except Exception as e:   # a failed operation is an outcome, not a violation of C26
                return "error:" + type(e).__name__
        return g
    return [guarded(table[k]) for k in kinds]


def make_monitor(w, lds, init_kind):
    st = {"prev": disk_info(w.store), "exempt": set(), "states": set(), "nsteps": [0] * 8}
    # holdings are identified by acquisition number, not by nonce (two holdings that write the same
    # nonce are still two locks): hold = number of the holding now on disk (0 = the initial one)
    st["hold"] = 0
    st["nholds"] = 1 if st["prev"] is not None else 0
    st["peek_hold"] = {}
    st["nonces"] = {st["prev"].get("nonce")} if st["prev"] else set()
    w.mon_st = st
    me = w.me

    def monitor(sim, ch, op):
        store = w.store
        prev = st["prev"]
        v = None
        if op is not None and op.kind == "get" and op.path == "/lock/held/info":
            st.setdefault("last_peek", {})[ch] = prev.get("nonce") if prev else None
            st["peek_hold"][ch] = st["hold"] if prev else None
        if (op is not None and op.kind == "rename" and op.path2 == "/lock/held" and not op.failed):
            now = disk_info(store)
            if now is not None:
                st["hold"] = st["nholds"]
                st["nholds"] += 1
                if now.get("nonce") in st["nonces"]:
                    v = ("acquire:new-holding-indistinguishable-from-an-earlier-one(same-nonce)",
                         {"locker": ch, "holding": st["hold"]})
                st["nonces"].add(now.get("nonce"))
        if op is not None and op.kind == "rename" and op.path == "/lock/held" and "/broken." in (op.path2 or ""):
            # did the rename succeed?  the broken dir exists now
            if store.raw().has(op.path2.lstrip("/")):
                removed = prev.get("nonce") if prev else None
                examined = w.examined.get(ch)
                if examined != removed:
                    # classify: did the breaker's own last look at held/info still show the
                    # examined lock (the acknowledged peek->rename window), or did it go ahead
                    # although it had already seen a different holder?
                    seen = st.get("last_peek", {}).get(ch)
                    if seen == examined:
                        v = ("force_break:lock-replaced-between-peek-and-rename",
                             {"breaker": ch, "stealing": bool(w.stealing.get(ch))})
                    else:
                        v = ("force_break:broke-lock-it-had-seen-to-differ", {"breaker": ch})
                elif w.examined_hold.get(ch) is not None and w.examined_hold.get(ch) != st["hold"]:
                    v = ("force_break:removed-later-holding-than-the-one-examined",
                         {"breaker": ch, "examined_holding": w.examined_hold.get(ch), "removed_holding": st["hold"]})
                else:
                    for k, l in lds.items():
                        if l.is_held and _N(l.nonce) == removed:
                            st["exempt"].add(k)
                if v is None and w.stealing.get(ch):
                    ok = (prev is not None and prev.get("hostname") == me.hostname
                          and prev.get("user") == me.user and prev.get("pid") == str(DEAD_PID))
                    if not ok:
                        v = ("steal:holder-not-known-dead", {"stealer": ch, "init": init_kind,
                                                            "removed_host_is_ours": prev.get("hostname") == me.hostname if prev else None,
                                                            "removed_user_is_ours": prev.get("user") == me.user if prev else None,
                                                            "removed_pid_dead": prev.get("pid") == str(DEAD_PID) if prev else None})
        st["prev"] = cur = disk_info(store)
        # abstract state (for the coverage count only, never used to prune):
        # names in the lock directory, who is on disk, per-process progress and belief
        st["nsteps"][ch] += 1
        owner = None
        if cur is not None:
            owner = "init"
            for k, l in lds.items():
                if getattr(l, "nonce", None) is not None and _N(l.nonce) == cur.get("nonce"):
                    owner = k
        names = tuple(sorted(p for p in store.walk("lock") if p.count("/") == 2))
        st["states"].add(hash((names, owner, tuple(st["nsteps"]),
                               tuple(sorted((k, l.is_held) for k, l in lds.items())))))
        if v is None:
            believers = sorted(k for k, l in lds.items() if l.is_held and k not in st["exempt"])
            if len(believers) > 1:
                v = ("two-holders", {"believers": believers})
        return v
    monitor.st = st
    return monitor


SCENARIOS_Q = [
    # (steal, init, kinds, bound)
    (False, "free", ("L", "L"), 4),
    (False, "free", ("L2", "L"), 4),
    (False, "free", ("H", "B"), 4),
    (False, "free", ("L", "B"), 4),
    (False, "alive", ("B", "B"), 4),
    (False, "alive", ("B", "L"), 4),
    (False, "free", ("W", "L"), 4),
    (False, "free", ("W", "W"), 2),
    (False, "dead", ("L", "L"), 4),
    (True, "dead", ("L", "L"), 3),
    (True, "dead", ("L", "B"), 4),
    (True, "otherhost", ("L", "L"), 4),
    (True, "otheruser", ("L", "L"), 4),
    (True, "free", ("L", "L"), 2),
    (False, "free", ("L", "L", "L"), 2),
    (False, "free", ("L2", "B", "H"), 2),
    (True, "dead", ("L", "L", "B"), 2),
    (True, "dead", ("L", "L", "L"), 2),
]
SCENARIOS_T = [
    # pairs with every interleaving (no preemption bound)
    (False, "free", ("L", "L"), None),
    (False, "free", ("H", "B"), None),
    (False, "free", ("L", "B"), None),
    (False, "alive", ("B", "B"), None),
    (False, "alive", ("B", "L"), None),
    (True, "dead", ("L", "B"), None),
    (True, "otherhost", ("L", "L"), None),
    (False, "free", ("L", "L", "L"), 3),
    (False, "free", ("L2", "B", "H"), 3),
    (False, "free", ("L2", "B", "L"), 3),
    (False, "free", ("L2", "L2", "B"), 2),
    (False, "free", ("W", "L", "B"), 2),
    (False, "free", ("W", "W", "L"), 2),
    (True, "dead", ("L", "L", "B"), 3),
    (True, "dead", ("L", "L", "L"), 3),
    (True, "dead", ("W", "L", "B"), 2),
    (True, "otherhost", ("L", "W", "B"), 2),
    (True, "otheruser", ("L", "L", "B"), 2),
    (False, "alive", ("B", "B", "L"), 3),
]


def run_one(scn, prefix):
    steal, init, kinds, bound = scn
    w = world()
    w.set_steal(steal)
    w.store.restore(w.initial(init))
    w.store.log.clear()
    w.counters.clear()
    w.examined.clear()
    w.examined_hold.clear()
    w.stealing.clear()
    lds = {}
    bodies = make_bodies(w, kinds, lds)
    sim = procs.Sim(w.store, bodies, prefix, monitor=make_monitor(w, lds, init), horizon=400)
    sim.run()
    sim.lds = lds
    return sim


def canon_trace(trace):
    out = []
    for p, b in trace:
        out.append("P%d %s" % (p, re.sub(r"\[\d+ bytes\]", "[info]", b)))
    return out


def _observe(acc, scn, sim):
    acc.n += 1
    acc.count("transitions", len(sim.points))
    for i, e in enumerate(sim.errs):
        if e is not None:
            # an unexpected exception in a process body is reported, never swallowed
            acc.violation("process-error:%s:%s" % (scn[2][i], type(e).__name__),
                          {"scenario": scn, "error": repr(e), "schedule": sim.choices(),
                           "trace": canon_trace(sim.trace)})
    if sim.livelock:
        raise HarnessError("horizon hit in scenario %r schedule %r" % (scn, sim.choices()))
    outcome = (scn[:3], tuple(sim.results), tuple(sorted(k for k, l in sim.lds.items() if l.is_held)),
               disk_info(world().store) is not None)
    acc.outcomes.add(outcome)
    acc.states = getattr(acc, "states", set())
    acc.states |= {hash((scn[:3], x)) for x in sim.monitor.st["states"]}
    if sim.preemptions() > 0:
        acc.nt((scn[:3], tuple(sim.choices())))
    for _, b in sim.trace:
        pass
    if sim.violation:
        sig, d = sim.violation
        d = dict(d)
        d.update({"scenario": list(scn), "schedule": sim.choices(), "trace": canon_trace(sim.trace),
                  "preemptions": sim.preemptions()})
        acc.violation(sig, d)
    # distinct states: (disk holder?, per-process progress) abstracted from the trace
    return sim


def _subtree(items):
    acc = par.Acc()
    for scn, prefix in items:
        scn = tuple(scn)
        procs.explore(lambda p: run_one(scn, p), scn[3], roots=[prefix],
                      on_exec=lambda sim: _observe(acc, scn, sim))
    return acc


def run(ctx):
    scns = list(SCENARIOS_Q) + (SCENARIOS_T if ctx.thorough else [])
    acc = par.Acc()
    work = []
    audit = 0
    for scn in scns:
        # determinism audit: the default schedule twice, identical observations
        a = run_one(scn, [])
        b = run_one(scn, [])
        if canon_trace(a.trace) != canon_trace(b.trace) or a.results != b.results:
            raise HarnessError("non-deterministic execution in scenario %r" % (scn,))
        audit += 1
        pre, _ = procs.frontier(lambda p: run_one(scn, p), scn[3], want=48,
                                on_exec=lambda sim: _observe(acc, scn, sim))
        work.extend((scn, p) for p in pre)
    accs = par.pmap(_subtree, work, seed=ctx.seed)
    states = set(getattr(acc, "states", set()))
    for a in accs:
        states |= getattr(a, "states", set())
    acc = par.merge([acc] + accs)
    # keep, per signature, the violation with the fewest preemptions / shortest schedule
    best = {}
    for sig, d in acc.violations:
        k = (d.get("preemptions", 0), len(d.get("schedule", [])))
        if sig not in best or k < best[sig][0]:
            best[sig] = (k, d)
    for sig in sorted(best):
        ctx.violation(sig, best[sig][1])
    ctx.assumptions += [
        "crash/other-host holders are modelled by rewriting held/info (pid %d is above PID_MAX_LIMIT)" % DEAD_PID,
        "processes interact only through transport operations; each transport operation is atomic",
        "lock names from rand_chars are replaced by per-process counters; Rust-generated nonces are compared, never hashed",
    ]
    sample = run_one(scns[2], [])
    return {
        "states": len(states),
        "distinct_outcomes": len(acc.outcomes),
        "transitions": acc.counters.get("transitions", 0),
        "traces_validated_against_impl": acc.n,
        "executions": acc.n,
        "evaluations": acc.n,
        "distinct_nontrivial": len(acc.nontrivial),
        "rule": "one evaluation = one complete schedule of real LockDir processes; non-trivial = schedule with >=1 preemption (distinct choice sequences)",
        "scenarios": [{"steal_dead": s[0], "initial": s[1], "processes": list(s[2]),
                       "preemption_bound": "unbounded" if s[3] is None else s[3]} for s in scns],
        "determinism_audits": audit,
        "samples": [{"scenario": list(scns[2]), "schedule": sample.choices(), "trace": canon_trace(sample.trace)}],
        "exhaustive": True,
    }


def replay(ctx, data):
    d = data["first"]
    scn = tuple(d["scenario"])
    scn = (scn[0], scn[1], tuple(scn[2]), scn[3])
    sim = run_one(scn, d["schedule"])
    for p, b in canon_trace(sim.trace) and sim.trace:
        print("  P%d %s" % (p, b))
    print("  results:", sim.results, "violation:", sim.violation)
    return sim.violation is None
