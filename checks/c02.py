"""C02 - Per-file history and last-changed revisions are recorded correctly.

Every history = DAG (mc.gen.dags, <=2 ordered parents per revision) x tree
assignment over one tracked file-id with 7 states {absent, a:x, a:y, b:x,
a:x+exec, d/a:x (inside a directory that exists only then), a->symlink}, is
committed through breezy's real CommitBuilder into 2a, pack-0.92 and knit
repositories on the vfs seam (all DAGs with <=3 (quick) / <=4 (thorough)
revisions - thorough: 7 states on 2a, 5 on pack-0.92/knit; quick adds all
4-revision DAGs over 3 states; both tiers add the 6-revision criss-cross shape
over 3/5 states; thorough adds a second file-id with 2 states on <=3 revisions
and rich-root-pack).  Histories that share a
prefix are built in one repository (siblings get distinct revision ids), so a
repository is itself a many-headed history and is checked as a whole.

Oracle = a reference recursion on the DAG written from the statement: for each
entry of a revision, candidates = the entry's last-changed revision in each
parent that has the id; heads of the candidates; carried over (last-changed =
that head) iff exactly one head and (name, parent directory, kind, exec,
content) equal the head's entry, else a new version whose per-file parents
are the heads.  "Heads" is read both ways the statement allows (heads in the
per-file graph / in the revision graph); a repository must match one reading
as a whole.  Compared: every entry.revision of every revision tree,
texts.keys() and texts.get_parent_map() (exactly the model's versions and
parents), and Repository.check() must report no inconsistent parents,
unreferenced versions or other problems.
"""
import itertools

from mc import gen, par
from mc.evidence import HarnessError

ID = "C02"
LEVEL = "exploration"
TECHNIQUE = "bounded exhaustive enumeration of DAG x tree-assignment histories through the real commit code, compared with a reference recursion and the repository checker"

ROOT = b"TREE_ROOT"
FID = b"f-id"
GID = b"g-id"
DID = b"d-id"

# state name -> (path, kind, content, exec) of the tracked id, or None
F_STATES = {
    "absent": None,
    "a:x": ("a", "file", b"x\n", False),
    "a:y": ("a", "file", b"y\n", False),
    "b:x": ("b", "file", b"x\n", False),
    "a:x+exec": ("a", "file", b"x\n", True),
    "d/a:x": ("d/a", "file", b"x\n", False),
    "a->link": ("a", "symlink", "t", False),
}
G_STATES = {
    "absent": None,
    "c:z": ("c", "file", b"z\n", False),
    "d/c:z": ("d/c", "file", b"z\n", False),
}
ALPHA7 = tuple((s, "absent") for s in F_STATES)
ALPHA3 = (("absent", "absent"), ("a:x", "absent"), ("a:y", "absent"))
ALPHA5 = ALPHA3 + (("b:x", "absent"), ("d/a:x", "absent"))
ALPHA14 = tuple((s, g) for s in F_STATES for g in ("absent", "d/c:z"))

CRISS = ((), (0,), (0,), (1, 2), (2, 1), (3, 4))


def spec_of(state):
    """tree spec (mc.world) of a state (fstate, gstate)."""
    from mc import world as mw
    spec = {}
    for fid, st in ((FID, F_STATES[state[0]]), (GID, G_STATES[state[1]])):
        if st is None:
            continue
        path, kind, content, ex = st
        if "/" in path:
            spec["d"] = mw.D(DID)
        spec[path] = mw.F(fid, content, ex) if kind == "file" else mw.L(fid, content)
    return spec


def entries_of(state, rich_root):
    """fid -> (name, parent fid, kind, exec, content): the attributes the statement lists."""
    out = {}
    if rich_root:
        out[ROOT] = ("", None, "directory", False, None)
    for fid, st in ((FID, F_STATES[state[0]]), (GID, G_STATES[state[1]])):
        if st is None:
            continue
        path, kind, content, ex = st
        if "/" in path:
            out[DID] = ("d", ROOT, "directory", False, None)
            out[fid] = (path.split("/")[1], DID, kind, ex, content)
        else:
            out[fid] = (path, ROOT, kind, ex, content)
    return out


# ---- reference model --------------------------------------------------------

def _anc(graph, start):
    seen = set()
    todo = list(graph.get(start, ()))
    while todo:
        x = todo.pop()
        if x in seen:
            continue
        seen.add(x)
        todo.extend(graph.get(x, ()))
    return seen


def reference(hist, rich_root, reading):
    """hist: [(revid, parent revids, state)] in topological order.
    -> (last: revid -> {fid: last-changed revid}, fgraph: (fid, revid) -> frozenset(parent revids))"""
    rgraph = {r: tuple(p) for r, p, _s in hist}
    entries = {}
    last = {}
    fgraph = {}
    for revid, parents, state in hist:
        ents = entries_of(state, rich_root)
        entries[revid] = ents
        mine = {}
        for fid, ent in ents.items():
            cands = []
            for p in parents:
                if fid in last[p] and last[p][fid] not in cands:
                    cands.append(last[p][fid])
            heads = []
            for c in cands:
                others = [o for o in cands if o != c]
                if reading == "file":
                    g = {r: tuple(ps) for (f, r), ps in fgraph.items() if f == fid}
                    dominated = any(c in _anc(g, o) for o in others)
                else:
                    dominated = any(c in _anc(rgraph, o) for o in others)
                if not dominated:
                    heads.append(c)
            if len(heads) == 1 and entries[heads[0]][fid] == ent:
                mine[fid] = heads[0]
            else:
                mine[fid] = revid
                fgraph[(fid, revid)] = frozenset(heads)
        last[revid] = mine
    return last, fgraph


# ---- driver -----------------------------------------------------------------

def leaf_histories(item):
    """(shape, states) of every complete history a work item contains (pure enumeration)."""
    dag, states, tails, alphabet = item
    out = []

    def rec(level, shape, sts):
        if level == len(tails):
            out.append((shape, sts))
            return
        for ps in tails[level]:
            for st in alphabet:
                rec(level + 1, shape + (ps,), sts + (st,))
    rec(0, tuple(dag), tuple(states))
    return out


class CommitFailed(Exception):
    def __init__(self, hist, exc):
        Exception.__init__(self, repr(exc))
        self.hist = hist
        self.exc = exc


def build(fmt, item):
    """Materialise a work item in one repository.  -> (store, url, hist, leaves)
    item = (prefix dag, prefix states, tail levels, alphabet); every tail level is a
    list of parent-index tuples; every combination of option x state of every level is
    committed (depth first, siblings share the repository)."""
    from mc import world as mw
    from mc.vfs import new_store
    dag, states, tails, alphabet = item
    store = new_store()
    store.logging = False
    b = mw.make_branch(store.transport("b"), fmt)
    hist = []
    ts = [1_000_000_000.0]

    def commit(revid, parents, state):
        ts[0] += 1
        hist.append((revid, tuple(parents), state))
        try:
            mw.commit_spec(b, revid, list(parents), spec_of(state), timestamp=ts[0])
        except Exception as e:  # noqa
            store.close()
            raise CommitFailed(hist, e)

    path = []
    for i, (ps, st) in enumerate(zip(dag, states)):
        rid = b"p%d" % i
        commit(rid, [path[j] for j in ps], st)
        path.append(rid)
    leaves = []

    def rec(level, path, shape, sts, tag):
        if level == len(tails):
            leaves.append((path[-1], shape, sts))
            return
        for oi, ps in enumerate(tails[level]):
            for si, st in enumerate(alphabet):
                rid = b"%s.%d-%d" % (tag, oi, si)
                commit(rid, [path[j] for j in ps], st)
                rec(level + 1, path + [rid], shape + (ps,), sts + (st,), rid)

    rec(0, path, tuple(dag), tuple(states), b"c")
    return store, b, hist, leaves


def observe(repo, hist, rich_root):
    """-> (last, fgraph, keys) as recorded by breezy."""
    from mc import world as mw
    last = {}
    with repo.lock_read():
        for revid, _p, state in hist:
            tree = repo.revision_tree(revid)
            rows = mw.dump_tree(tree, with_ids=True, with_revision=True)
            want = sorted(mw.spec_dump(spec_of(state)))
            got = sorted(r[:5] for r in rows if r[0] != "")
            if got != want:
                raise HarnessError("committed tree differs from the spec: %r vs %r" % (got, want))
            d = {}
            for r in rows:
                if r[0] == "" and not rich_root:
                    continue
                d[r[4]] = r[5]
            last[revid] = d
        keys = set(repo.texts.keys())
        pm = repo.texts.get_parent_map(keys)
    fgraph = {}
    for k in keys:
        fgraph[k] = frozenset(p[1] for p in (pm.get(k) or ()))
        if any(p[0] != k[0] for p in (pm.get(k) or ())):
            fgraph[k] = ("foreign-file-id", pm.get(k))
    return last, fgraph


def first_diff(hist, exp, got):
    """index of the first revision whose last-changed map or text versions differ, + description."""
    el, eg = exp
    gl, gg = got
    for i, (revid, _p, _s) in enumerate(hist):
        if el[revid] != gl[revid]:
            for fid in sorted(set(el[revid]) | set(gl[revid])):
                e, g = el[revid].get(fid), gl[revid].get(fid)
                if e != g:
                    if e == revid:
                        kind = "stale-last-changed(change-not-recorded)"
                    elif g == revid:
                        kind = "spurious-new-version(nothing-changed)"
                    else:
                        kind = "wrong-carried-over-revision"
                    return i, "entry.revision:" + kind, {"file_id": fid, "expected": e, "got": g}
        ek = {k: v for k, v in eg.items() if k[1] == revid}
        gk = {k: v for k, v in gg.items() if k[1] == revid}
        if ek != gk:
            for k in sorted(set(ek) | set(gk)):
                if k not in gk:
                    return i, "texts:version-missing", {"key": k, "expected_parents": ek[k]}
                if k not in ek:
                    return i, "texts:unexpected-version", {"key": k, "got_parents": gk[k]}
                if ek[k] != gk[k]:
                    return i, "texts:per-file-parents-not-the-heads", {"key": k, "expected": ek[k], "got": gk[k]}
    extra = set(gg) - set(eg) - {k for k in gg if k[1] in el}
    if extra:
        return len(hist), "texts:version-of-unknown-revision", {"keys": sorted(extra)}
    return None


def ancestry_of(hist, idx):
    by = {r: (i, p, s) for i, (r, p, s) in enumerate(hist)}
    if idx >= len(hist):
        idx = len(hist) - 1
    seen = {}
    todo = [hist[idx][0]]
    while todo:
        r = todo.pop()
        if r in seen:
            continue
        seen[r] = by[r]
        todo.extend(by[r][1])
    return [{"revid": r, "parents": list(v[1]), "tree": "%s,%s" % v[2]} for r, v in sorted(seen.items(), key=lambda kv: kv[1][0])]


def nontrivial(shape, sts):
    """a merge, or a re-add of an id (absent in a parent, present in a grandparent line)."""
    if any(len(p) == 2 for p in shape):
        return True
    for i, ps in enumerate(shape):
        for k in (0, 1):
            if sts[i][k] != "absent" and ps and all(sts[p][k] == "absent" for p in ps):
                if any(s[k] != "absent" for s in sts[:i]):
                    return True
    return False


def check_item(fmt, item, acc, want_dump=False):
    from breezy.repository import Repository
    for shape, sts in leaf_histories(item):     # accounting from the enumeration only
        acc.count("histories")
        if nontrivial(shape, sts):
            acc.nt((shape, sts))
    try:
        store, b, hist, leaves = build(fmt, item)
    except CommitFailed as e:
        import traceback
        tb = [f for f in traceback.extract_tb(e.exc.__traceback__) if "/breezy/" in f.filename]
        acc.n += 1
        acc.violation("commit:%s:%s:%s" % (fmt, type(e.exc).__name__, tb[-1].name if tb else "?"),
                      {"format": fmt, "error": str(e.exc)[:300], "history": ancestry_of(e.hist, len(e.hist) - 1)})
        return None
    try:
        repo = Repository.open(b.repository.user_url)
        rich = repo.supports_rich_root()
        got = observe(repo, hist, rich)
        models = {rd: reference(hist, rich, rd) for rd in ("file", "rev")}
        diffs = {rd: first_diff(hist, models[rd], got) for rd in models}
        acc.n += len(hist)
        acc.count("revisions:" + fmt, len(hist))
        acc.count("entries_compared", sum(len(v) for v in got[0].values()))
        acc.count("text_versions_compared", len(got[1]))
        if models["file"] != models["rev"]:
            acc.count("repos_where_readings_differ:" + fmt)
            for rd in models:
                if diffs[rd] is None:
                    acc.outcomes.add("%s matches heads-in-%s-graph" % (fmt, "per-file" if rd == "file" else "revision"))
        else:
            acc.outcomes.add("%s matches (readings agree)" % fmt)
        if all(d is not None for d in diffs.values()):
            rd = max(diffs, key=lambda r: diffs[r][0])
            idx, sig, det = diffs[rd]
            det = dict(det, format=fmt, reading=rd, history=ancestry_of(hist, idx),
                       revision=hist[min(idx, len(hist) - 1)][0])
            acc.violation("commit:%s:%s" % (fmt, sig), det)
        # the repository's own consistency check
        with repo.lock_read():
            try:
                c = repo.check()
            except Exception as e:  # noqa
                import traceback
                tb = traceback.extract_tb(e.__traceback__)
                inner = [f for f in tb if "/breezy/" in f.filename]
                where = inner[-1].name if inner else "?"
                acc.violation("check:%s:%s:%s" % (fmt, type(e).__name__, where), {"format": fmt, "error": str(e)[:300],
                                                                             "history": ancestry_of(hist, len(hist) - 1)})
                c = None
        if c is not None:
            acc.count("check_runs")
            problems = []
            if c.inconsistent_parents:
                problems.append(("inconsistent-parents", sorted(c.inconsistent_parents)[:3]))
            if c.unreferenced_versions:
                problems.append(("unreferenced-versions", sorted(c.unreferenced_versions)[:3]))
            if c._report_items:
                problems.append(("report-items", list(c._report_items)[:3]))
            if c.ghosts or c.missing_parent_links or c.revs_with_bad_parents_in_index:
                problems.append(("graph-problems", [sorted(c.ghosts), dict(c.missing_parent_links),
                                                   c.revs_with_bad_parents_in_index]))
            if c.checked_rev_cnt != len(hist):
                problems.append(("checked-revision-count", [c.checked_rev_cnt, len(hist)]))
            for name, what in problems:
                rev = what[0][0] if name == "inconsistent-parents" else None
                idx = [i for i, h in enumerate(hist) if h[0] == rev]
                acc.violation("check:%s:%s" % (fmt, name), {"format": fmt, "reported": what,
                                                          "history": ancestry_of(hist, idx[0] if idx else len(hist) - 1)})
        if want_dump:
            return (sorted((r, sorted(d.items())) for r, d in got[0].items()), sorted((k, sorted(v)) for k, v in got[1].items()))
    finally:
        store.close()


def _work(chunk):
    acc = par.Acc()
    for fmt, item in chunk:
        check_item(fmt, item, acc)
        if fmt == "2a":
            acc.sample({"format": fmt, "prefix_dag": [list(p) for p in item[0]], "prefix_trees": ["%s,%s" % s for s in item[1]],
                        "tail_parent_options": [[list(p) for p in lvl] for lvl in item[2]], "alphabet": len(item[3])})
    return acc


def last_level_options(i):
    opts = [()]
    for k in (1, 2):
        opts.extend(itertools.permutations(range(i), k))
    return opts


def dag_items(n, alphabet):
    """work items covering every history with <= n revisions over the alphabet."""
    if n == 1:
        return [((), (), [[()]], alphabet)]
    out = []
    for dag in gen.dags(n - 1):
        for sts in itertools.product(alphabet, repeat=n - 1):
            out.append((dag, sts, [last_level_options(n - 1)], alphabet))
    return out


def criss_items(alphabet):
    return [(CRISS[:4], sts, [[CRISS[4]], [CRISS[5]]], alphabet) for sts in itertools.product(alphabet, repeat=4)]


def plan(ctx):
    fmts = ("2a", "pack-0.92", "knit")
    parts = []   # (label, formats, items)
    if ctx.thorough:
        parts.append(("all DAGs <=4 revisions x 7 states", ("2a",), dag_items(4, ALPHA7)))
        parts.append(("all DAGs <=4 revisions x 5 states", ("pack-0.92", "knit"), dag_items(4, ALPHA5)))
        parts.append(("all DAGs <=3 revisions x 7x2 states (two file-ids)", fmts, dag_items(3, ALPHA14)))
        parts.append(("criss-cross (6 revisions) x 5 states", fmts, criss_items(ALPHA5)))
        parts.append(("all DAGs <=3 revisions x 7 states", ("rich-root-pack",), dag_items(3, ALPHA7)))
    else:
        parts.append(("all DAGs <=3 revisions x 7 states", fmts, dag_items(3, ALPHA7)))
        parts.append(("all DAGs <=4 revisions x 3 states", fmts, dag_items(4, ALPHA3)))
        parts.append(("criss-cross (6 revisions) x 3 states", fmts, criss_items(ALPHA3)))
    return parts


def run(ctx):
    parts = plan(ctx)
    # determinism audit: the first items twice
    a0 = par.Acc()
    for fmt, item in [(f, parts[0][2][k]) for f in parts[0][1] for k in (0, len(parts[0][2]) // 2)]:
        d1 = check_item(fmt, item, a0, want_dump=True)
        d2 = check_item(fmt, item, a0, want_dump=True)
        if d1 != d2:
            raise HarnessError("non-deterministic result for %r" % (item,))
    work = []
    for _label, fmts, items in parts:
        for item in items:
            for f in fmts:
                work.append((f, item))
    acc = par.merge(par.pmap(_work, work, seed=ctx.seed, chunks_per_job=8))
    best = {}
    for sig, d in acc.violations:
        k = (len(d.get("history", ())), repr(d.get("history")))
        if sig not in best or k < best[sig][0]:
            best[sig] = (k, d)
    for sig in sorted(best):
        ctx.violation(sig, best[sig][1])
    ctx.assumptions.append("heads are accepted in either the per-file graph or the revision graph, consistently per repository "
                           "(the two differ when an id is deleted and re-added); the root entry of non-rich-root formats "
                           "(always stamped with the new revision, no text) is not a file version")
    ctx.assumptions.append("histories sharing a prefix are committed into one repository under distinct revision ids")
    return {
        "evaluations": acc.n,
        "distinct_nontrivial": len(acc.nontrivial),
        "rule": "one evaluation = one committed revision whose every entry.revision, text versions and per-file parents "
                "were compared with the reference; non-trivial = distinct history (DAG x assignment) containing a merge or a re-added id",
        "parts": [{"what": lbl, "formats": list(fm), "work_items": len(it)} for lbl, fm, it in parts],
        "histories": acc.counters.get("histories", 0),
        "counters": dict(sorted(acc.counters.items())),
        "outcomes": sorted(acc.outcomes),
        "samples": acc.samples[:3],
        "exhaustive": True,
    }


def replay(ctx, data):
    """Rebuild the reported history in the reported format; True if the property holds on it."""
    from breezy.repository import Repository
    from mc import world as mw
    from mc.vfs import new_store
    d = data["first"]
    fmt = d["format"]
    store = new_store()
    b = mw.make_branch(store.transport("b"), fmt)
    hist = []
    for k, h in enumerate(d["history"]):
        state = tuple(h["tree"].split(","))
        rid, ps = h["revid"].encode(), tuple(p.encode() for p in h["parents"])
        mw.commit_spec(b, rid, list(ps), spec_of(state), timestamp=1_000_000_001.0 + k)
        hist.append((rid, ps, state))
    repo = Repository.open(b.repository.user_url)
    rich = repo.supports_rich_root()
    got = observe(repo, hist, rich)
    diffs = [first_diff(hist, reference(hist, rich, rd), got) for rd in ("file", "rev")]
    for x in diffs:
        print("  model comparison:", x)
    with repo.lock_read():
        c = repo.check()
    print("  check(): inconsistent parents %r, unreferenced %r" % (c.inconsistent_parents, sorted(c.unreferenced_versions)))
    return (None in diffs) and not c.inconsistent_parents and not c.unreferenced_versions and not c._report_items
