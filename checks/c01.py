"""C01 - A commit records exactly the selected working-tree state; a failing commit changes nothing.

Real WorkingTree.commit on a lightweight checkout (tree on /dev/shm, 2a branch +
repository behind the vfs seam).  Enumerated: every working-tree state reachable
by an op sequence (write, chmod, add file/dir/symlink, unknown file, remove,
unversion, delete-on-disk, rename file/dir/into/out of a directory, symlink
retarget, kind changes) up to a depth on top of each prior history (empty; one
commit; two commits with a directory rename and path reuse; one commit with a
pending merge; one commit of sibling directories p, p-s, p.t, p0 whose names extend
each other's with bytes below and above "/"), de-duplicated by canonical state
(including versioned files and directories missing from disk); for each state every
specific_files in {None} + subsets (<= 2) of all old and new path names + unknown
files, and exclude in {None} + singletons.  Oracle by file id, written from the
statement: an id whose (new, else old) path is selected and not excluded must
have the working entry (parent, name, kind, bytes, exec bit, link target) in
the new revision, an id that is not selected must keep the basis entry; where the
statement is silent (selected only through the old name, one of old/new
excluded, ancestors of a selected new path, ids at or below a path that a
possibly selected id vacates or occupies) either is accepted; nothing else may
appear.  An exception other than a documented refusal is a finding unless the
selection splits changes that depend on each other (no well-formed tree to record).  Afterwards the tree's basis is the new revision, working files are
untouched, selected ids report no change and unselected pending changes are still
reported; after a full commit an immediate second commit must be pointless.  Faults: an InjectedFault at every k-th transport operation (reads and
writes) of the commit for a core set of states, and exceptions from the
start_commit / message callback / pre_commit stages: when commit raises, the tip
and all_revision_ids() seen by a fresh open must equal their values before.
"""
import os

from mc import par
from mc.evidence import HarnessError

from . import _c01w as W

ID = "C01"
LEVEL = "exploration"
TECHNIQUE = "bounded exhaustive enumeration of tree states x path selections on the real commit pipeline with a by-file-id oracle; single fault at every transport operation of a commit"

TS = 1_000_000_100.0
WHO = "Committer <c@example.com>"

ALPHABET = [
    ("write", "a", b"a2\n"), ("write", "d/b", b"b2\n"), ("write", "d", b"d2\n"),
    ("chmod", "a"), ("chmod", "x"),
    ("addfile", "n", b"n1\n"), ("addfile", "d/n", b"n1\n"), ("adddir", "e"), ("addfile", "e/n", b"n1\n"),
    ("addfile", "d", b"n1\n"),
    ("addlink", "m", "a"), ("unknown", "u", b"u1\n"),
    ("remove", "a"), ("remove", "d/b"), ("remove", "l"), ("remove", "d"),
    ("unversion", "a"), ("rmdisk", "a"), ("rmdisk", "d/b"),
    ("rename", "a", "c"), ("rename", "d/b", "b"), ("rename", "a", "d/a"), ("rename", "d", "e"), ("rename", "l", "k"),
    ("rename", "x", "a"), ("rename", "g", "d"),
    ("retarget", "l", "d/b"), ("tolink", "a", "x"), ("tofile", "l", b"was-link\n"), ("todir", "a"),
    # versioned directories / files missing from disk, and siblings whose names share a prefix with them
    ("rmdisk", "d"), ("rmdisk", "p"), ("rmdisk", "p/f"), ("rmdisk", "p-s"), ("rmdisk", "p0"),
    ("remove", "p"), ("write", "p/f", b"f2\n"), ("write", "p-s/f", b"f2\n"), ("write", "p0/f", b"f2\n"),
    ("rename", "p", "r"), ("rename", "p.t", "p"),
]
HISTORIES = ("empty", "h1", "h2", "merge", "h3")

REFUSALS = ("PathsNotVersionedError", "CannotCommitSelectedFileMerge", "PointlessCommit")


class World:
    def __init__(self):
        from mc import boot
        from mc.vfs import new_store
        self.store = new_store()
        self.root = boot.scratch("c01")
        self.co = os.path.join(self.root, "co")
        self.hist = {}
        self.flags = {}
        self._wrap()

    def _wrap(self):
        """Observe (not change) when the commit builder's write group has been committed."""
        from breezy.bzr import vf_repository as vf
        w = self
        if not getattr(vf.VersionedFileCommitBuilder, "_verif_wrapped", False):
            orig = vf.VersionedFileCommitBuilder.commit

            def commit(self_, message, *a, **k):
                r = orig(self_, message, *a, **k)
                World.current.flags["builder_committed"] = True
                return r
            vf.VersionedFileCommitBuilder.commit = commit
            vf.VersionedFileCommitBuilder._verif_wrapped = True
        World.current = self

    def history(self, name):
        """(store snapshot, tree dir snapshot path) of a prior history; built once per worker."""
        if name in self.hist:
            return self.hist[name]
        from breezy.branch import Branch
        from mc import world as mw
        self.store.restore({})
        b = mw.make_branch(self.store.transport("b"), "2a")
        base = W.base_spec()
        if name == "h3":
            # sibling directories whose names extend each other's with bytes sorting below and above "/"
            base = {"a": mw.F(b"a-id", b"a1\n")}
            for i, d in enumerate(("p", "p-s", "p.t", "p0")):
                base[d] = mw.D(b"dir%d-id" % i)
                base[d + "/f"] = mw.F(b"f%d-id" % i, b"f1\n")
        if name != "empty":
            mw.commit_spec(b, b"r1", [], base, timestamp=1e9)
        if name == "h2":
            s2 = dict(base)
            s2["g"] = mw.D(b"d-id")
            s2["g/b"] = mw.F(b"b-id", b"b1\n")
            del s2["d"], s2["d/b"]
            s2["a"] = mw.F(b"a-id", b"a1\nmore\n")
            s2["d"] = mw.F(b"d2-id", b"d1\n")          # the old directory name reused by a new file
            mw.commit_spec(b, b"r2", [b"r1"], s2, timestamp=1e9 + 1)
        if name == "merge":
            s = dict(base)
            s["a"] = mw.F(b"a-id", b"a-side\n")
            s["s"] = mw.F(b"s-id", b"s1\n")
            mw.commit_spec(b, b"s1", [b"r1"], s, timestamp=1e9 + 1)
            b = Branch.open(self.store.url + "b")
            with b.lock_write():
                b.set_last_revision_info(1, b"r1")
        W.copytree(self.co, self.co) if False else None
        if os.path.lexists(self.co):
            import shutil
            shutil.rmtree(self.co)
        b = Branch.open(self.store.url + "b")
        wt = b.create_checkout(self.co, lightweight=True)
        if name == "empty":
            wt.set_root_id(W.ROOT_ID)
        if name == "merge":
            with wt.lock_write():
                wt.set_parent_ids([b"r1", b"s1"])
        snapdir = os.path.join(self.root, "hist-" + name)
        W.copytree(self.co, snapdir)
        self.hist[name] = (self.store.walk(), snapdir)
        return self.hist[name]

    def restore(self, snap, treedir):
        self.store.hook = None
        self.store.restore(snap)
        del self.store.log[:]
        W.copytree(treedir, self.co)

    def open(self):
        from breezy.workingtree import WorkingTree
        return WorkingTree.open(self.co)


_W = None


def world():
    """The world of this process (a forked worker never reuses its parent's directories)."""
    global _W
    if _W is None or _W.pid != os.getpid():
        _W = World()
        _W.pid = os.getpid()
    return _W


def _frame(e):
    import traceback
    from mc import boot
    last = "?"
    for fs in traceback.extract_tb(e.__traceback__):
        if fs.filename.startswith(boot.REPO):
            last = "%s:%s" % (fs.filename[len(boot.REPO) + 1:], fs.name)
    return last


# ---- state generation --------------------------------------------------------------------

def build_state(w, hist, ops):
    """Restore history, apply ops; returns wt or None when inapplicable."""
    snap, tdir = w.history(hist)
    w.restore(snap, tdir)
    wt = w.open()
    try:
        W.apply_ops(wt, ops)
    except W.Inapplicable:
        return None
    return wt


def _gen_work(chunk):
    """-> list of (hist, ops, state key hash) for applicable sequences."""
    import hashlib
    w = world()
    out = []
    for hist, ops in chunk:
        wt = build_state(w, hist, ops)
        if wt is None:
            continue
        k = hashlib.sha1(repr(W.state_key(w.open())).encode()).hexdigest()
        out.append((hist, ops, k))
    return out


def generate_states(ctx, hists, depth, h3_depth=2):
    """Layered BFS with de-duplication by canonical state; returns list of (hist, ops, depth)."""
    seen = {}
    layer = [(h, ()) for h in hists]
    states = []
    for h, ops in layer:
        states.append((h, ops))
    # keys of the roots
    for h, ops, k in sum(par.pmap(_gen_work, layer, seed=ctx.seed), []):
        seen[(h, k)] = ops
    raw = 0
    for d in range(1, depth + 1):
        # (ops on the p* sibling directories exist in history h3 only; h3 is explored to its own depth)
        cand = [(h, ops + (op,)) for h, ops in layer for op in ALPHABET
                if (h == "h3" or not str(op[1]).startswith("p")) and (h != "h3" or d <= h3_depth)]
        raw += len(cand)
        res = sum(par.pmap(_gen_work, cand, seed=ctx.seed), [])
        res.sort(key=lambda r: (r[0], len(r[1]), [ALPHABET.index(o) for o in r[1]]))
        layer = []
        for h, ops, k in res:
            if (h, k) in seen:
                continue
            seen[(h, k)] = ops
            layer.append((h, ops))
            states.append((h, ops))
    return states, raw


# ---- the oracle ----------------------------------------------------------------------------

def classify(basis, work, specific, exclude):
    """-> {fid: 'sel' | 'unsel' | 'amb'} for every id in basis or work, per the statement."""
    bpaths = W.paths_of(basis)
    wpaths = W.paths_of(work)
    exclude = exclude or []
    cls = {}
    for fid in set(basis) | set(work):
        old = bpaths.get(fid)
        new = wpaths.get(fid)
        s_old = old is not None and (specific is None or W.inside_any(old, specific))
        s_new = new is not None and (specific is None or W.inside_any(new, specific))
        x_old = old is not None and W.inside_any(old, exclude)
        x_new = new is not None and W.inside_any(new, exclude)
        all_exc = (old is None or x_old) and (new is None or x_new)
        if (not s_old and not s_new) or all_exc:
            cls[fid] = "unsel"
        elif (s_new if new is not None else s_old) and not x_old and not x_new:
            cls[fid] = "sel"
        else:
            cls[fid] = "amb"
    # Both rules below only ever turn "unsel" into "amb" (the statement does not decide these ids) and
    # are applied together until nothing changes.
    #  - ancestors: directories above a (possibly) selected or named new path may have to be committed
    #    for the recorded tree to be valid;
    #  - path closure: an id sitting (in either tree) at or below the old or new path of a possibly
    #    selected id is involved in the same paths (the former children of a selected renamed directory,
    #    the previous occupant of a name a selected id moves to).
    changed = True
    while changed:
        changed = False
        for fid in list(cls):
            new = wpaths.get(fid)
            named = new is not None and specific is not None and W.inside_any(new, specific)
            if (cls[fid] != "unsel" or named) and fid in work:
                p = work[fid][0]
                seen = set()
                while p in work and p not in seen:
                    seen.add(p)
                    if cls.get(p) == "unsel":
                        cls[p] = "amb"
                        changed = True
                    p = work[p][0]
        touched = set()
        for fid, c in cls.items():
            # only ids whose location changes free or occupy a path (an unchanged directory does not)
            if c != "unsel" and (basis.get(fid) or (None, None))[:2] != (norm(work.get(fid)) or (None, None))[:2]:
                touched.update(p for p in (bpaths.get(fid), wpaths.get(fid)) if p is not None)
        for fid, c in cls.items():
            old, new = bpaths.get(fid), wpaths.get(fid)
            if c == "unsel" and ((old is not None and W.inside_any(old, touched))
                                 or (new is not None and W.inside_any(new, touched))):
                if not ((old is None or W.inside_any(old, exclude)) and (new is None or W.inside_any(new, exclude))):
                    cls[fid] = "amb"
                    changed = True
    return cls


def strict_tree(basis, work, specific, exclude):
    """The tree asked for under the plain reading (selected iff old or new path under a selected path and
    neither under an excluded one), by id; used only to tell refusals of unsatisfiable selections."""
    bpaths = W.paths_of(basis)
    wpaths = W.paths_of(work)
    exclude = exclude or []
    out = {}
    for fid in set(basis) | set(work):
        old, new = bpaths.get(fid), wpaths.get(fid)
        sel = ((old is not None and (specific is None or W.inside_any(old, specific)))
               or (new is not None and (specific is None or W.inside_any(new, specific))))
        exc = (old is not None and W.inside_any(old, exclude)) or (new is not None and W.inside_any(new, exclude))
        e = norm(work.get(fid)) if (sel and not exc) else basis.get(fid)
        if e is not None:
            out[fid] = e
    return out


def well_formed(entries):
    seen = set()
    for fid, e in entries.items():
        if e[0] != W.ROOT_ID and (e[0] not in entries or entries[e[0]][2] != "directory"):
            return False
        if (e[0], e[1]) in seen:
            return False
        seen.add((e[0], e[1]))
    return all(p is not None for p in W.paths_of(entries).values())


def norm(e):
    """A working entry as committed: a missing file counts as absent."""
    if e is None or e[2] is None:
        return None
    return e


def selections(paths, full):
    """(specific_files, exclude) pairs for a state."""
    paths = sorted(paths)
    out = [(None, None)]
    singles = [(p,) for p in paths]
    pairs = [(p, q) for i, p in enumerate(paths) for q in paths[i + 1:]]
    for s in singles:
        out.append((s, None))
    for x in singles:
        out.append((None, x))
    if full:
        out.append(((), None))
        for s in pairs:
            out.append((s, None))
        for s in singles:
            for x in singles:
                out.append((s, x))
    return out


def observe_state(w):
    """Per-state constants, read before any commit."""
    from breezy.branch import Branch
    from mc import wt as mwt
    wt = w.open()
    with wt.lock_read():
        basis = W.rev_entries(wt.basis_tree())
        work = W.wt_entries(wt)
        parents = wt.get_parent_ids()
        ch = changed_ids(wt)
        unv = sorted(p for p in mwt.dir_snapshot(w.co) if not wt.is_versioned(p))
    b = Branch.open(w.store.url + "b")
    with b.lock_read():
        tip = b.last_revision_info()
        revs = sorted(b.repository.all_revision_ids())
    return {"basis": basis, "work": work, "parents": parents, "changed": ch, "tip": tip, "revs": revs,
            "disk": mwt.dir_snapshot(w.co), "unversioned": unv}


def changed_ids(wt):
    out = {}
    with wt.lock_read():
        bt = wt.basis_tree()
        with bt.lock_read():
            for c in wt.iter_changes(bt):
                if c.path == ("", ""):
                    continue
                out[c.file_id] = (c.path, c.changed_content, c.versioned, c.kind, c.executable)
    return out


def fresh_view(w):
    from breezy.branch import Branch
    b = Branch.open(w.store.url + "b")
    with b.lock_read():
        return b.last_revision_info(), sorted(b.repository.all_revision_ids())


def do_commit(w, specific, exclude, **kw):
    wt = w.open()
    args = dict(message="m", rev_id=b"new", timestamp=TS, timezone=0, committer=WHO)
    if specific is not None:
        args["specific_files"] = list(specific)
    if exclude is not None:
        args["exclude"] = list(exclude)
    args.update(kw)
    return wt.commit(**args)


def check_case(acc, w, st, hist, ops, specific, exclude, snap, tdir, allow_pointless=True):
    from mc import wt as mwt
    case = {"history": hist, "ops": [list(o) for o in ops], "specific_files": specific, "exclude": exclude}
    if not allow_pointless:
        case["allow_pointless"] = False
    w.restore(snap, tdir)
    acc.n += 1
    basis, work = st["basis"], st["work"]
    cls = classify(basis, work, specific, exclude)
    differs = {f for f in cls if basis.get(f) != norm(work.get(f))}
    if any(cls[f] == "sel" for f in differs) and any(cls[f] == "unsel" for f in differs):
        acc.nt((hist, ops, specific, exclude))
    kw = {} if allow_pointless else {"allow_pointless": False}
    try:
        new = do_commit(w, specific, exclude, **kw)
    except Exception as e:  # noqa
        name = type(e).__name__
        tip, revs = fresh_view(w)
        if tip != st["tip"] or revs != st["revs"]:
            acc.violation("commit-raised:%s:%s" % (name, "tip-moved" if tip != st["tip"] else "revisions-changed"),
                          dict(case, error=repr(e)))
            return
        if name not in REFUSALS:
            wt = w.open()
            same = (W.wt_entries(wt) == work and changed_ids(wt) == st["changed"] and mwt.dir_snapshot(w.co) == st["disk"])
            if same and not well_formed(strict_tree(basis, work, specific, exclude)):
                # the selection splits changes that depend on each other: no well-formed tree to record
                acc.outcomes.add(("refused-unsatisfiable-selection", name))
                acc.count("refused:unsatisfiable-selection")
                return
            if same and name == "RootMissing" and not st["revs"] and (specific is not None or exclude):
                acc.outcomes.add(("refused-first-commit-without-root", name))
                acc.count("refused:RootMissing")
                return
            acc.violation("commit:%s:%s" % (name, _frame(e)), dict(case, error=repr(e)[:300], tree_unchanged=same))
            return
        if name == "CannotCommitSelectedFileMerge" and not (len(st["parents"]) > 1 and (specific is not None or exclude)):
            acc.violation("commit:refused-without-reason:%s" % name, case)
            return
        if name == "PathsNotVersionedError":
            bp, wp = set(W.paths_of(basis).values()), set(W.paths_of(work).values())
            if all(p in bp or p in wp for p in (specific or ())):
                acc.violation("commit:refused-without-reason:%s" % name, dict(case, error=repr(e)))
                return
        if name == "PointlessCommit" and (allow_pointless or any(cls[f] == "sel" for f in differs)):
            acc.violation("commit:refused-without-reason:%s" % name, case)
            return
        wt = w.open()
        if W.wt_entries(wt) != work or changed_ids(wt) != st["changed"] or mwt.dir_snapshot(w.co) != st["disk"]:
            acc.violation("refused-commit:working-tree-changed:%s" % name, case)
            return
        acc.outcomes.add(("refused", name))
        acc.count("refused:" + name)
        return
    # ---- success
    from breezy.branch import Branch
    if len(st["parents"]) > 1 and (specific is not None or exclude):
        acc.violation("commit:selected-file-commit-of-merge-accepted", case)
        return
    if not allow_pointless and len(st["parents"]) <= 1 and not any(cls[f] != "unsel" for f in differs):
        acc.violation("commit:pointless-commit-accepted", case)
        return
    b = Branch.open(w.store.url + "b")
    with b.lock_read():
        tip = b.last_revision_info()
        if new != b"new" or tip != (st["tip"][0] + 1, b"new"):
            acc.violation("commit:tip-not-new-revision", dict(case, tip=tip, returned=new))
            return
        rev = b.repository.get_revision(new)
        if list(rev.parent_ids) != list(st["parents"]):
            acc.violation("commit:wrong-parents", dict(case, got=rev.parent_ids, expected=st["parents"]))
            return
        got = W.rev_entries(b.repository.revision_tree(new))
    bad = None
    for fid in sorted(set(cls) | set(got)):
        r = got.get(fid)
        if fid not in cls:
            bad = ("unexpected-id", fid, r, None, None)
            break
        be, we = basis.get(fid), norm(work.get(fid))
        c = cls[fid]
        if c == "sel" and r != we:
            bad = ("selected-not-recorded" if r == be else "selected-recorded-wrong", fid, r, be, we)
        elif c == "unsel" and r != be:
            bad = ("unselected-recorded" if r == we else "unselected-altered", fid, r, be, we)
        elif c == "amb" and r != be and r != we:
            bad = ("entry-neither-basis-nor-working", fid, r, be, we)
        if bad:
            break
    if bad:
        sel = "all" if specific is None and not exclude else ("exclude" if exclude else "specific")
        acc.violation("commit:%s:%s" % (bad[0], sel),
                      dict(case, file_id=bad[1], recorded=bad[2], basis=bad[3], working=bad[4]))
        return
    # ---- the working tree afterwards
    wt = w.open()
    with wt.lock_read():
        if wt.last_revision() != new or wt.get_parent_ids() != [new]:
            acc.violation("after-commit:tree-parents-wrong", dict(case, got=wt.get_parent_ids()))
            return
        if W.rev_entries(wt.basis_tree()) != got:
            acc.violation("after-commit:basis-tree-differs-from-revision", case)
            return
        work2 = W.wt_entries(wt)
        ch2 = changed_ids(wt)
    if mwt.dir_snapshot(w.co) != st["disk"]:
        acc.violation("after-commit:working-files-modified", case)
        return
    orphans = set()
    for fid in sorted(set(work) | set(work2)):
        we, w2 = work.get(fid), work2.get(fid)
        missing = we is not None and we[2] is None
        c = cls.get(fid)
        # a missing entry below a missing directory that this commit unversioned cannot stay versioned
        orphaned = False
        if missing:
            par, seen_p = we[0], set()
            while par in work and par not in seen_p:
                seen_p.add(par)
                if work[par][2] is None and work2.get(par) is None:
                    orphaned = True
                    break
                par = work[par][0]
        if missing and orphaned:
            orphans.add(fid)
            ok = w2 is None or w2 == we
        elif missing and c == "sel":
            ok = w2 is None                  # a selected missing file is unversioned by the commit
        elif missing and c == "amb":
            ok = w2 is None or w2 == we
        else:
            ok = w2 == we
        if not ok:
            acc.violation("after-commit:working-inventory-changed", dict(case, file_id=fid, before=we, after=w2))
            return
    for fid, c in sorted(cls.items()):
        if fid in orphans:
            continue
        if c == "sel" and fid in ch2:
            acc.violation("after-commit:selected-path-still-reported-changed", dict(case, file_id=fid, change=ch2[fid]))
            return
        if c == "unsel" and fid in differs and fid not in ch2:
            acc.violation("after-commit:unselected-pending-change-lost", dict(case, file_id=fid))
            return
        if c == "unsel" and fid in st["changed"] and ch2.get(fid) != st["changed"][fid]:
            # the same pending change, compared by everything but paths (parents may have been renamed)
            a, b2 = st["changed"][fid], ch2.get(fid)
            if b2 is None or a[1:] != b2[1:]:
                acc.violation("after-commit:unselected-pending-change-altered", dict(case, file_id=fid, before=a, after=b2))
                return
    if specific is None and not exclude and allow_pointless:
        # everything was selected: nothing the user did is left, so an immediate second commit is pointless
        try:
            wt = w.open()
            wt.commit(message="again", rev_id=b"again", timestamp=TS + 1, timezone=0, committer=WHO,
                      allow_pointless=False)
        except Exception as e:  # noqa
            if type(e).__name__ != "PointlessCommit":
                acc.violation("after-commit:follow-up-commit:%s:%s" % (type(e).__name__, _frame(e)),
                              dict(case, error=repr(e)[:200]))
                return
        else:
            acc.violation("after-commit:follow-up-commit-not-pointless", dict(case, changes=sorted(map(repr, ch2))))
            return
        acc.count("follow_up_commits_pointless")
    acc.outcomes.add(("committed", len([f for f in differs if got.get(f) != basis.get(f)]), len(differs)))
    acc.count("committed")


def _case_work(chunk):
    acc = par.Acc()
    w = world()
    for hist, ops, full in chunk:
        wt = build_state(w, hist, ops)
        if wt is None:
            raise HarnessError("state no longer applicable: %r %r" % (hist, ops))
        del wt
        tdir = os.path.join(w.root, "state")
        W.copytree(w.co, tdir)
        snap = w.hist[hist][0]
        st = observe_state(w)
        paths = set(W.paths_of(st["basis"]).values()) | set(W.paths_of(st["work"]).values()) | set(st["unversioned"])
        paths.discard(None)
        sels = selections(paths, full)
        for specific, exclude in sels:
            check_case(acc, w, st, hist, ops, specific, exclude, snap, tdir)
        # a commit that must be refused as pointless (nothing selected) changes nothing
        check_case(acc, w, st, hist, ops, (), None, snap, tdir, allow_pointless=False)
        if st["changed"]:
            check_case(acc, w, st, hist, ops, None, None, snap, tdir, allow_pointless=False)
        acc.count("states")
        acc.count("states_with_changes", 1 if st["changed"] else 0)
        acc.sample({"history": hist, "ops": [list(o) for o in ops], "selections": len(sels),
                    "paths": sorted(paths)})
    return acc


# ---- faults --------------------------------------------------------------------------------

class Boom(Exception):
    pass


def run_fault(acc, w, st, case, snap, tdir, specific, k=None, stage=None):
    """One commit with a fault at transport op k (0-based, counted over all ops) or at a pipeline stage."""
    from breezy.branch import Branch
    from breezy.mutabletree import MutableTree
    from mc import vfs
    w.restore(snap, tdir)
    w.flags.clear()
    count = [0]
    hit = []

    def hook(op):
        i = count[0]
        count[0] += 1
        if k is not None and i == k:
            hit.append(op.brief())
            raise vfs.InjectedFault(op)
    kw = {}
    installed = []
    if stage == "start_commit":
        def h(tree):
            raise Boom("start_commit")
        MutableTree.hooks.install_named_hook("start_commit", h, "verif")
        installed.append((MutableTree.hooks, "start_commit", h))
    elif stage == "pre_commit":
        def h(*a):
            raise Boom("pre_commit")
        Branch.hooks.install_named_hook("pre_commit", h, "verif")
        installed.append((Branch.hooks, "pre_commit", h))
    elif stage == "message_callback":
        def cb(c):
            raise Boom("message_callback")
        kw = {"message": None, "message_callback": cb}
    w.store.hook = hook
    err = None
    try:
        try:
            do_commit(w, specific, None, **kw)
        except Exception as e:  # noqa
            err = e
    finally:
        w.store.hook = None
        for hooks, name, h in installed:
            hooks.uninstall_named_hook(name, "verif")
    acc.n += 1
    where = stage or "op"
    committed = bool(w.flags.get("builder_committed"))
    phase = "after-write-group-commit" if committed else "before-write-group-commit"
    tip, revs = fresh_view(w)
    detail = dict(case, fault_at=(hit[0] if hit else stage), op_index=k, error=repr(err)[:200], phase=phase)
    if err is None:
        if k is not None and not hit:
            return count[0]          # k beyond the last op: the caller stops
        # the fault was absorbed: the commit must then have completed
        if tip != (st["tip"][0] + 1, b"new") or b"new" not in revs:
            acc.violation("fault:%s:commit-returned-but-not-recorded" % where, detail)
        else:
            acc.outcomes.add(("fault-absorbed", phase))
            acc.count("faults_absorbed")
        return count[0]
    acc.nt((case["history"], tuple(map(tuple, case["ops"])), specific, k, stage))
    if tip != st["tip"]:
        acc.violation("fault:%s:commit-raised-but-tip-moved" % where, detail)
    elif revs != st["revs"]:
        acc.violation("fault:%s:commit-raised-but-revision-visible:%s" % (where, phase), detail)
    else:
        acc.outcomes.add(("fault-clean", phase, type(err).__name__))
        acc.count("faults_clean")
    # a later commit by a fresh process still works (the repository is not wedged)
    return count[0]


def _fault_work(chunk):
    acc = par.Acc()
    w = world()
    for hist, ops, specific in chunk:
        wt = build_state(w, hist, ops)
        if wt is None:
            raise HarnessError("state no longer applicable: %r %r" % (hist, ops))
        del wt
        tdir = os.path.join(w.root, "state")
        W.copytree(w.co, tdir)
        snap = w.hist[hist][0]
        st = observe_state(w)
        case = {"history": hist, "ops": [list(o) for o in ops], "specific_files": specific}
        # fault-free run: number of operations
        n = run_fault(acc, w, st, case, snap, tdir, specific, k=None)
        acc.count("fault_free_ops", n)
        for k in range(n):
            run_fault(acc, w, st, case, snap, tdir, specific, k=k)
        for stage in ("start_commit", "message_callback", "pre_commit"):
            run_fault(acc, w, st, case, snap, tdir, specific, stage=stage)
        acc.count("fault_scenarios")
    return acc


FAULT_CORE = [
    ("h1", (("write", "a", b"a2\n"),), None),
    ("empty", (("addfile", "n", b"n1\n"),), None),
    ("h1", (("rename", "d", "e"), ("write", "a", b"a2\n")), ("a",)),
    ("h2", (("remove", "a"), ("addfile", "n", b"n1\n")), None),
    ("merge", (("write", "a", b"a2\n"),), None),
    ("h1", (("rmdisk", "a"), ("addlink", "m", "a")), None),
]


# ---- driver ----------------------------------------------------------------------------------

def run(ctx):
    hists = HISTORIES
    depth = ctx.q(2, 3)
    full_depth = ctx.q(1, 2)
    states, raw = generate_states(ctx, hists, depth, h3_depth=ctx.q(1, 2))
    # (selected-file commits of a pending merge are all refused: one level of states is enough there)
    # quick tier: the second history (directory rename + path reuse) is explored one op deep only
    items = [(h, ops, len(ops) <= full_depth) for h, ops in states
             if (h != "merge" or len(ops) <= 1) and (ctx.thorough or h != "h2" or len(ops) <= 1)
             and (h != "h3" or len(ops) <= ctx.q(1, 2))]
    acc = par.merge(par.pmap(_case_work, items, seed=ctx.seed, chunks_per_job=8))
    # determinism audit: the first states twice
    a1 = _case_work(items[1:3])
    a2 = _case_work(items[1:3])
    if (a1.n, sorted(map(repr, a1.outcomes)), a1.violations) != (a2.n, sorted(map(repr, a2.outcomes)), a2.violations):
        raise HarnessError("non-deterministic commit results")
    core = list(FAULT_CORE)
    if ctx.thorough:
        extra = [s for s in states if len(s[1]) == 1][:24]
        core += [(h, ops, None) for h, ops in extra]
    facc = par.merge(par.pmap(_fault_work, core, seed=ctx.seed, chunks_per_job=1))
    total = par.merge([acc, facc])
    best = {}
    for sig, d in total.violations:
        k = (len(d.get("ops", [])), len(repr(d)))
        if sig not in best or k < best[sig][0]:
            best[sig] = (k, d)
    for sig in sorted(best):
        ctx.violation(sig, best[sig][1])
    ctx.assumptions += [
        "the working tree is a lightweight checkout: dirstate writes happen on /dev/shm outside the fault seam; faults are injected at the branch/repository transport operations only",
        "an injected fault is a TransportError raised instead of performing the operation",
        "file ids of added paths are given explicitly; contents are drawn from two values per path",
    ]
    return {
        "evaluations": total.n,
        "commit_cases": acc.n,
        "fault_runs": facc.n,
        "distinct_nontrivial": len(total.nontrivial),
        "rule": "commit case = (history, tree state, specific_files, exclude); non-trivial = the selection splits the pending changes (>=1 definitely selected and >=1 definitely unselected changed id); fault run = commit that raised because of the injected fault",
        "histories": list(hists),
        "op_alphabet": len(ALPHABET),
        "max_ops": depth,
        "full_selection_depth": full_depth,
        "sequences_tried": raw,
        "distinct_states": len(states),
        "states_committed_from": len(items),
        "states_with_pending_changes": acc.counters.get("states_with_changes", 0),
        "committed": acc.counters.get("committed", 0),
        "refused": {k[8:]: v for k, v in acc.counters.items() if k.startswith("refused:")},
        "fault_scenarios": facc.counters.get("fault_scenarios", 0),
        "fault_free_ops_total": facc.counters.get("fault_free_ops", 0),
        "faults_clean": facc.counters.get("faults_clean", 0),
        "faults_absorbed": facc.counters.get("faults_absorbed", 0),
        "follow_up_commits_pointless": acc.counters.get("follow_up_commits_pointless", 0),
        "distinct_outcomes": len(total.outcomes),
        "samples": acc.samples[:3],
        "exhaustive": True,
    }


def replay(ctx, data):
    d = data["first"]
    w = world()
    ops = tuple(tuple(o) for o in d["ops"])
    ops = tuple(tuple(x.encode() if i == 2 and o[0] in ("write", "addfile", "unknown", "tofile") and isinstance(x, str) else x
                      for i, x in enumerate(o)) for o in ops)
    hist = d["history"]
    if build_state(w, hist, ops) is None:
        print("  state not applicable")
        return True
    tdir = os.path.join(w.root, "state")
    W.copytree(w.co, tdir)
    snap = w.hist[hist][0]
    st = observe_state(w)
    acc = par.Acc()
    spec = d.get("specific_files")
    spec = None if spec is None else tuple(spec)
    if "op_index" in d:
        case = {"history": hist, "ops": d["ops"], "specific_files": spec}
        stage = d["fault_at"] if d.get("op_index") is None else None
        run_fault(acc, w, st, case, snap, tdir, spec, k=d.get("op_index"), stage=stage)
    else:
        exc = d.get("exclude")
        check_case(acc, w, st, hist, ops, spec, None if exc is None else tuple(exc), snap, tdir,
                   allow_pointless=d.get("allow_pointless", True))
    for sig, det in acc.violations:
        print("  ", sig, det)
    return not acc.violations
