"""C27 - Lock operations leave recoverable state at every crash point.

Crash enumeration: for each LockDir operation (attempt_lock free/contended/steal,
unlock, force_break, force_break_corrupt, wait_lock) the mutating transport ops
are recorded on the seam; every prefix (plus torn variants of the non-atomic
info write) is materialised in a fresh store and a *fresh* LockDir must find the
lock free, or held with parseable holder info, and be able to acquire it directly
or after an explicit break.  Fault enumeration: a TransportError is injected at
each k-th transport op (reads and writes; pairs in the thorough tier); a failed
acquisition must not leave lock/held carrying the failing process's nonce, and
the resulting state must again be recoverable by another process.
"""
import re

from mc import crash, procs
from mc.evidence import HarnessError
from mc.vfs import new_store

ID = "C27"
LEVEL = "fault_enumeration"
TECHNIQUE = "exhaustive crash-prefix/torn-write enumeration and k-th-operation fault injection on the real LockDir over a logging transport seam"

DEAD_PID = 4194305
CORRUPT = b"\x00\x01 not: [yaml"


def _N(x):
    if x is None:
        return None
    return x.decode() if isinstance(x, bytes) else str(x)


class W:
    def __init__(self):
        import breezy.lockdir as ld
        from breezy import config, errors
        self.ld = ld
        self.errors = errors
        self.config = config
        self.store = new_store()
        self.rec = new_store()     # recovery store
        self.scratch = new_store() # crash-state construction
        procs.install_virtual_time()
        self.ctr = [0]

        def rand_chars(n):
            self.ctr[0] += 1
            return ("n%d" % self.ctr[0]).ljust(n, "z")[:n]
        ld.rand_chars = rand_chars
        self.steal = None

    def set_steal(self, on):
        if self.steal != on:
            self.config.GlobalStack().set("locks.steal_dead", on)
            self.steal = on

    def initial(self, kind):
        s = self.store
        s.restore({})
        t = s.transport()
        self.ld.LockDir(t, "lock").create()
        if kind != "free":
            l = self.ld.LockDir(t, "lock")
            l.attempt_lock()
            raw = s.raw()
            info = raw.get_bytes("lock/held/info")
            if kind == "dead":
                info = re.sub(rb"pid: \d+", b"pid: %d" % DEAD_PID, info)
            elif kind == "corrupt":
                info = CORRUPT
            elif kind == "empty":
                info = b""
            raw.put_bytes("lock/held/info", info)
        return s.walk()


def disk_nonce(store):
    try:
        b = store.raw().get_bytes("lock/held/info")
    except Exception:
        return None
    m = re.search(rb"nonce: (\S+)", b)
    return m.group(1).decode().strip("'\"") if m else "?"


# scenario: name, initial kind, steal, setup(w, t) -> ctx, op(w, ctx) ; op is what is crashed/faulted
def _mk(w):
    return w.ld.LockDir(w.store.transport(), "lock")


def sc_attempt(w):
    ld = _mk(w)
    return ld, (lambda: ld.attempt_lock()), True


def sc_wait(w):
    ld = _mk(w)
    return ld, (lambda: ld.wait_lock(timeout=3, poll=1, max_attempts=2)), True


def sc_lockwrite(w):
    ld = _mk(w)
    return ld, (lambda: ld.lock_write()), True


def sc_unlock(w):
    ld = _mk(w)
    ld.attempt_lock()
    return ld, (lambda: ld.unlock()), False


def sc_break(w):
    ld = _mk(w)
    info = ld.peek()
    return ld, (lambda: ld.force_break(info)), False


def sc_break_corrupt(w):
    ld = _mk(w)
    return ld, (lambda: ld.force_break_corrupt(CORRUPT)), False


def sc_lock_unlock(w):
    ld = _mk(w)

    def op():
        ld.attempt_lock()
        ld.unlock()
    return ld, op, False


SCENARIOS = [
    # name, init, steal, factory
    ("attempt_lock/free", "free", False, sc_attempt),
    ("attempt_lock/held-alive", "alive", False, sc_attempt),
    ("attempt_lock/held-dead", "dead", False, sc_attempt),
    ("attempt_lock/steal-dead", "dead", True, sc_attempt),
    ("wait_lock/free", "free", False, sc_wait),
    ("wait_lock/held-alive", "alive", False, sc_wait),
    ("wait_lock/steal-dead", "dead", True, sc_wait),
    ("lock_write/free", "free", False, sc_lockwrite),
    ("unlock", "free", False, sc_unlock),
    ("lock+unlock", "free", False, sc_lock_unlock),
    ("force_break/alive", "alive", False, sc_break),
    ("force_break/dead", "dead", False, sc_break),
    ("force_break_corrupt", "corrupt", False, sc_break_corrupt),
]


def recover(w, state, pre_corrupt):
    """A fresh process looks at `state`.  Returns None or (sig, detail)."""
    errors = w.errors
    r = w.rec
    r.restore(state)
    r.log.clear()
    ld = w.ld.LockDir(r.transport(), "lock")
    steps = []
    try:
        try:
            info = ld.peek()
        except errors.LockCorrupt as e:
            raw_info = r.raw().get_bytes("lock/held/info")
            if raw_info != pre_corrupt:
                return ("recovery:held-with-unreadable-info", {"info": raw_info[:60]})
            steps.append("force_break_corrupt")
            ld.force_break_corrupt(e.file_data)
            info = None
        if info is not None:
            steps.append("force_break")
            ld.force_break(info)
        steps.append("attempt_lock")
        ld.attempt_lock()
        if not ld.is_held or disk_nonce(r) != _N(ld.nonce):
            return ("recovery:acquired-but-not-on-disk", {"steps": steps})
        steps.append("unlock")
        ld.unlock()
        if r.raw().has("lock/held"):
            return ("recovery:held-remains-after-unlock", {"steps": steps})
    except Exception as e:  # noqa
        return ("recovery:%s-failed:%s" % (steps[-1] if steps else "peek", type(e).__name__),
                {"steps": steps, "error": repr(e)[:200]})
    return None


def paths_of(state):
    return sorted(p for p in state if p.startswith("/lock"))


def run(ctx):
    w = W()
    n_eval = 0
    nontrivial = set()
    samples = []
    vio = {}

    def report(sig, detail):
        if sig not in vio:
            vio[sig] = detail

    per_scn = {}
    for name, init, steal, fac in SCENARIOS:
        w.set_steal(steal)
        s0 = w.initial(init)
        pre_corrupt = CORRUPT if init == "corrupt" else None
        # ---- fault-free run: record ops
        w.store.restore(s0)
        ld, op, is_acq = fac(w)
        s1 = w.store.walk()        # state after the scenario's set-up (e.g. lock taken for "unlock")
        ops, res, exc = crash.record(w.store, op)
        muts = crash.mutating(ops)
        nops = len(ops)
        final = w.store.walk()
        v = recover(w, final, pre_corrupt) if not (is_acq and exc is None) else None
        if is_acq and exc is None:
            # lock is (legitimately) held at the end: recovery = break then acquire
            v = recover(w, final, pre_corrupt)
        if v:
            report("nofault:" + name + ":" + v[0], v[1])
        # ---- crash prefixes
        ncrash = 0
        for label, snap in crash.crash_states(w.scratch, s1, ops, torn=True):
            snap = dict(snap)
            n_eval += 1
            ncrash += 1
            if snap != s1 and snap != final:
                nontrivial.add(("crash", name, label))
            v = recover(w, snap, pre_corrupt)
            if v:
                report("crash:%s" % v[0], dict(v[1], scenario=name, crash_after_mutating_ops=label[0],
                                               torn_bytes=label[1],
                                               ops=[o.brief() for o in muts], paths=paths_of(snap)))
            if len(samples) < 2 and label[0] == 2:
                samples.append({"scenario": name, "crash_after": label[0], "torn": label[1],
                                "ops": [o.brief() for o in muts], "paths_at_crash": paths_of(snap)})
        # ---- single faults at each k-th op (reads included)
        nfault = 0
        positions = [(k,) for k in range(1, nops + 1)]
        if ctx.thorough:
            positions += [(a, b) for a in range(1, nops + 1) for b in range(a + 1, nops + 4)]
        for ks in positions:
            w.store.restore(s0)
            w.ctr[0] = 1000
            ld, op, is_acq = fac(w)
            h = crash.FaultsAt(ks)
            w.store.hook = h
            err = None
            try:
                op()
            except Exception as e:  # noqa
                err = e
            finally:
                w.store.hook = None
            if not h.fired:
                continue
            n_eval += 1
            nfault += 1
            nontrivial.add(("fault", name, ks))
            dn = disk_nonce(w.store)
            mine = _N(getattr(ld, "nonce", None))
            det = {"scenario": name, "fault_at_ops": list(ks), "faulted": [o.brief() for o in h.fired],
                   "error": type(err).__name__ if err else None}
            if is_acq:
                if err is not None and mine is not None and dn == mine:
                    report("fault:failed-acquisition-leaves-lock-held:%s" % (
                        "verify-peek" if h.fired[-1].kind == "get" else h.fired[-1].kind), det)
                if err is None and not (ld.is_held and dn == mine):
                    report("fault:acquisition-returned-without-lock", det)
            v = recover(w, w.store.walk(), pre_corrupt)
            if v:
                report("fault:%s" % v[0], dict(v[1], **det))
        per_scn[name] = {"ops": nops, "mutating": len(muts), "crash_states": ncrash, "fault_runs": nfault}
    for sig in sorted(vio):
        ctx.violation(sig, vio[sig])
    ctx.assumptions += [
        "crash = prefix of the process's transport-op sequence; put_bytes_non_atomic may be torn (0,1,half,len-1 bytes); no reordering",
        "fault = TransportError raised instead of performing the k-th transport operation",
        "dead holder = pid %d (above PID_MAX_LIMIT) written into held/info" % DEAD_PID,
    ]
    if not samples:
        raise HarnessError("no samples")
    return {
        "evaluations": n_eval,
        "distinct_nontrivial": len(nontrivial),
        "rule": "one evaluation = one crash state (prefix or torn write) recovered by a fresh LockDir, or one fault-injected run followed by recovery; non-trivial = crash state differing from both the initial and final state, or a run in which the injected fault actually fired",
        "scenarios": per_scn,
        "fault_arity": 2 if ctx.thorough else 1,
        "samples": samples,
        "exhaustive": True,
    }
