"""File-system seam for C13: counted, fault-injectable wrappers around the file-system
primitives that the tree-transform modules reference.

Nothing in /repo is edited.  At install() time the *names* through which
breezy/transform.py, breezy/bzr/transform.py and breezy/git/transform.py reach the
file system are rebound (module attribute patching):

* ``os`` in each of the three modules -> a proxy module object whose mutating functions
  (rename, unlink, rmdir, mkdir, symlink, link, chmod, utime) and stat/lstat are wrapped;
* ``osutils`` in the bzr and git transform modules -> a proxy of breezy.osutils whose
  ``delete_any``, ``rename``, ``chmod_if_possible``, ``lstat``, ``rmtree`` are wrapped;
* ``delete_any`` in breezy.transform (imported there with ``from .osutils import``);
* ``open`` in the bzr/git transform modules (shadows the builtin; only 'w' modes count);
* ``shutil`` in the bzr/git transform modules -> proxy with ``rmtree`` wrapped.

The real ``apply`` / ``__init__`` / ``finalize`` of InventoryTreeTransform and
GitTreeTransform are wrapped (class attribute patching) only to know the *window* a call
falls into: 'build' (transform constructed, apply not yet entered), 'apply' (between
entry and exit of the real apply()), 'finalize' (finalize() outside apply).  Calls outside
any window are passed through uncounted.
"""
import builtins
import errno
import os
import shutil
import types

MUTATING_OS = ("rename", "unlink", "remove", "rmdir", "mkdir", "symlink", "link", "chmod", "utime")
READING_OS = ("stat", "lstat")
OSUTILS_NAMES = ("delete_any", "rename", "chmod_if_possible", "lstat", "rmtree")


class InjectedEIO(OSError):
    pass


class Seam:
    def __init__(self):
        self.installed = False
        self.window = None
        self.depth = 0
        self.reset()

    def reset(self, fail=None, fail2=None):
        """fail = (window, k): the k-th (1-based) counted call in that window raises EIO."""
        self.log = []            # (window, name, path, path2)
        self.counts = {"build": 0, "apply": 0, "finalize": 0}
        self.fail = fail
        self.fail2 = fail2
        self.fired = []
        self.window = None
        self.depth = 0
        self.applies = 0
        self.in_rollback = False
        self.rollback_calls = 0

    # -- wrappers ---------------------------------------------------------
    def _wrap(self, name, fn):
        seam = self

        def wrapper(*a, **kw):
            w = seam.window
            if w is not None:
                seam.counts[w] += 1
                k = seam.counts[w]
                p1 = a[0] if a and isinstance(a[0], (str, bytes)) else None
                p2 = a[1] if len(a) > 1 and isinstance(a[1], (str, bytes)) else None
                if name.endswith("symlink"):
                    p1, p2 = p2, None
                seam.log.append((w, name, p1, p2, seam.in_rollback, k))
                if seam.fail == (w, k) or seam.fail2 == (w, k):
                    seam.fired.append((w, k, name, p1, p2, seam.in_rollback))
                    raise InjectedEIO(errno.EIO, "injected EIO", p1 if isinstance(p1, str) else None)
            return fn(*a, **kw)
        wrapper.__name__ = getattr(fn, "__name__", name)
        wrapper.__wrapped__ = fn
        return wrapper

    def _proxy(self, mod, names, prefix):
        p = types.ModuleType(mod.__name__)
        p.__dict__.update(mod.__dict__)
        for n in names:
            if hasattr(mod, n):
                setattr(p, n, self._wrap(prefix + n, getattr(mod, n)))
        p.__verif_proxy_of__ = mod
        return p

    def _open(self):
        seam = self
        real_open = builtins.open

        def open_(file, mode="r", *a, **kw):
            if seam.window is not None and any(c in mode for c in "wax+"):
                return seam._wrap("open:w", real_open)(file, mode, *a, **kw)
            return real_open(file, mode, *a, **kw)
        return open_

    def _window_method(self, cls, name, window):
        seam = self
        real = cls.__dict__[name]

        def method(self_, *a, **kw):
            prev = seam.window
            seam.window = window
            if window == "apply":
                seam.applies += 1
            try:
                return real(self_, *a, **kw)
            finally:
                seam.window = None if window == "apply" else prev
        method.__wrapped__ = real
        method.__name__ = name
        return real, method

    def install(self):
        if self.installed:
            return
        import breezy.bzr.transform as bt
        import breezy.git.transform as gt
        import breezy.transform as t
        from breezy import osutils
        self._saved = []

        def setattr_(obj, name, val):
            self._saved.append((obj, name, obj.__dict__.get(name, _MISSING)))
            setattr(obj, name, val)

        os_names = MUTATING_OS + READING_OS
        for m in (t, bt, gt):
            if m.__dict__.get("os") is not os:
                raise RuntimeError("%s does not reference the os module as 'os'" % m.__name__)
            setattr_(m, "os", self._proxy(os, os_names, "os."))
        if t.__dict__.get("delete_any") is not osutils.delete_any:
            raise RuntimeError("breezy.transform.delete_any is not osutils.delete_any")
        setattr_(t, "delete_any", self._wrap("delete_any", osutils.delete_any))
        for m in (t, bt, gt):
            if m.__dict__.get("osutils") is not osutils:
                raise RuntimeError("%s does not reference breezy.osutils as 'osutils'" % m.__name__)
            setattr_(m, "osutils", self._proxy(osutils, OSUTILS_NAMES, "osutils."))
        for m in (bt, gt):
            if m.__dict__.get("shutil") is shutil:
                setattr_(m, "shutil", self._proxy(shutil, ("rmtree",), "shutil."))
            setattr_(m, "open", self._open())

        # windows
        for cls in (bt.InventoryTreeTransform, gt.GitTreeTransform):
            real, meth = self._window_method(cls, "apply", "apply")
            self._saved.append((cls, "apply", real))
            cls.apply = meth
            real_init = cls.__dict__["__init__"]
            seam = self

            def init(self_, *a, _real=real_init, **kw):
                _real(self_, *a, **kw)
                if seam.window is None:
                    seam.window = "build"
            self._saved.append((cls, "__init__", real_init))
            cls.__init__ = init
        for cls in (bt.DiskTreeTransform, gt.DiskTreeTransform):
            real_fin = cls.__dict__["finalize"]
            seam = self

            def finalize(self_, _real=real_fin):
                # only the outermost working-tree transform closes the build window
                prev = seam.window
                if prev != "apply" and self_._tree is not None and isinstance(
                        self_, (bt.InventoryTreeTransform, gt.GitTreeTransform)) and not isinstance(
                        self_, (bt.TransformPreview, gt.GitTransformPreview)):
                    seam.window = "finalize"
                    try:
                        return _real(self_)
                    finally:
                        seam.window = None
                return _real(self_)
            self._saved.append((cls, "finalize", real_fin))
            cls.finalize = finalize
        # rollback marker (classification of double faults only; not an oracle input)
        real_rb = t._FileMover.rollback
        seam = self

        def rollback(self_):
            seam.in_rollback = True
            seam.rollback_calls += 1
            try:
                return real_rb(self_)
            finally:
                seam.in_rollback = False
        self._saved.append((t._FileMover, "rollback", real_rb))
        t._FileMover.rollback = rollback
        self.installed = True

    def uninstall(self):
        if not self.installed:
            return
        for obj, name, old in reversed(self._saved):
            if old is _MISSING:
                delattr(obj, name)
            else:
                setattr(obj, name, old)
        self.installed = False


_MISSING = object()
SEAM = Seam()
