"""C22 - Revision numbers and revision specifiers resolve consistently.

Bounded exhaustive enumeration: every DAG history with <= N revisions (ordered
parents, <= 2 parents, several roots, merges of merges; variants with a ghost
right-hand parent) is committed to a real 2a repository; for every single-tip
history and every pair of tips the branch is opened afresh and EVERY revision
number, dotted revision number, revision id and EVERY specifier string of a
grammar over the history (N, -N, revno:N, dotted, revid:, last:N, before:<any
of those> nested twice, tag:, DWIM bare tags/revids, ancestor:<every other
tip>, mainline:<..>, ranges a..b through the option parser) is resolved through
get_rev_id / revision_id_to_revno / dotted_revno_to_revision_id /
revision_id_to_dotted_revno / get_revision_id_to_revno_map /
iter_merge_sorted_revisions and RevisionSpec.in_history / as_revision_id, on
locked and unlocked branches and in several query orders (the caches differ).
Tip moves: for every two-tip history and both orders of (old tip, new tip) (and
tip <-> parent for single-tip histories <= 4) a write-locked, cache-warm Branch
object is moved by set_last_revision_info / generate_revision_history /
pull(overwrite) while audit hooks on pre/post_change_branch_tip query the history
APIs; the oracle for the new tip is then run on the same object and after reopening.
Oracle: reference graph computations on the declarative DAG written from the
documented definitions (left-hand history, merge-sorted numbering rules), the
bijection / round trip laws of the statement, and each specifier's help text.
"""
from mc import gen, par
from mc.evidence import HarnessError

from . import _dagworld as dw

ID = "C22"
LEVEL = "exploration"
TECHNIQUE = "exhaustive small-scope enumeration of DAG histories x all revnos / dotted revnos / specifier strings, against reference graph computations"

rid = dw.rid
NULL = dw.NULL


def dot(revno):
    return ".".join(str(x) for x in revno)


# --------------------------------------------------------------------------
# expectations.  An expectation is a list of acceptable outcomes:
#   ("ok", rev_id)  |  ("err", {exception class names})

INVALID = ("err", frozenset(["InvalidRevisionSpec"]))


class World:
    """Reference view of one branch (tip) inside one repository (dag)."""

    def __init__(self, dag, ghosts, tip, tags):
        self.dag = dag
        self.ref = dw.Ref(dag, ghosts)
        self.tip = tip
        self.lh = self.ref.lefthand(tip) if tip is not None else []
        self.L = len(self.lh)
        self.anc = self.ref.anc(tip)
        if tip is None:
            self.order, self.depth, self.revno = [], {}, {}
        else:
            self.order, self.depth, self.revno = self.ref.merge_sort(tip)
        self.by_revno = {v: k for k, v in self.revno.items()}
        self.tags = tags            # name -> rev id bytes
        self.present = [i for i in range(len(dag)) if i not in self.ref.ghosts]

    def id2node(self, revid):
        n = dw.num(revid)
        return n if isinstance(n, int) and n < len(self.dag) and n not in self.ref.ghosts else None

    def ghost_node(self, revid):
        for g in self.ref.ghosts:
            if dw.node_id(self.ref, g) == revid:
                return g
        return None

    def mainline_revno(self, revid):
        """revno reported with a resolved id: position in the left-hand history, 0 for null:, else None."""
        if revid == NULL:
            return 0
        n = self.id2node(revid)
        if n is not None and n in self.lh:
            return self.lh.index(n) + 1
        return None

    # ---- base specifiers: return (acceptable outcomes)
    def exp_number(self, N):
        L = self.L
        if N == 0:
            return [("ok", NULL)]
        if N > 0:
            return [("ok", rid(self.lh[N - 1]))] if N <= L else [INVALID]
        idx = 1 if -N >= L else L + N + 1
        if L == 0:
            return [INVALID]
        return [("ok", rid(self.lh[idx - 1]))]

    def exp_dotted(self, revno):
        if len(revno) == 1:
            return self.exp_number(revno[0])
        if revno in self.by_revno:
            return [("ok", rid(self.by_revno[revno]))]
        return [INVALID]

    def exp_revid(self, revid, how):
        node = self.id2node(revid)
        if node is not None or revid == NULL:
            return [("ok", revid)]
        # not in the repository: in_history refuses, as_revision_id passes the id through
        return [INVALID, ("ok", revid)] if how == "as_revision_id" else [INVALID]

    def exp_last(self, N):
        L = self.L
        if N is None:
            return [("ok", rid(self.tip))] if L else [("err", frozenset(["NoCommits"]))]
        if N <= 0:
            return [INVALID]
        if N <= L:
            return [("ok", rid(self.lh[L - N]))]
        if N == L + 1:
            # one before the first revision: help text silent; null:, the first revision or a refusal
            return [("ok", NULL), INVALID] + ([("ok", rid(self.lh[0]))] if L else [])
        return [INVALID] + ([("ok", rid(self.lh[0]))] if L else [])

    def exp_tag(self, name, how):
        if name not in self.tags:
            return [("err", frozenset(["NoSuchTag"]))]
        return self.exp_revid(self.tags[name], how)

    def exp_before(self, inner):
        """inner: acceptable outcomes of the inner spec -> outcomes of before:inner."""
        out = []
        for o in inner:
            if o[0] == "err":
                out.append(o)
                if o == INVALID:
                    # the inner specifier is resolved unchecked; an id that is not in the
                    # repository may also surface as NoSuchRevision
                    out.append(("err", frozenset(["NoSuchRevision"])))
                continue
            revid = o[1]
            if revid == NULL:
                out.append(INVALID)
                continue
            node = self.id2node(revid)
            if node is None:
                out.append(INVALID)
                out.append(("err", frozenset(["NoSuchRevision"])))
                continue
            ps = self.dag[node]
            if not ps:
                out.append(("ok", NULL))
                out.append(INVALID)       # "No parents for revision" is an accepted refusal
            else:
                p = ps[0]
                out.append(("ok", dw.node_id(self.ref, p)))
                if p in self.ref.ghosts:
                    out.append(INVALID)
        return out

    def exp_mainline(self, inner):
        out = []
        for o in inner:
            if o[0] == "err":
                out.append(o)
                continue
            node = self.id2node(o[1])
            g = self.ghost_node(o[1])
            if g is not None and self.tip is not None:
                # a ghost that the history refers to: the mainline revision that merged it, or a refusal
                out.append(INVALID)
                for m in self.lh:
                    if g in self.ref.anc_g(m):
                        out.append(("ok", rid(m)))
                        break
                continue
            if node is None or self.tip is None or node not in self.anc:
                out.append(INVALID)
                if o[1] == NULL:
                    # null: is an ancestor of everything: itself (revno 0) or the oldest mainline revision
                    out.append(("ok", NULL))
                    if self.L:
                        out.append(("ok", rid(self.lh[0])))
                continue
            m = self.ref.lefthand_merger(node, self.tip)
            out.append(("ok", rid(m)))
        return out

    def exp_ancestor(self, other_tip):
        if self.tip is None or other_tip is None:
            return [("err", frozenset(["NoCommits"]))]
        heads, common = self.ref.lcas(self.tip, other_tip)
        common_ghosts = self.ref.ghosts & self.ref.anc_g(self.tip) & self.ref.anc_g(other_tip)
        if not common:
            out = [("err", frozenset(["NoCommonAncestor"]))]
            if common_ghosts:
                # the only thing both sides refer to is a ghost: its id, or a refusal
                out.append(INVALID)
                out.extend(("ok", dw.node_id(self.ref, g_)) for g_ in sorted(common_ghosts))
            return out
        if common_ghosts:
            # a ghost both sides refer to is a candidate too (a graph node without a revision):
            # any common ancestor or a refusal
            return [("ok", rid(x)) for x in sorted(common)] + [("err", frozenset(["NoCommonAncestor"]))]
        if len(heads) == 1:
            return [("ok", rid(next(iter(heads))))]
        # criss-cross: "the last revision that existed in both branches" is not unique; any common
        # ancestor of all the candidates (or one of the candidates) fits the help text
        acc = set(heads)
        inter = None
        for h in heads:
            inter = set(self.ref.anc(h)) if inter is None else inter & self.ref.anc(h)
        acc |= inter
        out = [("ok", rid(x)) for x in sorted(acc)]
        if not inter:
            out.append(("err", frozenset(["NoCommonAncestor"])))
        return out


def base_specs(w, how, other_url=None, other_tip=None):
    """[(string, acceptable outcomes, class)] for the non-nested specifiers."""
    out = []
    L = w.L
    for N in range(-(L + 2), L + 3):
        e = w.exp_number(N)
        out.append((str(N), e, "number"))
        if N in (-1, 0, 1, L, L + 1):
            out.append(("revno:%d" % N, e, "number"))
    seen = set()
    for node, revno in sorted(w.revno.items()):
        if len(revno) > 1:
            out.append((dot(revno), w.exp_dotted(revno), "dotted"))
            if revno[2] == 1:
                out.append(("revno:" + dot(revno), w.exp_dotted(revno), "dotted"))
            seen.add(revno)
            for miss in (revno[:2] + (revno[2] + 1,), (revno[0], revno[1] + 1, 1)):
                if miss not in w.by_revno and miss not in seen:
                    seen.add(miss)
                    out.append(("revno:" + dot(miss), [INVALID], "dotted-missing"))
    for miss in ((1, 1), (0, 1, 1), (1, 1, 1), (9, 1, 1), (1, 1, 1, 1)):
        if miss not in w.by_revno and miss not in seen:
            out.append(("revno:" + dot(miss), [INVALID], "dotted-missing"))
    for i in range(len(w.dag)):
        r = dw.node_id(w.ref, i)
        out.append(("revid:" + r.decode(), w.exp_revid(r, how), "revid"))
    out.append(("revid:nosuch", w.exp_revid(b"nosuch", how), "revid"))
    out.append(("last:", w.exp_last(None), "last"))
    for N in range(0, L + 3):
        out.append(("last:%d" % N, w.exp_last(N), "last"))
    for name in sorted(w.tags):
        out.append(("tag:" + name, w.exp_tag(name, how), "tag"))
    out.append(("tag:nosuchtag", w.exp_tag("nosuchtag", how), "tag"))
    return out


def all_specs(w, how, others, nested=True):
    """Every specifier string with its acceptable outcomes.  others: [(url, tip)]."""
    base = base_specs(w, how)
    out = list(base)
    if not nested:
        for url, otip in others:
            out.append(("ancestor:" + url, w.exp_ancestor(otip), "ancestor"))
        return out
    befores = []
    for s, e, cls in base:
        if cls in ("dotted-missing",) or s.startswith("revno:"):
            continue
        befores.append(("before:" + s, w.exp_before(e), "before"))
    out.extend(befores)
    for s, e, cls in befores:
        if cls == "before" and not s.startswith(("before:-", "before:last:")):
            out.append(("before:" + s, w.exp_before(e), "before2"))
    # mainline: resolves its inner specifier with as_revision_id (unchecked ids pass through)
    for s, e, cls in (base if how == "as_revision_id" else base_specs(w, "as_revision_id")):
        if cls in ("dotted", "revid", "tag") or (cls == "number" and not s.startswith(("-", "revno:"))):
            out.append(("mainline:" + s, w.exp_mainline(e), "mainline"))
    for s, e, cls in befores[:: max(1, len(befores) // 8)]:
        out.append(("mainline:" + s, w.exp_mainline(e), "mainline"))
    # DWIM: bare tag names and bare revision ids (tags are tried before revids)
    for name in sorted(w.tags):
        out.append((name, w.exp_tag(name, how), "dwim"))
    for i in w.present:
        name = rid(i).decode()
        if name not in w.tags:
            out.append((name, w.exp_revid(rid(i), "in_history"), "dwim"))
    out.append(("nosuchthing", [INVALID], "dwim"))
    for url, otip in others:
        out.append(("ancestor:" + url, w.exp_ancestor(otip), "ancestor"))
        if how == "in_history":
            e = w.exp_ancestor(otip)
            out.append(("before:ancestor:" + url, w.exp_before(e), "before"))
            out.append(("mainline:ancestor:" + url, w.exp_mainline(e), "mainline"))
    return out


ACCEPTED_ERRORS = ("InvalidRevisionSpec", "NoSuchTag", "NoCommits", "NoCommonAncestor", "NoSuchRevision")


def resolve(branch, string, how):
    from breezy.revisionspec import RevisionSpec
    try:
        spec = RevisionSpec.from_string(string)
        if how == "in_history":
            info = spec.in_history(branch)
            return ("ok", info.rev_id, info.revno)
        return ("ok", spec.as_revision_id(branch), "n/a")
    except Exception as e:  # noqa
        name = type(e).__name__
        if name in ACCEPTED_ERRORS:
            return ("err", name, None)
        if name == "ObjectNotLocked":
            return ("needs-lock", name, None)
        return ("exc", dw.exc_sig(e), None)


def judge(acc, w, string, cls, expected, got, how, locked, detail):
    acc.n += 1
    acc.outcomes.add((cls, got[0], got[1] if got[0] != "ok" else (w.mainline_revno(got[1]) is not None)))
    if got[0] == "needs-lock":
        if locked:
            acc.violation("spec:%s:ObjectNotLocked-on-locked-branch" % cls, dict(detail, spec=string, how=how))
        else:
            acc.count("needs_lock:" + cls)
        return
    if got[0] == "exc":
        acc.violation("spec:%s:%s:%s" % (cls, how, got[1]), dict(detail, spec=string))
        return
    for e in expected:
        if e[0] == "ok" and got[0] == "ok" and e[1] == got[1]:
            # the revno that comes with an id must be the mainline position (or None)
            if how == "in_history" and got[2] != w.mainline_revno(got[1]):
                acc.violation("spec:%s:revno-reported-with-id-is-not-its-mainline-position" % cls,
                              dict(detail, spec=string, got=got, expected_revno=w.mainline_revno(got[1])))
            return
        if e[0] == "err" and got[0] == "err" and got[1] in e[1]:
            return
    kind = "wrong-revision" if got[0] == "ok" and any(e[0] == "ok" for e in expected) else (
        "resolves-although-definition-has-no-revision" if got[0] == "ok" else
        ("refuses-although-definition-names-a-revision" if any(e[0] == "ok" for e in expected) else "wrong-error"))
    acc.violation("spec:%s:%s:%s" % (cls, how, kind), dict(detail, spec=string, got=got, expected=expected))


# --------------------------------------------------------------------------
# API level

def api_checks(acc, b, w, detail, tag):
    """Revno / dotted revno API against the reference; b is an opened (maybe locked) branch."""
    from breezy import errors

    def v(sig, **kw):
        acc.violation("api:%s" % sig, dict(detail, phase=tag, **kw))

    L = w.L
    acc.n += 1
    exp_info = (L, rid(w.tip) if w.tip is not None else NULL)
    if b.last_revision_info() != exp_info or b.revno() != L:
        v("last_revision_info-differs", got=b.last_revision_info(), expected=exp_info)
    # n -> id
    for n in list(range(0, L + 2)) + [-1]:
        acc.n += 1
        try:
            got = b.get_rev_id(n)
        except (errors.NoSuchRevision, errors.RevnoOutOfBounds):
            got = None
        except Exception as e:  # noqa
            v("get_rev_id:" + dw.exc_sig(e), n=n)
            continue
        exp = NULL if n == 0 else (rid(w.lh[n - 1]) if 1 <= n <= L else None)
        if got != exp:
            v("get_rev_id-is-not-nth-lefthand-revision", n=n, got=got, expected=exp)
    # id -> n, id -> dotted
    for i in range(len(w.dag)):
        r = dw.node_id(w.ref, i)
        acc.n += 2
        try:
            got = b.revision_id_to_revno(r)
        except errors.NoSuchRevision:
            got = None
        except Exception as e:  # noqa
            v("revision_id_to_revno:" + dw.exc_sig(e), revid=r)
            got = "exc"
        exp = w.lh.index(i) + 1 if i in w.lh else None
        if got != "exc" and got != exp:
            v("revision_id_to_revno-is-not-lefthand-position", revid=r, got=got, expected=exp)
        try:
            got = b.revision_id_to_dotted_revno(r)
        except errors.NoSuchRevision:
            got = None
        except Exception as e:  # noqa
            v("revision_id_to_dotted_revno:" + dw.exc_sig(e), revid=r)
            continue
        exp = w.revno.get(i)
        if got != exp:
            v("revision_id_to_dotted_revno-differs-from-numbering-rules", revid=r, got=got, expected=exp)
        elif got is not None:
            # round trip id -> number -> id
            try:
                back = b.dotted_revno_to_revision_id(got)
            except Exception as e:  # noqa
                back = "exc:" + type(e).__name__
            if back != r:
                v("id-to-dotted-to-id-is-not-identity", revid=r, dotted=got, back=back)
    if b.revision_id_to_revno(NULL) != 0:
        v("revision_id_to_revno-of-null-is-not-0")
    # dotted -> id for every number of the reference map, and for absent numbers
    for revno, node in sorted(w.by_revno.items()):
        for cache in (False, True):
            acc.n += 1
            try:
                got = b.dotted_revno_to_revision_id(revno, _cache_reverse=cache)
            except (errors.NoSuchRevision, errors.RevnoOutOfBounds):
                got = None
            except Exception as e:  # noqa
                v("dotted_revno_to_revision_id:" + dw.exc_sig(e), revno=revno)
                continue
            if got != rid(node):
                v("dotted_revno_to_revision_id-differs-from-numbering-rules", revno=revno, got=got, expected=rid(node))
            else:
                try:
                    back = b.revision_id_to_dotted_revno(got)
                except Exception as e:  # noqa
                    back = "exc:" + type(e).__name__
                if back != revno:
                    v("dotted-to-id-to-dotted-is-not-identity", revno=revno, revid=got, back=back)
    for revno in [(L + 1,), (1, 1), (0, 1, 1), (1, 1, 1), (2, 1, 1), (1, 2, 1), (1, 1, 2), (0, 2, 1)]:
        if revno in w.by_revno:
            continue
        acc.n += 1
        try:
            got = b.dotted_revno_to_revision_id(revno)
        except (errors.NoSuchRevision, errors.RevnoOutOfBounds):
            continue
        except Exception as e:  # noqa
            v("dotted_revno_to_revision_id:" + dw.exc_sig(e), revno=revno)
            continue
        v("dotted_revno_to_revision_id-resolves-a-number-that-names-nothing", revno=revno, got=got)
    # the whole map: a bijection between the tip's ancestry and the numbers
    acc.n += 1
    try:
        m = dict(b.get_revision_id_to_revno_map())
    except Exception as e:  # noqa
        v("get_revision_id_to_revno_map:" + dw.exc_sig(e))
        m = None
    if m is not None:
        if set(m) != {rid(i) for i in w.anc}:
            v("revno-map-keys-are-not-the-ancestry", got=sorted(m), expected=sorted(rid(i) for i in w.anc))
        elif len(set(m.values())) != len(m):
            v("revno-map-not-one-to-one", got=m)
        elif m != {rid(i): r for i, r in w.revno.items()}:
            v("revno-map-differs-from-numbering-rules", got=m, expected={rid(i): r for i, r in w.revno.items()})
    # merge sorted iteration (returns a lazy generator: only meaningful while the caller holds the lock)
    if not b.is_locked():
        return
    acc.n += 1
    try:
        ms = list(b.iter_merge_sorted_revisions())
        fw = list(b.iter_merge_sorted_revisions(direction="forward"))
    except Exception as e:  # noqa
        v("iter_merge_sorted_revisions:" + dw.exc_sig(e))
        return
    exp = [(rid(i), w.depth[i], w.revno[i]) for i in w.order]
    if [x[:3] for x in ms] != exp:
        v("iter_merge_sorted_revisions-differs-from-reference", got=[x[:3] for x in ms], expected=exp)
    if fw != ms[::-1]:
        v("iter_merge_sorted_revisions-forward-is-not-reversed-reverse")
    for k, stop in enumerate(w.order):
        for rule, upto in (("exclude", k), ("include", k + 1)):
            acc.n += 1
            try:
                got = [x[0] for x in b.iter_merge_sorted_revisions(stop_revision_id=rid(stop), stop_rule=rule)]
            except Exception as e:  # noqa
                v("iter_merge_sorted_revisions:%s:%s" % (rule, dw.exc_sig(e)), stop=stop)
                continue
            if got != [rid(i) for i in w.order[:upto]]:
                v("iter_merge_sorted_revisions:%s-stop-is-not-a-prefix" % rule, stop=stop, got=got)


# --------------------------------------------------------------------------
# tip moves on a live, locked Branch object (the history caches must follow the tip)

class _Prefixed:
    """Accumulator proxy that prefixes the signatures of api_checks / judge."""

    def __init__(self, acc, prefix):
        object.__setattr__(self, "_acc", acc)
        object.__setattr__(self, "_prefix", prefix)

    def violation(self, sig, detail):
        self._acc.violation(self._prefix + sig, detail)

    def __getattr__(self, name):
        return getattr(self._acc, name)

    def __setattr__(self, name, value):
        setattr(self._acc, name, value)


MOVES = ("set_last_revision_info", "generate_revision_history", "pull-overwrite")
HOOK_LABEL = "verif-c22-audit"


def check_tip_moves(acc, store, dag, ghosts, pairs):
    """For every (old tip, new tip): warm the caches of a write-locked Branch object at the old
    tip, move the tip by each of MOVES while read-only audit hooks on pre/post_change_branch_tip
    query the history APIs on params.branch, then run the revno / dotted / specifier oracle for
    the NEW tip on the same still-locked object, and again on a freshly opened branch."""
    from breezy.branch import Branch
    url = store.url + "b/"
    ref = dw.Ref(dag, ghosts)
    present = [i for i in range(len(dag)) if i not in ref.ghosts]
    tags = std_tags(present)
    for old, new in pairs:
        w_old = World(dag, ghosts, old, tags)
        w_new = World(dag, ghosts, new, tags)
        acc.nt(("move", dag, tuple(sorted(ghosts)), old, new))
        for method in MOVES:
            detail = {"dag": dag, "ghosts": sorted(ghosts), "old_tip": old, "new_tip": new, "move": method}
            dw.set_tip(Branch.open(url), ref, old)
            ob = Branch.open(store.url + "o/")
            dw.set_tip(ob, ref, new)
            ob = Branch.open(store.url + "o/")
            b = Branch.open(url)
            b.lock_write()
            try:
                # warm every history cache for the old tip
                api_checks(_Prefixed(acc, "tipmove:before:"), b, w_old, detail, "before-move")
                state = {"pre": 0, "post": 0}

                def pre(params, state=state, b=b):
                    if params.branch is not b:
                        return
                    state["pre"] += 1
                    api_checks(_Prefixed(acc, "tipmove:pre-hook:"), params.branch, w_old, detail, "pre-hook")

                def post(params, state=state, b=b):
                    if params.branch is not b:
                        return
                    state["post"] += 1
                    api_checks(_Prefixed(acc, "tipmove:post-hook:"), params.branch, w_new, detail, "post-hook")

                Branch.hooks.install_named_hook("pre_change_branch_tip", pre, HOOK_LABEL)
                Branch.hooks.install_named_hook("post_change_branch_tip", post, HOOK_LABEL)
                try:
                    acc.n += 1
                    try:
                        if method == "set_last_revision_info":
                            b.set_last_revision_info(w_new.L, rid(new))
                        elif method == "generate_revision_history":
                            b.generate_revision_history(rid(new))
                        else:
                            b.pull(ob, overwrite=True)
                    except Exception as e:  # noqa
                        acc.violation("tipmove:%s:%s" % (method, dw.exc_sig(e)), detail)
                        continue
                finally:
                    Branch.hooks.uninstall_named_hook("pre_change_branch_tip", HOOK_LABEL)
                    Branch.hooks.uninstall_named_hook("post_change_branch_tip", HOOK_LABEL)
                if state["pre"] != 1 or state["post"] != 1:
                    acc.violation("tipmove:hooks-not-run-exactly-once", dict(detail, runs=state))
                # the same, still locked object must now answer for the new tip
                pa = _Prefixed(acc, "tipmove:same-object:")
                api_checks(pa, b, w_new, detail, "after-move-same-object")
                for how in ("in_history", "as_revision_id"):
                    for string, expected, cls in all_specs(w_new, how, [], nested=False):
                        judge(pa, w_new, string, cls, expected, resolve(b, string, how), how, True, detail)
                api_checks(pa, b, w_new, detail, "after-move-and-specs-same-object")
            finally:
                b.unlock()
            b2 = Branch.open(url)
            with b2.lock_read():
                pa = _Prefixed(acc, "tipmove:reopened:")
                api_checks(pa, b2, w_new, detail, "after-move-reopened")
                for string, expected, cls in all_specs(w_new, "in_history", [], nested=False):
                    judge(pa, w_new, string, cls, expected, resolve(b2, string, "in_history"), "in_history", True, detail)
            acc.count("tip_moves")


def std_tags(present):
    tags = {"t%d" % i: rid(i) for i in present}
    if len(present) > 1:
        tags[rid(present[0]).decode()] = rid(present[-1])     # a tag that looks like another revision's id
    tags["tghost"] = b"not-present"
    return tags


def check_branch(acc, store, dag, ghosts, tip, others):
    """All checks for the branch 'b' pointed at tip.  others: [(name, tip)] further branches."""
    from breezy.branch import Branch
    url = store.url + "b/"
    ref = dw.Ref(dag, ghosts)
    b = Branch.open(url)
    dw.set_tip(b, ref, tip)
    present = [i for i in range(len(dag)) if i not in ref.ghosts]
    tags = std_tags(present)
    with b.lock_write():
        for k in sorted(b.tags.get_tag_dict()):
            b.tags.delete_tag(k)
        for k, val in sorted(tags.items()):
            b.tags.set_tag(k, val)
    w = World(dag, ghosts, tip, tags)
    detail = {"dag": dag, "ghosts": sorted(ghosts), "tip": tip}
    if len(w.anc) > 1:
        acc.nt((dag, tuple(sorted(ghosts)), tip))
    other_urls = []
    for name, otip in others:
        ob = Branch.open(store.url + name + "/")
        dw.set_tip(ob, ref, otip)
        other_urls.append((store.url + name, otip))
    # pass 1: API only, locked, fresh object
    b = Branch.open(url)
    with b.lock_read():
        api_checks(acc, b, w, detail, "fresh-locked")
    # pass 2: API unlocked (caches are dropped between calls)
    api_checks(acc, Branch.open(url), w, detail, "fresh-unlocked")
    # pass 3: every spec through in_history on a locked branch, then the API again (caches now warm),
    # pass 4: every spec through as_revision_id, reversed order, then the API again
    # pass 5/6: unlocked
    for how, locked, rev in (("in_history", True, False), ("as_revision_id", True, True),
                             ("in_history", False, True), ("as_revision_id", False, False)):
        specs = all_specs(w, how, other_urls, nested=locked)
        if rev:
            specs = specs[::-1]
        b = Branch.open(url)
        if locked:
            b.lock_read()
        try:
            for string, expected, cls in specs:
                got = resolve(b, string, how)
                judge(acc, w, string, cls, expected, got, how, locked, detail)
            if locked:
                api_checks(acc, b, w, detail, "after-specs-%s" % how)
        finally:
            if locked:
                b.unlock()
    # ranges through the option parser: both ends resolve as they do alone
    from breezy.option import _parse_revision_str
    b = Branch.open(url)
    with b.lock_read():
        specs = [s for s in all_specs(w, "in_history", other_urls) if s[2] in ("number", "dotted", "revid", "before", "last", "tag")]
        step = max(1, len(specs) // 10)
        sel = specs[::step]
        for s1, e1, c1 in sel:
            for s2, e2, c2 in sel:
                acc.n += 1
                try:
                    pair = _parse_revision_str(s1 + ".." + s2)
                except Exception as e:  # noqa
                    acc.violation("range:parse:" + dw.exc_sig(e), dict(detail, spec=s1 + ".." + s2))
                    continue
                if len(pair) != 2 or pair[0].user_spec != s1 or pair[1].user_spec != s2:
                    acc.violation("range:not-split-into-its-two-specifiers", dict(detail, spec=s1 + ".." + s2,
                                                                                  got=[p.user_spec for p in pair]))
        acc.sample({"dag": dag, "tip": tip, "specs": len(all_specs(w, "in_history", other_urls)),
                    "example": [s[0] for s in sel[:6]]})


def _work(chunk):
    from mc import world as mw
    dw.quiet_trace()
    acc = dw.Acc()
    for dag, ghosts in chunk:
        n = len(dag)
        ref = dw.Ref(dag, ghosts)
        present = [i for i in range(n) if i not in ghosts]
        hs = sorted(gen.heads(dag, present))
        store, url = dw.build(dag, ghosts, shared=True)
        try:
            mw.make_branch(store.transport("o"), "2a")
            if len(hs) == 1:
                tip = hs[0]
                # every other revision (and the empty branch) as the tip of the second branch
                check_branch(acc, store, dag, ghosts, tip, [("o", None)])
                for o in present:
                    check_ancestor_only(acc, store, dag, ghosts, tip, o)
                if n <= 2 and not ghosts:
                    check_branch(acc, store, dag, ghosts, None, [("o", tip)])
                if n <= 4:
                    # tip moved back to each parent and forward again
                    ps = [p for p in dag[tip] if p not in ghosts]
                    check_tip_moves(acc, store, dag, ghosts, [(tip, p) for p in ps] + [(p, tip) for p in ps])
            else:
                a, c = hs
                check_branch(acc, store, dag, ghosts, a, [("o", c)])
                check_branch(acc, store, dag, ghosts, c, [("o", a)])
                check_tip_moves(acc, store, dag, ghosts, [(a, c), (c, a)])
        finally:
            store.close()
    return acc


def check_ancestor_only(acc, store, dag, ghosts, tip, other):
    """ancestor:/mainline:ancestor: for branch at tip against branch o at `other` and vice versa."""
    from breezy.branch import Branch
    ref = dw.Ref(dag, ghosts)
    for t1, t2, n1, n2 in ((tip, other, "b", "o"), (other, tip, "o", "b")):
        b = Branch.open(store.url + n1 + "/")
        dw.set_tip(b, ref, t1)
        ob = Branch.open(store.url + n2 + "/")
        dw.set_tip(ob, ref, t2)
        w = World(dag, ghosts, t1, {})
        detail = {"dag": dag, "ghosts": sorted(ghosts), "tip": t1, "other": t2}
        url2 = store.url + n2
        e = w.exp_ancestor(t2)
        b = Branch.open(store.url + n1 + "/")
        for how, string, exp, cls in (("in_history", "ancestor:" + url2, e, "ancestor"),
                                      ("as_revision_id", "ancestor:" + url2, e, "ancestor"),
                                      ("as_revision_id", "revno:-1:" + url2, [("ok", rid(t2))], "revno-in-branch")):
            if True:
                got = resolve(b, string, how)
                if cls == "revno-in-branch":
                    # resolved in the OTHER branch: only the id is judged
                    acc.n += 1
                    if got[:2] != ("ok", rid(t2)):
                        acc.violation("spec:revno-in-branch:%s:wrong-revision" % how, dict(detail, spec=string, got=got))
                    continue
                judge(acc, w, string, cls, exp, got, how, False, detail)
    # leave b at tip
    dw.set_tip(Branch.open(store.url + "b/"), ref, tip)


def items_for(single_max, two_max, ghost_max):
    """(dag, ghosts): single-tip histories <= single_max nodes, two-tip histories <= two_max, and the
    variants <= ghost_max in which one parentless node that is only ever a right-hand parent is a ghost."""
    items = []
    for n in range(1, max(single_max, two_max) + 1):
        for dag in gen.dags(n):
            hs = len(gen.heads(dag, range(n)))
            if (hs == 1 and n <= single_max) or (hs == 2 and n <= two_max):
                items.append((dag, frozenset()))
            if n <= ghost_max:
                for g in range(n):
                    if dag[g] or not any(g in ps for ps in dag):
                        continue
                    if any(ps and ps[0] == g for ps in dag):
                        continue
                    present = [i for i in range(n) if i != g]
                    if present and len(gen.heads(dag, present)) <= 2:
                        items.append((dag, frozenset([g])))
    return items


def replay(ctx, data):
    """Re-run the one history of a recorded violation; True if its signature is not reproduced."""
    d = data["first"]
    dag = tuple(tuple(p) for p in d["dag"])
    acc = _work([(dag, frozenset(d.get("ghosts", ())))])
    hit = [v for v in acc.violations if v[0] == data["signature"]]
    for sig, det in hit:
        print("  ", sig, {k: det[k] for k in det if k not in ("dag",)})
    return not hit


def run(ctx):
    N = ctx.q(5, 6)
    N2 = ctx.q(4, 5)
    GN = ctx.q(4, 5)
    items = items_for(N, N2, GN)
    acc = par.merge(par.pmap(_work, items, seed=ctx.seed, chunks_per_job=8))
    a1 = _work(items[:12])
    a2 = _work(items[:12])
    if (a1.n, sorted(map(repr, a1.outcomes)), sorted(x[0] for x in a1.violations)) != \
            (a2.n, sorted(map(repr, a2.outcomes)), sorted(x[0] for x in a2.violations)):
        raise HarnessError("C22: two runs of the same histories differ")
    best = {}
    for sig, d in acc.violations:
        k = (len(d.get("dag", ())), len(d.get("ghosts", ())), repr(d.get("dag")), len(repr(d)), repr(d))
        if sig not in best or k < best[sig][0]:
            best[sig] = (k, d)
    for sig in sorted(best):
        ctx.violation(sig, best[sig][1])
    ctx.assumptions.append("ghosts only as right-hand parents (a left-hand ghost makes 'n-th revision of the left-hand history' undefined)")
    ctx.assumptions.append("mainline: needs a locked branch (ObjectNotLocked on an unlocked vfs branch is counted, not judged)")
    needs = {k: v for k, v in acc.counters.items() if k.startswith("needs_lock")}
    return {
        "evaluations": acc.n,
        "histories": len(items),
        "histories_with_ghost": sum(1 for i in items if i[1]),
        "distinct_nontrivial": len(acc.nontrivial),
        "rule": "non-trivial = (history, tip) whose ancestry has more than one revision",
        "distinct_outcomes": len(acc.outcomes),
        "max_dag_nodes": N, "max_dag_nodes_two_tips": N2, "max_dag_nodes_ghost": GN,
        "needs_lock_observations": needs,
        "tip_moves_with_audit_hooks": acc.counters.get("tip_moves", 0),
        "violations_raw": acc.counters.get("violations_raw", 0),
        "samples": acc.samples[:3],
        "exhaustive": True,
    }
