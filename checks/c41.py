"""C41 - Testaments are deterministic and sensitive to every attested field.

One revision id, many candidate revisions: every tree of a small grammar (one
file-id at 5 names incl. inner and trailing space / backslash / inside a directory x 2
contents x exec bit, or as directory or symlink; a symlink with 5 targets; a
second file with swapped ids; an optional directory) with base metadata, and
for 3 base trees every single-field variation and every pair of fields (quick:
pairs on one base tree; thorough also every tree x every parent list) of message (multi-line, unicode, trailing newline, blank), committer,
timestamp, timezone, parents (0-2, both orders, ghost) and revision properties.
Each candidate is committed with the real commit code as the same revision id on
top of a restored snapshot of a base repository, in 2a (two different storage
orders of the base), pack-0.92 and rich-root-pack, and the three testament
classes are taken with Testament.from_revision on the stored revision.

Oracle: the attested data of a stored revision (as documented per class:
v1 = id, committer, integer timestamp, timezone, sorted parents, message,
properties, per entry kind/path/file-id/text sha1 or link target; strict adds
last-changed revision and exec bit; strict3 adds the root) is computed by a
small reference from the revision and tree read back.  Over ALL pairs of
candidates: equal attested data => byte-equal as_text()/as_short_text()
(across formats and storage orders too), different attested data => different
text; as_short_text must be header + id + sha1 of as_text.
"""
import hashlib
import itertools

from mc import par
from mc.evidence import HarnessError

ID = "C41"
LEVEL = "exploration"
TECHNIQUE = "bounded exhaustive enumeration of trees x metadata committed in three formats, all-pairs functional/injective comparison of the three testament classes against reference attested-data tuples"

REV = b"the-rev"
FID, GID, SID, DID = b"f-id", b"g-id", b"s-id", b"d-id"
NAMES = ("a", "a b", "d\\a", "a ", "d/a")
TARGETS = ("t", "u", "t u", "d/a", "d\\a")

BASE_META = {"message": "m", "committer": "C <c@example.com>", "timestamp": 1_000_000_000.0, "timezone": 0,
             "parents": (b"p1",), "revprops": ()}
META = {
    "message": ("m", "m2", "l1\nl2", "l1\nl2\n", "l1\n\nl2", "\u00fc", "", " m", "m ", "m\n", "  l1\n  l2"),
    "committer": ("C <c@example.com>", "D <d@example.com>", "\u00dc <u@example.com>", "C  <c@example.com>"),
    "timestamp": (1_000_000_000.0, 1_000_000_001.0, 0.0, 999_999_999.0),
    "timezone": (0, 3600, -3600),
    "parents": ((b"p1",), (), (b"p2",), (b"p1", b"p2"), (b"p2", b"p1"), (b"p1", b"ghost"), (b"p0",)),
    "revprops": ((), (("k", "v"),), (("k", "w"),), (("j", "v"),), (("j", "w"), ("k", "v")), (("k", "l1\nl2"),),
                 (("k", ""),), (("k", "\u00fc"),), (("k", "v\n"),), (("k", "l1\n  j:\n    w"),)),
}


def trees():
    """The tree grammar, as list of tuples of items (hashable)."""
    f_opts = [None]
    for n in NAMES:
        for c in (b"x\n", b"y\n"):
            for ex in (False, True):
                f_opts.append((n, "file", c, ex))
    f_opts.append(("a", "directory", None, False))
    f_opts.append(("a", "symlink", "t", False))
    s_opts = [None] + [("l", "symlink", t, False) for t in TARGETS]
    g_opts = [None, "g", "swap"]
    out = []
    for f in f_opts:
        for s in s_opts:
            for g in g_opts:
                if g == "swap" and (f is None or f[0] != "a"):
                    continue
                for d in (False, True):
                    if d and f is not None and f[0] == "d/a":
                        continue      # d is implied
                    out.append((f, s, g, d))
    return out


def spec_of(tree):
    from mc import world as mw
    f, s, g, d = tree
    spec = {}
    fid, gid = (GID, FID) if g == "swap" else (FID, GID)
    if d or (f is not None and f[0] == "d/a"):
        spec["d"] = mw.D(DID)
    if f is not None:
        n, kind, c, ex = f
        spec[n] = mw.F(fid, c, ex) if kind == "file" else (mw.D(fid) if kind == "directory" else mw.L(fid, c))
    if s is not None:
        spec["l"] = mw.L(SID, s[2])
    if g:
        spec["b"] = mw.F(gid, b"x\n")
    return spec


BASE_TREES = None


def base_trees():
    return [(None, None, None, False),
            (("a", "file", b"x\n", False), None, None, False),
            (("d/a", "file", b"x\n", True), ("l", "symlink", "t", False), "g", False)]


def variants(thorough):
    out = []
    for t in trees():
        out.append((t, ()))
    fields = sorted(META)
    bases = base_trees()
    for t in bases:
        for f in fields:
            for v in META[f][1:]:
                out.append((t, ((f, v),)))
    for t in (bases if thorough else bases[2:]):
        for f1, f2 in itertools.combinations(fields, 2):
            for v1 in META[f1][1:]:
                for v2 in META[f2][1:]:
                    out.append((t, ((f1, v1), (f2, v2))))
    if thorough:
        for t in trees():
            for v in META["parents"][1:]:
                out.append((t, (("parents", v),)))
    # de-duplicate keeping order
    seen = set()
    res = []
    for v in out:
        if v not in seen:
            seen.add(v)
            res.append(v)
    return res


# ---- worlds -------------------------------------------------------------------

CONFIGS_Q = (("2a", "A"), ("2a", "B"), ("pack-0.92", "A"), ("rich-root-pack", "A"))
CONFIGS_T = CONFIGS_Q + (("pack-0.92", "B"), ("rich-root-pack", "B"))
_W = {}


def world(fmt, order):
    key = (fmt, order)
    if key in _W:
        return _W[key]
    from mc import world as mw
    from mc.vfs import new_store
    store = new_store()
    store.logging = False
    b = mw.make_branch(store.transport("b"), fmt)
    X = {"a": mw.F(FID, b"x\n")}
    Y = {"a": mw.F(FID, b"y\n"), "b": mw.F(GID, b"x\n")}
    mw.commit_spec(b, b"p0", [], {}, timestamp=10.0)
    if order == "A":
        mw.commit_spec(b, b"p1", [b"p0"], X, timestamp=11.0)
        mw.commit_spec(b, b"p2", [b"p0"], Y, timestamp=12.0)
    else:
        # other storage order: p2 first, unrelated revisions in between, everything repacked
        mw.commit_spec(b, b"p2", [b"p0"], Y, timestamp=12.0)
        mw.commit_spec(b, b"junk", [], {"zz": mw.F(b"zz-id", b"zz\n")}, timestamp=13.0)
        mw.commit_spec(b, b"p1", [b"p0"], X, timestamp=11.0)
        b.repository.pack()
    _W[key] = (store, store.walk())
    return _W[key]


def meta_of(deltas):
    m = dict(BASE_META)
    for f, v in deltas:
        m[f] = v
    return m


def attested(rev, tree, level):
    """Reference: the data a testament of the given level attests, from the stored revision."""
    ents = []
    with tree.lock_read():
        for path, ie in tree.iter_entries_by_dir():
            if path == "" and level < 3:
                continue
            if ie.kind == "file":
                c = hashlib.sha1(tree.get_file_text(path)).hexdigest()
            elif ie.kind == "symlink":
                c = tree.get_symlink_target(path)
            else:
                c = None
            row = (path, ie.kind, ie.file_id, c)
            if level >= 2:
                row += (ie.revision, bool(tree.is_executable(path)) if ie.kind == "file" else False)
            ents.append(row)
    return (rev.revision_id, rev.committer, int(rev.timestamp), int(rev.timezone or 0), tuple(sorted(rev.parent_ids)),
            rev.message, tuple(sorted(rev.properties.items())), tuple(sorted(ents)))


def evaluate(variant, configs, acc, full=False):
    """-> {(cls name): [(config, data, long text, short text)]}"""
    from breezy.branch import Branch
    from breezy.bzr.testament import StrictTestament, StrictTestament3, Testament
    from mc import world as mw
    tree, deltas = variant
    m = meta_of(deltas)
    spec = spec_of(tree)
    out = {}
    for fmt, order in configs:
        store, snap = world(fmt, order)
        store.restore(snap)
        b = Branch.open(store.url + "b")
        try:
            mw.commit_spec(b, REV, list(m["parents"]), spec, message=m["message"], timestamp=m["timestamp"],
                           committer=m["committer"], timezone=m["timezone"], revprops=dict(m["revprops"]) or None)
        except Exception as e:  # noqa
            raise HarnessError("commit of variant %r failed in %s: %r" % (variant, fmt, e))
        repo = Branch.open(store.url + "b").repository
        with repo.lock_read():
            rev = repo.get_revision(REV)
            rt = repo.revision_tree(REV)
            if rev.message != m["message"] or rev.committer != m["committer"] or rev.timestamp != m["timestamp"]:
                acc.count("stored-metadata-differs-from-input")
            stored_props = {k: v for k, v in rev.properties.items() if k != "branch-nick"}
            if stored_props != dict(m["revprops"]):
                acc.count("stored-revprops-differ-from-input")
            if sorted(r[:4] for r in mw.dump_tree(rt, with_ids=False)) != sorted(r[:4] for r in mw.spec_dump(spec, with_ids=False)):
                raise HarnessError("stored tree differs from the spec for %r" % (variant,))
            for level, cls in ((1, Testament), (2, StrictTestament), (3, StrictTestament3)):
                data = attested(rev, rt, level)
                try:
                    t = cls.from_revision(repo, REV)
                    long_text = t.as_text()
                    short = t.as_short_text()
                except Exception as e:  # noqa
                    acc.violation("%s:%s" % (cls.__name__, type(e).__name__), {"variant": describe(variant), "format": fmt,
                                                                             "error": str(e)[:200]})
                    continue
                acc.n += 1
                want_short = cls.short_header.encode("ascii") + b"revision-id: " + REV + b"\nsha1: " + \
                    hashlib.sha1(long_text).hexdigest().encode() + b"\n"
                if short != want_short or not long_text.startswith(cls.long_header.encode("ascii")):
                    acc.violation("%s:short-text-not-digest-of-long-text" % cls.__name__,
                                  {"variant": describe(variant), "format": fmt, "short": short, "expected": want_short})
                out.setdefault(cls.__name__, []).append(((fmt, order), data, long_text, short))
    return out


def describe(variant):
    tree, deltas = variant
    return {"tree": {p: [e.kind, e.fid, e.content, e.exec] for p, e in spec_of(tree).items()},
            "metadata_changes": [[f, v] for f, v in deltas]}


def H(x):
    return hashlib.sha1(repr(x).encode("utf-8", "surrogateescape")).hexdigest()[:20]


def _work(chunk):
    acc = par.Acc()
    rows = []
    for idx, variant, configs in chunk:
        res = evaluate(variant, configs, acc)
        for cls, lst in res.items():
            for cfg, data, long_text, short in lst:
                rows.append((idx, cls, cfg, H(data), H((long_text, short))))
        acc.sample(describe(variant))
    acc.rows = rows
    return acc


def _cause(a, b):
    """Abstract why two different values may have produced the same text."""
    def norm_slash(x):
        return x.replace("\\", "/") if isinstance(x, str) else x

    def norm_lines(x):
        if isinstance(x, str):
            return tuple(x.splitlines())
        if isinstance(x, tuple):
            return tuple(norm_lines(i) for i in x)
        return x
    if norm_slash(a) == norm_slash(b):
        return "backslash-vs-slash"
    if norm_lines(a) == norm_lines(b):
        return "same-lines-after-splitlines"
    return "other"


def atomic_diffs(d1, d2):
    """[(field, cause)] for every attested field that differs between two data tuples."""
    names = ("revision_id", "committer", "timestamp", "timezone", "parents", "message", "revprops")
    out = [(n, _cause(a, b)) for n, a, b in zip(names, d1, d2) if a != b]
    cols = ("path", "kind", "file_id", "content-or-target", "last-changed", "exec")
    e1 = {r[2]: r for r in d1[7]}
    e2 = {r[2]: r for r in d2[7]}
    for fid in sorted(set(e1) | set(e2)):
        if fid not in e1 or fid not in e2:
            out.append(("entry.presence", "other"))
        elif e1[fid] != e2[fid]:
            out.extend(("entry." + c, _cause(a, b)) for c, a, b in zip(cols, e1[fid], e2[fid]) if a != b)
    return sorted(set(out))


def run(ctx):
    configs = CONFIGS_T if ctx.thorough else CONFIGS_Q
    vs = variants(ctx.thorough)
    # determinism audit
    a0 = par.Acc()
    for v in vs[:3] + vs[-3:]:
        r1 = evaluate(v, configs[:2], a0)
        r2 = evaluate(v, configs[:2], a0)
        if r1 != r2:
            raise HarnessError("non-deterministic testament for %r" % (v,))
    work = [(i, v, configs) for i, v in enumerate(vs)]
    accs = par.pmap(_work, work, seed=ctx.seed)
    acc = par.merge(accs)
    rows = []
    for a in accs:
        rows.extend(a.rows)
    rows.sort()
    # all-pairs: data -> text functional, text -> data functional, per class
    by_data, by_text = {}, {}
    bad_fn, bad_inj = {}, {}
    for idx, cls, cfg, hd, ht in rows:
        k = (cls, hd)
        if k in by_data and by_data[k][0] != ht:
            bad_fn.setdefault(cls, []).append((by_data[k][1], (idx, cfg)))
        by_data.setdefault(k, (ht, (idx, cfg)))
        k = (cls, ht)
        if k in by_text and by_text[k][0] != hd:
            bad_inj.setdefault(cls, []).append((by_text[k][1], (idx, cfg)))
        by_text.setdefault(k, (hd, (idx, cfg)))
    n_classes = len({(cls, hd) for _i, cls, _c, hd, _t in rows})
    n_equal_pairs = len(rows) - n_classes

    def detail(cls, p1, p2):
        (i1, c1), (i2, c2) = p1, p2
        a = par.Acc()
        r1 = [x for x in evaluate(vs[i1], [c1], a)[cls]][0]
        r2 = [x for x in evaluate(vs[i2], [c2], a)[cls]][0]
        return r1, r2

    seen = set()
    for cls, pairs in sorted(bad_fn.items()):
        for p1, p2 in pairs:
            r1, r2 = detail(cls, p1, p2)
            sig = "%s:equal-attested-data-different-text" % cls
            if sig in seen:
                continue
            seen.add(sig)
            ctx.violation(sig, {"first": describe(vs[p1[0]]), "first_config": p1[1], "second": describe(vs[p2[0]]),
                                "second_config": p2[1], "text1": r1[2], "text2": r2[2]})
    collisions = {}
    for cls, pairs in sorted(bad_inj.items()):
        for p1, p2 in pairs:
            r1, r2 = detail(cls, p1, p2)
            if r1[2] != r2[2] or r1[1] == r2[1]:
                raise HarnessError("hash bookkeeping inconsistent for %r %r" % (p1, p2))
            diffs = atomic_diffs(r1[1], r2[1])
            unexplained = [f for f, c in diffs if c == "other"]
            if unexplained:
                sigs = ["%s:text-unchanged-although-%s-changed" % (cls, "+".join(unexplained))]
            else:
                # causes that live in code shared by the three classes (_escape_path, splitlines)
                sigs = ["testament:text-unchanged:%s:%s" % fc for fc in diffs]
            size = (len(diffs), len(vs[p1[0]][1]) + len(vs[p2[0]][1]), len(repr(vs[p1[0]])) + len(repr(vs[p2[0]])))
            for sig in sigs:
                if sig not in collisions or size < collisions[sig][0]:
                    collisions[sig] = (size, {"class": cls, "first": describe(vs[p1[0]]), "second": describe(vs[p2[0]]),
                                              "config": [p1[1], p2[1]], "attested_fields_that_differ": diffs,
                                              "common_text": r1[2]})
    for sig in sorted(collisions):
        ctx.violation(sig, collisions[sig][1])
    best = {}
    for sig, d in acc.violations:
        best.setdefault(sig, d)
    for sig in sorted(best):
        ctx.violation(sig, best[sig])
    ctx.assumptions.append("attested fields per class as documented in breezy/bzr/testament.py: timestamps as integers, parents as a "
                           "sorted list (order not attested), v1 without exec bit / last-changed revision / root")
    ctx.assumptions.append("messages and property values containing \\r, committers with line breaks and property names with "
                           "whitespace are refused by commit/testament by design and are not in the alphabet")
    return {
        "evaluations": acc.n,
        "distinct_nontrivial": n_classes,
        "rule": "one evaluation = one testament of one class taken from a stored revision; non-trivial = distinct (class, attested data) "
                "tuples, all compared pairwise through the text<->data maps",
        "variants": len(vs),
        "trees": len(trees()),
        "configs": ["%s/%s" % c for c in configs],
        "instances_with_equal_attested_data_compared": n_equal_pairs,
        "distinct_texts": len({(cls, ht) for _i, cls, _c, _d, ht in rows}),
        "counters": dict(sorted(acc.counters.items())),
        "samples": acc.samples[:3],
        "exhaustive": True,
    }
