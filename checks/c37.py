"""C37 - Conditional git ref updates honour the expected old value.

Real TransportRefsContainer objects on a vfs store holding a bare git control
directory whose ref files are written raw in git's on-disk format.

Part 1 (sequential, exhaustive): target ref T in {refs/heads/x, refs/tags/t,
refs/heads/d/y, HEAD} x state {absent, loose v1, packed v1, loose v1 + packed
v0} x access {direct, HEAD->T, refs/heads/sym->T, HEAD->sym->T} x bystander
refs {loose + packed-with-peeled, none} x container {fresh, cache warmed on each
of the four states of T before the store was changed} x operation
{set_if_equals, remove_if_equals, add_if_new} x expected {None, v1, v2, ZERO,
v0, the raw symref text} x new {v2, v3, v1}.  Oracle (independent reader of the
files): the operation succeeds iff the current value (symrefs followed where the
API follows them; for remove_if_equals on a symref both readings are accepted)
equals the expected one; a failure leaves every file unchanged; a success changes
exactly the addressed ref; add_if_new never changes an existing ref; no *.lock
file is left behind.

Part 2 (schedules, model checking): two simulated processes, each with its own
container (or a real `push` of a bzr branch through InterToLocalGitRepository.
fetch_refs), interleaved at every transport operation (all interleavings when
their number is below a stated limit, else a stated preemption bound).  Oracle:
the recorded conditional operations (call/return interval = first/last transport
operation) and the final ref value form a linearisable history of one register.
Push level: two pushers (Branch.push, or fetch_refs called directly, from two bzr
branches) of a NEW ref with the same name and of an existing ref; the final
conditional write of a push must behave as add-only-if-new for a ref absent from
the snapshot fetch_refs took (_get_target_either_refs) and as set-if-still-the-
snapshot-value otherwise, whichever primitive/expected value fetch_refs passed.
"""
import itertools
import math

from mc import par, procs
from mc.evidence import HarnessError
from mc.vfs import new_store

from . import _c37 as H
from ._c37 import HEAD, ROOT, SYMREF, V0, V1, V2, V3, ZERO, show

ID = "C37"
LEVEL = "model_checking"
TECHNIQUE = ("exhaustive input enumeration of the three conditional ref operations on raw git ref layouts + "
             "exhaustive/preemption-bounded schedule exploration of two updaters with a linearisability oracle")

OPS = ("set_if_equals", "remove_if_equals", "add_if_new")


class World:
    def __init__(self):
        from breezy.git.transportgit import TransportRefsContainer
        self.RC = TransportRefsContainer
        self.store = new_store()
        self.root = self.store.transport("")      # get_transport costs ~1.5 ms; clones are cheap
        self.hist = []
        self.snaps = {}
        self.sim = None
        self._wrap()

    def container(self):
        return self.RC(self.root.clone("g"))

    # observation only: record call/return of the conditional operations per simulated process
    def _wrap(self):
        RC = self.RC
        if getattr(RC, "_verif_c37", False):
            return
        w = self

        def own_steps(p):
            sim = w.sim
            return sum(1 for q in sim.points if q.chosen == p) if sim is not None else 0

        def wrap(opname, orig):
            def f(self_, name, *args, **kw):
                p = getattr(w.store.tl, "proc", None)
                if p is None or w.sim is None:
                    return orig(self_, name, *args, **kw)
                rec = {"proc": p, "opname": opname, "name": name, "args": args, "k0": own_steps(p),
                       "result": "raised"}
                w.hist.append(rec)
                try:
                    r = orig(self_, name, *args, **kw)
                    rec["result"] = r
                    return r
                except BaseException as e:
                    rec["result"] = "raised:" + type(e).__name__
                    raise
                finally:
                    rec["k1"] = own_steps(p)
            return f
        for opname in OPS:
            setattr(RC, opname, wrap(opname, getattr(RC, opname)))
        RC._verif_c37 = True
        # observation only: the snapshot of the target's refs a push (fetch_refs) decides from
        from breezy.git.interrepo import InterToLocalGitRepository as ITL
        orig_snap = ITL._get_target_either_refs

        def snap(self_):
            r = orig_snap(self_)
            p = getattr(w.store.tl, "proc", None)
            if p is not None and w.sim is not None:
                w.snaps[p] = {k: v[0] for k, v in r.items()}
            return r
        ITL._get_target_either_refs = snap


_W = None


def world():
    global _W
    if _W is None:
        _W = World()
    return _W


def innermost(e):
    import traceback
    tb = traceback.extract_tb(e.__traceback__)
    for fr in reversed(tb):
        if "/breezy/" in fr.filename:
            return fr.name
    return tb[-1].name if tb else "?"


# =============================================================================
# Part 1: sequential enumeration
# =============================================================================

def seq_layouts(thorough):
    Ts = [b"refs/heads/x", b"refs/tags/t"] + ([b"refs/heads/d/y"] if thorough else [])
    out = []
    for T in Ts:
        for kind in H.KINDS:
            for byst in (True, False):
                for header in ((True, False) if thorough else (True,)):
                    if not header and not byst:
                        continue
                    for tstate in H.TSTATES:
                        out.append((T, tstate, kind, byst, header))
    for tstate in ("absent", "loose"):       # a detached / missing HEAD addressed directly
        for byst in (True, False):
            out.append((HEAD, tstate, "direct", byst, True))
    return out


def cases_for(T, tstate, kind):
    name = H.access_name(T, kind)
    exps = [None, V1, V2, ZERO, V0]
    if kind != "direct":
        exps.append(SYMREF + (H.SYM if kind == "chain" else T))
    for exp in exps:
        for new in (V2, V3, V1):
            yield ("set_if_equals", name, exp, new)
    for exp in exps:
        yield ("remove_if_equals", name, exp, None)
    for new in (V2, V1):
        yield ("add_if_new", name, None, new)


def call_op(c, op, name, exp, new):
    if op == "set_if_equals":
        return c.set_if_equals(name, exp, new)
    if op == "remove_if_equals":
        return c.remove_if_equals(name, exp)
    return c.add_if_new(name, new)


def judge(op, name, exp, new, before, after, result):
    """Compare one sequential call with the statement.  Returns (signature or None, class)."""
    raw, peeled, _, _, _ = H.read_state(before)
    raw2, peeled2, locks2, loose2, packed2 = H.read_state(after)
    chain, cur = H.follow(raw, name)
    rawval = raw.get(name)
    is_sym = rawval is not None and rawval.startswith(SYMREF)
    # what does the statement demand?
    if op == "add_if_new":
        demand = "fail" if cur is not None else "any"
    elif exp is None:
        demand = "succeed"
    elif op == "remove_if_equals" and is_sym:
        demand = "any" if exp in (rawval, cur) else "fail"
    elif cur is not None and exp == cur:
        demand = "succeed"
    elif cur is None and exp == ZERO:
        demand = "any"
    else:
        demand = "fail"
    cls = "%s/%s/%s" % (op, demand, "T" if result is True else "F" if result is False else "?")
    if result is not True and result is not False:
        return "%s:returned-non-boolean" % op, cls
    if locks2:
        return "%s:lock-file-left-behind" % op, cls
    if result is True and demand == "fail":
        return ("add_if_new:overwrote-existing" if op == "add_if_new" else "%s:wrong-old-value-accepted" % op), cls
    if result is False and demand == "succeed":
        return "%s:matching-old-value-refused" % op, cls
    if result is False:
        if H.only_files(before) != H.only_files(after):
            return ("add_if_new:overwrote-existing" if op == "add_if_new" and cur is not None
                    else "%s:failure-changed-state" % op), cls
        return None, cls
    # success: exactly the addressed ref changed
    want = dict(raw)
    if op == "remove_if_equals":
        want.pop(name, None)
        if name in loose2 or name in packed2:
            return "remove_if_equals:success-but-ref-still-present", cls
    else:
        want[chain[-1]] = new
    if raw2 != want:
        if H.follow(raw2, name)[1] != (None if op == "remove_if_equals" else new):
            return "%s:success-but-ref-not-updated" % op, cls
        return "%s:success-changed-another-ref" % op, cls
    for k in want:
        if k != name and peeled.get(k) != peeled2.get(k) and k in packed2:
            return "%s:success-lost-peeled-value-of-another-ref" % op, cls
    return None, cls


def run_case(w, T, kind, byst, header, tstate, mode, case):
    op, name, exp, new = case
    s = w.store
    before = H.layout(T, tstate, kind, byst, header)
    if mode == "fresh":
        s.restore(before)
        c = w.container()
    else:
        s.restore(H.layout(T, mode, kind, byst, header))
        c = w.container()
        c.as_dict()                       # a process that has looked at the refs before
        s.restore(before)
    try:
        result = call_op(c, op, name, exp, new)
    except Exception as e:  # noqa
        return "%s:%s:%s" % (op, type(e).__name__, innermost(e)), "%s/raise" % op, repr(e)
    after = s.walk(ROOT)
    sig, cls = judge(op, name, exp, new, before, after, result)
    return sig, cls, result


def keep(acc, sig, key, detail):
    """Per signature keep the smallest failing case (the Acc list is capped, this is not)."""
    acc.count("violations:" + sig)
    best = acc.__dict__.setdefault("best", {})
    if sig not in best or key < best[sig][0]:
        best[sig] = (key, detail)


def merge_best(accs):
    best = {}
    for a in accs:
        for sig, (key, d) in getattr(a, "best", {}).items():
            if sig not in best or key < best[sig][0]:
                best[sig] = (key, d)
    return best


def _seq_work(chunk):
    w = world()
    acc = par.Acc()
    for (T, tstate, kind, byst, header) in chunk:
        for case in cases_for(T, tstate, kind):
            op, name, exp, new = case
            fresh_ok = None
            for mode in ("fresh",) + (H.TSTATES if T != HEAD else ("absent", "loose")):
                sig, cls, result = run_case(w, T, kind, byst, header, tstate, mode, case)
                acc.n += 1
                stale = mode not in ("fresh", tstate)
                if mode == "fresh":
                    fresh_ok = sig is None
                key = (T, tstate, kind, byst, header, mode, case)
                if exp is not None or op == "add_if_new":
                    acc.nt(key)
                acc.outcomes.add((cls, "stale" if stale else "current"))
                acc.count("seq:" + op)
                if sig is not None:
                    if sig.endswith(":matching-old-value-refused") and stale:
                        # "succeeds only if": a spurious refusal from a stale view is not excluded by the statement
                        acc.count("seq:spurious-refusal-with-stale-cache")
                        continue
                    if stale and fresh_ok:
                        sig += ":stale-packed-cache"
                    d = {"part": "sequential", "target": T, "target_state": tstate, "access": kind, "name": name,
                         "bystanders": byst, "packed_header": header,
                         "container": "fresh" if mode == "fresh" else "warmed while target was %s" % mode,
                         "op": op, "expected": show(exp), "new": show(new), "result": result,
                         "case": [T, tstate, kind, byst, header, mode, list(case)]}
                    size = (0 if mode == "fresh" else 1) + (kind != "direct") + byst + (not header)
                    keep(acc, sig, (size, str(exp), str(T), tstate), d)
        acc.sample({"target": T.decode(), "state": tstate, "access": kind, "bystanders": byst})
    return acc


# =============================================================================
# Part 2: two updaters, every transport operation a scheduling point
# =============================================================================

T = b"refs/heads/x"
MASTER = b"refs/heads/master"
VA, VB = H.sha("aa"), H.sha("bb")
H.NAMES.update(VA=VA, VB=VB)
H.RNAMES.update({VA: "VA", VB: "VB"})

# (family, initial state of the target, body A, body B)
#   CAS e n  set_if_equals(T, e, n)        HCAS e n  set_if_equals(HEAD -> T, e, n)
#   SET n    refs[T] = n (unconditional)   DEL e     remove_if_equals(T, e)
#   ADD n    add_if_new(T, n)              DELO      remove_if_equals(refs/tags/pk, None)  (another packed ref)
#   WDEL / WDELO: the same from a container that has listed the refs before (packed-refs cached)
#   RMW n    what fetch_refs does: old = refs[T] -> set_if_equals(T, old, n); KeyError -> add_if_new(T, n)
#   LRMW n   the same under lock_ref(T), as GitBranch.lock_write does
#   PUSH     Branch.push(lossy=True) of a bzr branch into the git branch (real fetch_refs)
REF_SCENARIOS = [
    ("loose", ("CAS", "V1", "VA"), ("CAS", "V1", "VB")),
    ("packed", ("CAS", "V1", "VA"), ("CAS", "V1", "VB")),
    ("both", ("CAS", "V1", "VA"), ("CAS", "V1", "VB")),
    ("loose", ("CAS", "V1", "VA"), ("CAS", "VA", "VB")),
    ("loose", ("CAS", "V1", "VA"), ("SET", "VB")),
    ("packed", ("CAS", "V1", "VA"), ("SET", "VB")),
    ("loose", ("CAS", "V1", "VA"), ("DEL", "V1")),
    ("packed", ("CAS", "V1", "VA"), ("DEL", "V1")),
    ("both", ("CAS", "V1", "VA"), ("DEL", "V1")),
    ("loose", ("DEL", "V1"), ("DEL", "V1")),
    ("packed", ("DEL", "V1"), ("DEL", "V1")),
    ("packed", ("DEL", "V1"), ("SET", "VB")),
    ("both", ("DEL", "V1"), ("SET", "VB")),
    ("absent", ("ADD", "VA"), ("ADD", "VB")),
    ("absent", ("ADD", "VA"), ("SET", "VB")),
    ("loose", ("ADD", "VA"), ("DEL", "V1")),
    ("loose", ("RMW", "VA"), ("RMW", "VB")),
    ("packed", ("RMW", "VA"), ("RMW", "VB")),
    ("absent", ("RMW", "VA"), ("RMW", "VB")),
    ("loose", ("HCAS", "V1", "VA"), ("CAS", "V1", "VB")),
    ("loose", ("LRMW", "VA"), ("LRMW", "VB")),
    ("absent", ("LRMW", "VA"), ("LRMW", "VB")),
    ("loose", ("LRMW", "VA"), ("CAS", "V1", "VB")),
    ("packed", ("WDEL", "V1"), ("WDEL", "V1")),
    ("packed", ("WDEL", "V1"), ("CAS", "V1", "VA")),
    ("both", ("WDEL", "V1"), ("SET", "VB")),
    ("packed", ("WDELO",), ("ADD", "VA")),
    ("packed", ("WDELO",), ("CAS", "V1", "VA")),
    ("packed", ("WDELO",), ("RMW", "VA")),
    ("packed", ("WDELO",), ("WDEL", "V1")),
    ("packed", ("DELO",), ("DEL", "V1")),
]
#   PUSH / PUSH2   Branch.push(lossy=True) of bzr branch b / b2 into the git branch (takes the branch's ref lock,
#                  then the real InterToLocalGitRepository.fetch_refs)
#   FREFS / FREFS2 InterToLocalGitRepository.fetch_refs called directly for b / b2 (no ref lock)
# initial states: pushed-r1 = refs/heads/master exists (r1 of b was pushed; b has r2, b2 has r1 + its own r2b);
#                 fresh = the git repository has no refs/heads/master yet (b has r1, r2; b2 has its own root)
PUSH_SCENARIOS = [
    ("pushed-r1", ("PUSH",), ("SET", "VB")),
    ("pushed-r1", ("PUSH",), ("CAS", "G1", "VB")),
    ("pushed-r1", ("PUSH",), ("LRMW", "VB")),
    ("pushed-r1", ("FREFS",), ("SET", "VB")),
    ("pushed-r1", ("FREFS",), ("FREFS2",)),
    ("pushed-r1", ("PUSH",), ("PUSH2",)),
    ("fresh", ("PUSH",), ("SET", "VB")),
    ("fresh", ("PUSH",), ("ADD", "VB")),
    ("fresh", ("FREFS",), ("SET", "VB")),
    ("fresh", ("FREFS",), ("ADD", "VB")),
    ("fresh", ("FREFS",), ("FREFS2",)),
    ("fresh", ("PUSH",), ("PUSH2",)),
]
PUSHERS = ("PUSH", "PUSH2", "FREFS", "FREFS2")


def scenarios():
    return [("ref",) + s for s in REF_SCENARIOS] + [("push",) + s for s in PUSH_SCENARIOS]


def push_snapshot(w, init):
    """Store content: bzr branches b and b2, bare git repository g (see PUSH_SCENARIOS)."""
    snaps = w.__dict__.setdefault("push_snaps", {})
    if init not in snaps:
        from breezy.controldir import format_registry
        from mc import world as mw
        s = w.store
        s.restore({})
        gt = s.transport("g")
        gt.ensure_base()
        d = format_registry.make_controldir("git-bare").initialize_on_transport(gt)
        b = mw.make_branch(s.transport("b"), "2a")
        b2 = mw.make_branch(s.transport("b2"), "2a")
        mw.commit_spec(b, b"r1", [], {"a": mw.F(b"a-id", b"1\n")})
        gb = d.create_branch()
        g1 = None
        if init == "pushed-r1":
            b.push(gb, lossy=True)
            b2.repository.fetch(b.repository, revision_id=b"r1")
            with b2.lock_write():
                b2.generate_revision_history(b"r1")
            mw.commit_spec(b2, b"r2b", [b"r1"], {"a": mw.F(b"a-id", b"2b\n")})
        else:
            mw.commit_spec(b2, b"r1b", [], {"a": mw.F(b"a-id", b"1b\n")})
        mw.commit_spec(b, b"r2", [b"r1"], {"a": mw.F(b"a-id", b"2\n")})
        raw, _, _, _, _ = H.read_state(s.walk(ROOT))
        g1 = H.follow(raw, MASTER)[1]
        if (g1 is None) != (init == "fresh") or H.follow(raw, HEAD)[1] != g1:
            raise HarnessError("push scenario %s: unexpected initial value of %r: %r" % (init, MASTER, g1))
        snaps[init] = (s.walk(), g1)
    w.g1 = snaps[init][1]
    return snaps[init][0]


def initial(w, family, init):
    if family == "push":
        return push_snapshot(w, init), MASTER
    return H.layout(T, init, "headsym", True), T


def value_of(w, token):
    if token == "G1":
        return w.g1
    return H.NAMES[token]


def make_body(w, family, target, spec):
    from breezy.errors import LockContention
    kind = spec[0]

    def note_read(c, i):
        rec = {"proc": i, "opname": "read", "name": target, "args": (), "k0": w.own_steps(i), "result": None}
        w.hist.append(rec)
        try:
            rec["result"] = c[target]
        except KeyError:
            rec["result"] = None
        rec["k1"] = w.own_steps(i)
        return rec["result"]

    def rmw(c, i, new):
        old = note_read(c, i)
        if old is None:
            return c.add_if_new(target, new)
        return c.set_if_equals(target, old, new)

    def body(i):
        if kind in PUSHERS:
            from breezy.branch import Branch
            from breezy.errors import DivergedBranches
            src = Branch.open(w.store.url + ("b2" if kind.endswith("2") else "b"))
            # the git prober refuses in-process transports; open the bare git dir through its format
            from breezy.controldir import format_registry
            dst = format_registry.make_controldir("git-bare").open(w.root.clone("g"), _found=True).open_branch()
            try:
                if kind.startswith("PUSH"):
                    src.push(dst, lossy=True)
                else:
                    from breezy.repository import InterRepository
                    inter = InterRepository.get(src.repository, dst.repository)
                    revid = src.last_revision()
                    with src.lock_read(), dst.repository.lock_write():
                        inter.fetch_refs(lambda old_refs: {target: (None, revid)}, lossy=True)
            except LockContention:
                return "contention"
            except DivergedBranches:
                return "diverged"
            return "pushed"
        try:
            return body2(i)
        except LockContention:
            return "contention"

    def body2(i):
        c = w.container()
        if kind == "CAS":
            return c.set_if_equals(target, value_of(w, spec[1]), value_of(w, spec[2]))
        if kind == "HCAS":
            return c.set_if_equals(HEAD, value_of(w, spec[1]), value_of(w, spec[2]))
        if kind == "SET":
            c[target] = value_of(w, spec[1])
            return True
        if kind in ("WDEL", "WDELO"):
            c.as_dict()
        if kind in ("DEL", "WDEL"):
            return c.remove_if_equals(target, value_of(w, spec[1]))
        if kind in ("DELO", "WDELO"):
            return c.remove_if_equals(H.PKTAG, None)
        if kind == "ADD":
            return c.add_if_new(target, value_of(w, spec[1]))
        if kind == "RMW":
            return rmw(c, i, value_of(w, spec[1]))
        if kind == "LRMW":
            try:
                lock = c.lock_ref(target)
            except LockContention:
                return "contention"
            try:
                return rmw(c, i, value_of(w, spec[1]))
            finally:
                lock.unlock()
        raise ValueError(kind)
    return body


REF_PATHS = (ROOT + "/refs/", ROOT + "/HEAD", ROOT + "/packed-refs")


def is_point(op):
    # mkdir of the (always pre-existing) refs directories is a no-op and commutes with everything;
    # anything outside the ref files (objects, config, the bzr branch) is not shared ref state
    if op.kind == "mkdir" and not op.path.endswith(".lock"):
        return False
    return op.path.startswith(REF_PATHS)


def run_sched(scn, prefix):
    family, init, sa, sb = scn
    w = world()
    files, target = initial(w, family, init)
    w.store.restore(files)
    del w.store.log[:]
    w.hist = []
    w.snaps = {}
    bodies = [make_body(w, family, target, sa), make_body(w, family, target, sb)]
    raw0 = H.read_state(w.store.walk(ROOT))[0]
    vals = [H.follow(raw0, target)[1]]
    others0 = {k: v for k, v in raw0.items() if k != target}
    states = set()

    def monitor(sim, ch, op):
        st = H.read_state(w.store.walk(ROOT))
        v = H.follow(st[0], target)[1]
        vals.append(v)
        cnt = [0, 0]
        for q in sim.points:
            cnt[q.chosen] += 1
        states.add(hash((tuple(cnt), v, tuple(st[2]), target in st[3], target in st[4])))
        return None
    sim = procs.Sim(w.store, bodies, prefix, monitor=monitor, is_point=is_point, horizon=600)
    w.sim = sim
    try:
        sim.run()
    finally:
        w.sim = None
    sim.vals = vals
    sim.hist = w.hist
    sim.snaps = dict(w.snaps)
    sim.states = states
    sim.target = target
    sim.final = H.read_state(w.store.walk(ROOT))
    sim.others0 = others0
    return sim


def _own_steps(w, p):
    sim = w.sim
    return sum(1 for q in sim.points if q.chosen == p) if sim is not None else 0


World.own_steps = _own_steps


def history(sim):
    """Recorded operations on the target register with global first/last step indices."""
    ch = sim.choices()
    pos = {p: [k for k, c in enumerate(ch) if c == p] for p in (0, 1)}
    out = []
    for rec in sim.hist:
        p = rec["proc"]
        k0, k1 = rec["k0"], rec.get("k1", rec["k0"])
        if k1 > k0:
            first, last = pos[p][k0], pos[p][k1 - 1]
        else:       # no scheduling point inside the call: it sits between two of the process's steps
            first = last = (pos[p][k0 - 1] + 0.5) if k0 else -0.5
        name, args, opname, res = rec["name"], rec["args"], rec["opname"], rec["result"]
        if opname == "read":
            op = ("read", None, None)
        elif name == H.PKTAG:
            continue                                   # operation on another register
        elif opname == "set_if_equals":
            op = ("set", args[0], args[1])
        elif opname == "remove_if_equals":
            op = ("remove", args[0], None)
        else:
            op = ("add", None, args[0])
        out.append({"proc": p, "opname": opname, "op": op, "first": first, "last": last, "result": res,
                    "name": name})
    return out


def judge_schedule(scn, sim):
    """List of (signature, detail-part); empty when the execution satisfies the property."""
    family = scn[0]
    out = []
    for i, e in enumerate(sim.errs):
        if e is not None:
            out.append(("schedule:process-error:%s:%s" % (type(e).__name__, innermost(e)),
                        {"error": repr(e), "process": i, "body": list(scn[2 + i])}))
    hist = history(sim)
    vals = sim.vals
    raw_f, _, locks_f, _, _ = sim.final
    final = H.follow(raw_f, sim.target)[1]
    if final != vals[-1]:
        raise HarnessError("value timeline out of step with the store")
    if locks_f and not out:
        out.append(("schedule:lock-left-behind", {"locks": locks_f}))
    # LockContention is the documented refusal of an operation that found the ref locked: no effect
    hist = [h for h in hist if h["result"] != "raised:LockContention"]
    ops = [h for h in hist if not (isinstance(h["result"], str) and h["result"].startswith("raised"))]
    nlocked = sum(1 for s in scn[2:4] if s[0] in ("LRMW", "PUSH", "PUSH2"))
    locked = {0: "no-lock", 1: "one-updater-without-lock", 2: "under-ref-lock"}[nlocked]
    if len(ops) != len(hist):
        # an operation raised something else: its effect is unknown, the process error above reports it
        return out
    if not H.linearisable(vals[0], ops, final):
        updates = [h for h in ops if h["opname"] != "read"]
        if len(updates) != len(ops) and H.linearisable(vals[0], updates, final):
            # only the harness's own plain read (refs[name]) does not fit; the statement is about
            # the conditional updates, so this is counted, not reported
            sim.torn_read = True
            return out
        out.append(classify(ops, hist, vals, final, locked))
        return out
    # A push decides from a snapshot of the target's refs: its final conditional write must behave as
    # "add only if new" for a ref absent from that snapshot and as "set if still the snapshot value" otherwise,
    # whatever primitive and expected value fetch_refs chose to pass.
    intent = []
    for h in ops:
        spec = scn[2 + h["proc"]]
        if spec[0] in PUSHERS and h["opname"] in ("set_if_equals", "add_if_new") and h["proc"] in sim.snaps:
            new_value = h["op"][2]
            seen = sim.snaps[h["proc"]].get(sim.target)
            h = dict(h, op=("add", None, new_value) if seen is None else ("set", seen, new_value),
                     intended=True)
        intent.append(h)
    if any(h.get("intended") for h in intent) and not H.linearisable(vals[0], intent, final):
        sig, d = classify(intent, intent, vals, final, locked)
        sig = {"schedule:add_if_new:ref-existed-throughout": "schedule:fetch_refs:overwrote-ref-created-after-its-snapshot",
               "schedule:set_if_equals:expected-value-never-held":
                   "schedule:fetch_refs:overwrote-ref-changed-after-its-snapshot"}.get(
            sig, sig.replace("schedule:non-linearisable:", "schedule:fetch_refs:non-linearisable:"))
        d["snapshot_of_target_ref"] = {("P%d" % p): show(v.get(sim.target)) for p, v in sim.snaps.items()}
        d["calls_made"] = brief_hist(hist)
        out.append((sig, d))
        return out
    # refs nobody addressed keep their value (DELO removes refs/tags/pk on purpose)
    for k, v in sim.others0.items():
        if k == H.PKTAG and any(s[0] in ("DELO", "WDELO") for s in scn[2:4]):
            continue
        if family == "ref" and raw_f.get(k) != v:
            out.append(("schedule:another-ref-changed", {"ref": k, "before": show(v), "after": show(raw_f.get(k))}))
            break
    return out


def classify(ops, hist, vals, final, locked):
    """Abstract the cause of a non-linearisable history into a signature."""
    d = {"history": brief_hist(hist), "values": [show(v) for v in vals], "final": show(final)}
    for h in ops:
        kind, exp, new = h["op"]
        if h["result"] is not True or kind == "read":
            continue
        lo = int(math.ceil(h["first"]))
        hi = int(math.floor(h["last"]))
        seen = set(vals[lo:hi + 1] or [vals[lo]])      # values of the ref before each of the call's steps
        if kind in ("set", "remove") and exp is not None:
            if exp not in seen and not (exp == ZERO and None in seen):
                return "schedule:%s:expected-value-never-held" % h["opname"], d
        if kind == "add" and None not in seen:
            return "schedule:add_if_new:ref-existed-throughout", d
    names = "+".join(sorted({h["opname"] for h in ops if h["opname"] != "read"}))
    return "schedule:non-linearisable:%s:%s" % (names, locked), d


def brief_hist(hist):
    return ["P%d %s(%s) steps %s..%s -> %s" % (h["proc"], h["opname"],
                                                ", ".join(str(show(x)) for x in h["op"][1:] if x is not None),
                                                h["first"], h["last"], show(h["result"]) if isinstance(h["result"], bytes) else h["result"])
            for h in hist]


def canon_trace(trace):
    return ["P%d %s" % (p, b) for p, b in trace]


def _observe(acc, scn, sim):
    acc.n += 1
    acc.count("transitions", len(sim.points))
    if sim.livelock:
        raise HarnessError("horizon hit in scenario %r schedule %r" % (scn, sim.choices()))
    acc.__dict__.setdefault("states", set()).update(hash((scn, x)) for x in sim.states)
    hist = history(sim)
    acc.outcomes.add((scn, tuple(sim.results), tuple((h["opname"], h["result"]) for h in hist), sim.vals[-1]))
    if sim.preemptions() > 0:
        acc.nt((scn, tuple(sim.choices())))
    verdict = judge_schedule(scn, sim)
    if getattr(sim, "torn_read", False):
        acc.count("plain-read-saw-value-the-ref-never-had")
    for sig, d in verdict:
        d = dict(d)
        d.update({"part": "schedule", "scenario": list(scn), "schedule": sim.choices(),
                  "results": list(sim.results), "trace": canon_trace(sim.trace), "preemptions": sim.preemptions()})
        keep(acc, sig, (sim.preemptions(), len(sim.points), repr(scn)), d)


def _sched_work(items):
    acc = par.Acc()
    for scn, bound, prefix in items:
        procs.explore(lambda p: run_sched(scn, p), bound, roots=[prefix],
                      on_exec=lambda sim: _observe(acc, scn, sim))
    return acc


def plan_bound(scn, limit, fallback):
    """All interleavings when their number (from the sequential run's step counts) is within the limit."""
    sim = run_sched(scn, [])
    n = [0, 0]
    for q in sim.points:
        n[q.chosen] += 1
    total = math.comb(n[0] + n[1], n[0])
    return (None if total <= limit else fallback), n, total, sim


# =============================================================================
# run
# =============================================================================

def prepare():
    """Once, in the parent process (workers share the hermetic BRZ_HOME): silence the slow-push warning."""
    from breezy import config
    config.GlobalConfig().set_user_option("suppress_warnings", "slow_intervcs_push")


def run(ctx):
    prepare()
    lay = seq_layouts(ctx.thorough)
    accs = par.pmap(_seq_work, lay, seed=ctx.seed)
    acc = par.merge(accs)
    best = merge_best(accs)

    # schedules
    limit = ctx.q(1500, 60000)
    fallback = ctx.q(2, 4)
    sacc = par.Acc()
    work = []
    plan = []
    for scn in scenarios():
        bound, n, total, a = plan_bound(scn, limit, fallback)
        b = run_sched(scn, [])
        if canon_trace(a.trace) != canon_trace(b.trace) or a.results != b.results or a.vals != b.vals:
            raise HarnessError("non-deterministic execution in scenario %r" % (scn,))
        plan.append({"scenario": list(scn), "steps_per_process": n, "interleavings_estimate": total,
                     "preemption_bound": "unbounded" if bound is None else bound})
        pre, _ = procs.frontier(lambda p: run_sched(scn, p), bound, want=24,
                                on_exec=lambda sim: _observe(sacc, scn, sim))
        work.extend((scn, bound, p) for p in pre)
    saccs = [sacc] + par.pmap(_sched_work, work, seed=ctx.seed)
    states = set()
    for a in saccs:
        states |= getattr(a, "states", set())
    sm = par.merge(saccs)
    sbest = merge_best(saccs)
    for sig in sorted(best):
        ctx.violation(sig, best[sig][1])
    for sig in sorted(sbest):
        ctx.violation(sig, sbest[sig][1])
    ctx.assumptions += [
        "refs live on a non-local transport (the vfs seam): lock_ref takes its has()+put_bytes() branch, not the O_EXCL GitFile branch used on a local disk",
        "each transport operation is atomic; processes interact only through transport operations",
        "mkdir of the pre-existing refs directories and operations outside HEAD, refs/ and packed-refs are not scheduling points",
        "ZERO_SHA as expected value of an absent ref and remove_if_equals on a symbolic ref are accepted under both readings",
    ]
    sample = run_sched(scenarios()[0], [])
    cov = {
        "evaluations": acc.n + sm.n,
        "sequential_cases": acc.n,
        "sequential_layouts": len(lay),
        "sequential_nontrivial": len(acc.nontrivial),
        "sequential_outcome_classes": sorted("%s %s" % o for o in acc.outcomes),
        "schedules_executed": sm.n,
        "states": len(states),
        "transitions": sm.counters.get("transitions", 0),
        "traces_validated_against_impl": sm.n,
        "distinct_schedule_outcomes": len(sm.outcomes),
        "distinct_nontrivial": len(acc.nontrivial) + len(sm.nontrivial),
        "schedule_plan": plan,
        "violation_counts": {k[len("violations:"):]: v for k, v in list(acc.counters.items()) + list(sm.counters.items())
                             if k.startswith("violations:")},
        "spurious_refusals_with_stale_cache": acc.counters.get("seq:spurious-refusal-with-stale-cache", 0),
        "schedules_where_only_a_plain_read_is_not_linearisable": sm.counters.get("plain-read-saw-value-the-ref-never-had", 0),
        "rule": ("sequential: one evaluation = one call on one layout/container mode, non-trivial = conditional call "
                 "(expected value given) or add_if_new; schedules: one evaluation = one complete schedule of two "
                 "processes, non-trivial = schedule with >= 1 preemption"),
        "samples": acc.samples[:2] + [{"scenario": list(scenarios()[0]), "schedule": sample.choices(),
                                       "trace": canon_trace(sample.trace),
                                       "history": brief_hist(history(sample))}],
        "exhaustive": True,
    }
    return cov


def replay(ctx, data):
    prepare()
    d = data["first"]
    if d.get("part") == "schedule":
        scn = d["scenario"]
        scn = (scn[0], scn[1], tuple(scn[2]), tuple(scn[3]))
        sim = run_sched(scn, d["schedule"])
        for line in canon_trace(sim.trace):
            print("  " + line)
        v = judge_schedule(scn, sim)
        print("  history:", brief_hist(history(sim)))
        print("  values:", [show(x) for x in sim.vals], "verdict:", v)
        return not v
    Tn, tstate, kind, byst, header, mode, case = d["case"]
    case = tuple(x.encode() if isinstance(x, str) and i else x for i, x in enumerate(case))
    sig, cls, result = run_case(world(), Tn.encode(), kind, byst, header, tstate, mode, case)
    print("  result:", result, "class:", cls, "verdict:", sig)
    return sig is None
