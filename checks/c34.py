"""C34 - Importing then exporting a git commit reproduces it byte for byte.

Every commit of a grammar is written out as raw git commit text (canonical header order),
parsed by dulwich, imported with the real ``BzrGitMappingv1().import_commit``, exported again with ``export_commit`` (lossy=True as the object
store does for non-roundtripping mappings, and lossy=False) onto the same tree and parent
SHAs.  Grammar (full product): encoding header {none, UTF-8, ISO-8859-1, false, bogus} x
identity {ascii, non-ascii in the commit's encoding, empty e-mail} x author =/!= committer
x author time =/!= commit time x commit timezone {+0000, -0000, +0130, -1200} x author
timezone {same, other incl. -0000} x message {missing, empty, text, no final newline,
non-ASCII UTF-8, Latin-1 bytes, bzr/hg/git-svn look-alike tails} x gpgsig {none, present} x
mergetag {0,1,2} x extra headers {none, HG:rename-source, HG:extra (known key), both,
unknown header} x parents {0,1,2 (3)}.
Oracle: the exported commit's ``as_raw_string()`` equals the original text and its id is the
SHA-1 of that text; two imports give the same revision id, which is the id
``get_revision_id`` reports and maps back to the commit's SHA.  A commit the mapping (or
dulwich's own parser/serialiser) rejects is outside the domain.
"""
import hashlib
import itertools

from mc import par
from mc.evidence import HarnessError

from ._sigacc import SigAcc, smallest

ID = "C34"
LEVEL = "exploration"
TECHNIQUE = "exhaustive enumeration of a commit grammar (full product of field alternatives) through the real import_commit/export_commit, byte comparison of the re-serialised commit"

TREE = b"cc9462f7f8263ef5adfbeff2fb936bb36b504cba"
PARENTS = (b"1" * 40, b"2" * 40, b"3" * 40)

ENCODINGS = (None, b"UTF-8", b"ISO-8859-1", b"false", b"bogus-enc")
IDENT = ("ascii", "nonascii", "emptyemail")
TZS = (b"+0000", b"-0000", b"+0130", b"-1200")
MESSAGES = ("missing", "empty", "text", "nonl", "utf8", "latin1", "bzrtail", "hgtail", "svntail")
GPG = (False, True)
MERGETAGS = (0, 1, 2)
EXTRAS = ("none", "hgrename", "hgextra", "both", "unknown")

GPGSIG = b"-----BEGIN PGP SIGNATURE-----\n \n iQEcBAABAgAGBQJ\n =abcd\n -----END PGP SIGNATURE-----"


def tag_text(i):
    return (b"object " + bytes([ord("a") + i]) * 40 + b"\ntype commit\ntag v%d\ntagger T <t@example.com> 12 +0000\n\n"
            b"tag message %d\n-----BEGIN PGP SIGNATURE-----\n\nxyz\n-----END PGP SIGNATURE-----\n" % (i, i))


def ident(kind, who, enc):
    if kind == "ascii":
        return b"%s U Thor <%s@example.com>" % (who, who.lower())
    if kind == "emptyemail":
        return who + b" <>"
    # non-ascii in the encoding the commit declares (UTF-8 when none is declared)
    if enc == b"ISO-8859-1":
        return b"%s J\xe9r\xf4me <%s@example.com>" % (who, who.lower())
    return b"%s J\xc3\xa9r\xc3\xb4me <%s@example.com>" % (who, who.lower())


def message(kind, enc):
    return {
        "missing": None,
        "empty": b"",
        "text": b"Some message\n\nwith a body\n",
        "nonl": b"no final newline",
        "utf8": b"caf\xc3\xa9 \xe2\x82\xac\n",
        "latin1": b"caf\xe9\n",
        "bzrtail": b"msg\n\n--BZR--\nrevision-id: foo@bar-1\nproperty-x: y\n",
        "hgtail": b"msg\n\n--HG--\nbranch : stable\n",
        "svntail": b"msg\n\ngit-svn-id: svn://example.com/repo/trunk@12 6f95ccd0-0f4a-0410-8e2c-a4c9f4a9bb0d\n",
    }[kind]


def continuation(value):
    return value.replace(b"\n", b"\n ")


def raw_commit(case):
    enc, idk, diff_author, diff_time, ctz, atz_kind, msgk, gpg, nmt, extra, npar = case
    lines = [b"tree " + TREE]
    for p in PARENTS[:npar]:
        lines.append(b"parent " + p)
    committer = ident(idk, b"C", enc)
    author = ident(idk, b"A", enc) if diff_author else committer
    ctime = 1234567890
    atime = 1234560000 if diff_time else ctime
    atz = ctz if atz_kind == "same" else {b"+0000": b"-0000", b"-0000": b"+0000", b"+0130": b"-0000",
                                          b"-1200": b"+0130"}[ctz]
    lines.append(b"author %s %d %s" % (author, atime, atz))
    lines.append(b"committer %s %d %s" % (committer, ctime, ctz))
    if enc is not None:
        lines.append(b"encoding " + enc)
    for i in range(nmt):
        lines.append(b"mergetag " + continuation(tag_text(i).rstrip(b"\n")))
    if extra in ("hgrename", "both"):
        lines.append(b"HG:rename-source hg")
    if extra in ("hgextra", "both"):
        lines.append(b"HG:extra rebase_source:0123456789abcdef0123456789abcdef01234567")
    if extra == "unknown":
        lines.append(b"x-unknown-header some value")
    if gpg:
        lines.append(b"gpgsig " + GPGSIG)
    text = b"\n".join(lines) + b"\n"
    msg = message(msgk, enc)
    if msg is not None:
        text += b"\n" + msg
    return text


def feature_class(case):
    enc, idk, diff_author, diff_time, ctz, atz_kind, msgk, gpg, nmt, extra, npar = case
    return {"encoding": enc, "identity": idk, "author!=committer": diff_author, "author_time!=commit_time": diff_time,
            "commit_tz": ctz, "author_tz": atz_kind, "message": msgk, "gpgsig": gpg, "mergetags": nmt, "extra": extra,
            "parents": npar}


def first_difference(a, b):
    """Name of the first header (or 'message') on which two raw commits differ."""
    la, lb = a.split(b"\n"), b.split(b"\n")
    in_msg = False
    last_key = b"?"
    for i in range(max(len(la), len(lb))):
        x = la[i] if i < len(la) else None
        y = lb[i] if i < len(lb) else None
        if x is not None and not in_msg:
            if x == b"":
                in_msg = True
            elif not x.startswith(b" "):
                last_key = x.split(b" ", 1)[0]
        if x != y:
            if in_msg or x is None:
                return "message"
            return last_key.decode("ascii", "replace")
    return "none"


def _exc_sig(e):
    import traceback
    fn = "?"
    for fr in traceback.extract_tb(e.__traceback__):
        if "/breezy/" in fr.filename:
            fn = fr.name
    return "%s:%s" % (type(e).__name__, fn)


_M = {}


def check_case(case, acc, mapname):
    from dulwich.objects import Commit
    from breezy.git import mapping as gm
    from breezy.git.errors import NoPushSupport
    if mapname not in _M:
        _M[mapname] = {"v1": gm.BzrGitMappingv1, "experimental": gm.BzrGitMappingExperimental}[mapname]()
    m = _M[mapname]
    raw = raw_commit(case)
    parsed_from = raw
    acc.n += 1
    try:
        c1 = Commit.from_string(raw)           # imported as parsed; id = SHA-1 of the text
        c0 = Commit.from_string(raw)
        c0.tree = c0.tree                      # force re-serialisation from the parsed fields
        canonical = c0.as_raw_string()
    except Exception as e:  # noqa
        acc.count("dulwich_rejects")
        acc.outcomes.add(("dulwich-rejects", type(e).__name__))
        return
    sha = hashlib.sha1(b"commit %d\x00" % len(raw) + raw).hexdigest().encode("ascii")
    if c1.id != sha:
        raise HarnessError("dulwich id differs from sha1 of the text")
    expect = raw
    if canonical != raw:
        # dulwich itself cannot reproduce this text (a commit without any message is written with an
        # empty one): the exported commit is then compared with dulwich's own re-serialisation
        noncanon = first_difference(raw, canonical)
        if noncanon != "message" or c1.message is not None:
            acc.count("dulwich_not_canonical")
            acc.outcomes.add(("dulwich-not-canonical", noncanon))
            return
        acc.count("compared_with_dulwich_reserialisation")
        expect = canonical
    fc = feature_class(case)
    try:
        rev, rt_revid, verifiers = m.import_commit(c1, m.revision_id_foreign_to_bzr, strict=True)
    except Exception as e:  # noqa
        acc.count("import_rejects")
        acc.outcomes.add(("import-rejects", mapname, type(e).__name__))
        return
    acc.count("accepted")
    nontrivial = sum(1 for k, v in fc.items() if v not in (None, "ascii", False, b"+0000", "same", "text", 0, "none", 1))
    if nontrivial >= 2:
        acc.count("nt")
    # revision id stability
    try:
        rev2, _, _ = m.import_commit(Commit.from_string(parsed_from), m.revision_id_foreign_to_bzr, strict=True)
        rid = m.get_revision_id(c1)
        back = gm.mapping_registry.revision_id_bzr_to_foreign(rev.revision_id)[0]
    except Exception as e:  # noqa
        acc.violation("%s:revision-id:%s%s" % (mapname, _exc_sig(e), ":encoding-false" if fc["encoding"] == b"false" else ""),
                      {"commit": raw, "features": fc})
        return
    if not (rev.revision_id == rev2.revision_id == rid) or back != sha or rev.properties != rev2.properties:
        acc.violation("%s:revision-id-not-stable" % mapname, {"commit": raw, "features": fc, "revids": [
            rev.revision_id, rev2.revision_id, rid], "sha_back": back})
        return

    def parent_lookup(revid):
        return gm.mapping_registry.revision_id_bzr_to_foreign(revid)[0]
    for lossy in (True, False):
        lname = "lossy" if lossy else "non-lossy"
        try:
            c2 = m.export_commit(rev, c1.tree, parent_lookup, lossy, {} if not lossy else None)
            out = c2.as_raw_string()
            cid = c2.id
        except NoPushSupport:
            acc.outcomes.add(("export-refuses-non-lossy", mapname))
            continue
        except Exception as e:  # noqa
            if isinstance(e, LookupError) and fc["encoding"] == b"false":
                what = "encoding-false"
            elif fc["message"] == "missing":
                what = "missing-message"
            else:
                what = "other"
            acc.violation("%s:export:%s:%s:%s" % (mapname, lname, _exc_sig(e), what), {"commit": raw, "features": fc})
            continue
        if out != expect:
            d = first_difference(expect, out)
            hint = ""
            if d == "message" and fc["message"] in ("bzrtail", "hgtail", "svntail"):
                hint = ":" + fc["message"]
            acc.violation("%s:%s:bytes-differ:%s%s" % (mapname, lname, d, hint),
                          {"commit": raw, "exported": out, "features": fc})
            continue
        if cid != sha and expect == raw:
            acc.violation("%s:%s:id-differs-though-bytes-equal" % (mapname, lname), {"commit": raw})
            continue
        acc.outcomes.add(("roundtrip-ok", mapname, lname, fc["message"], fc["encoding"]))
    if acc.n % 5000 == 1:
        acc.sample({"commit": raw})


def _size(d):
    return (sum(1 for v in d.get("features", {}).values() if v not in (None, "ascii", False, b"+0000", "same", "text", 0,
                                                                       "none")), len(d.get("commit", b"")))


def _work(chunk):
    acc = SigAcc(_size)
    for mapname, head in chunk:
        for tail in _TAILS[0]:
            check_case(head + tail, acc, mapname)
    return acc


_TAILS = [None]


def run(ctx):
    npar = ctx.q((0, 1, 2), (0, 1, 2, 3))
    heads = list(itertools.product(ENCODINGS, IDENT, (False, True), (False, True), TZS, ("same", "other")))
    _TAILS[0] = list(itertools.product(MESSAGES, GPG, MERGETAGS, EXTRAS, npar))
    maps = ("v1",)
    # determinism audit
    a1, a2 = SigAcc(), SigAcc()
    for h in heads[:3]:
        for t in _TAILS[0][:10]:
            check_case(h + t, a1, "v1")
            check_case(h + t, a2, "v1")
    if (a1.n, a1.violations, a1.outcomes) != (a2.n, a2.violations, a2.outcomes):
        raise HarnessError("non-deterministic")
    items = [(mn, h) for mn in maps for h in heads]
    acc = par.merge(par.pmap(_work, items, seed=ctx.seed, chunks_per_job=8))
    best = {}
    for sig, d in acc.violations:
        k = (sum(1 for v in d.get("features", {}).values() if v not in (None, "ascii", False, "+0000", "same", "text", 0,
                                                                         "none")), len(d.get("commit", b"")))
        if sig not in best or k < best[sig][0]:
            best[sig] = (k, d)
    for sig in sorted(best):
        ctx.violation(sig, best[sig][1])
    ctx.assumptions.append("commits whose text dulwich itself does not re-serialise identically are outside the domain "
                           "(counted as dulwich_not_canonical)")
    ctx.assumptions.append("export_commit is given the original tree SHA and a parent lookup that inverts the revision-id mapping")
    return {
        "evaluations": acc.n,
        "accepted_by_mapping": acc.counters.get("accepted", 0),
        "rejected_by_import": acc.counters.get("import_rejects", 0),
        "dulwich_not_canonical": acc.counters.get("dulwich_not_canonical", 0),
        "dulwich_rejects": acc.counters.get("dulwich_rejects", 0),
        "distinct_nontrivial": acc.counters.get("nt", 0),
        "distinct_outcomes": len(acc.outcomes),
        "outcomes": sorted(acc.outcomes, key=repr)[:60],
        "rule": "distinct by construction (full product of the grammar); non-trivial = accepted commit with at "
                "least two non-default features",
        "grammar_sizes": {"encoding": len(ENCODINGS), "identity": len(IDENT), "timezones": len(TZS), "message": len(MESSAGES),
                          "mergetag": len(MERGETAGS), "extra": len(EXTRAS), "parents": len(npar)},
        "samples": acc.samples[:2],
        "exhaustive": True,
    }
