"""C08 - Stacked branches stay readable from their own repository plus fallbacks.

Histories as in C03 (every DAG with 3 revisions (thorough: also 4, alternating
trees) x every assignment of 2 trees, + one ghost parent), built in a 2a source.
Split: every ancestor-closed subset F of the revisions is the content of the
fallback branch.  A 2a branch stacked on it then receives every tip not in F by
each route: sprout --stacked + pull; push --stacked-on (create_clone_on_transport);
repository fetch into a stacked repository; fetch of the tip's parents + a native
commit of the tip in the stacked branch; and, through the in-process loopback
smart server, push --stacked-on to, pull into and fetch into the remote stacked
branch (smart routes: every DAG x the alternating assignments).

Oracle, for every revision physically present in the stacked repository (keys
of the repository opened WITHOUT its fallback): either [A] its own and all its
parents' inventories are local, the delta against each parent can be computed
and every text it introduces relative to its parents can be extracted using the
stacked repository alone, or [B] its whole tree with all texts can be read from
the stacked repository alone (the weaker reading in the code's own wording).
With the fallback attached: every revision of the tip's ancestry reads back
equal to the source (tree with last-changed revisions, three testaments), its
delta against each parent equals the source's, Repository.check() reports
nothing the source's does not, the branch is still stacked and its tip is the
requested revision with the expected tree.  Any exception is a finding.
"""
from mc import par
from mc.evidence import HarnessError

from . import _fetchworld as fw

ID = "C08"
LEVEL = "exploration"
TECHNIQUE = "bounded exhaustive enumeration of histories x fallback splits x tips x routes on real stacked 2a repositories; invariant checked on the repository opened without its fallback, differential against the source with it"

LOCAL_ROUTES = ("sprout+pull", "push-stacked-on", "fetch", "commit")
SMART_ROUTES = ("smart-push-stacked-on", "smart-pull", "smart-fetch")


def _changes(tree, ptree):
    out = []
    for c in tree.iter_changes(ptree):
        out.append((c.file_id, tuple(c.path), bool(c.changed_content), tuple(c.versioned), tuple(c.name), tuple(c.kind),
                    tuple(c.executable)))
    return sorted(out, key=repr)


def source_world(hist):
    from breezy.branch import Branch
    from mc import world as mw
    from mc.vfs import new_store
    S = new_store()
    S.logging = False
    fw.build(mw.make_branch(S.transport("t"), "2a"), hist)
    repo = Branch.open(S.url + "t").repository
    facts, deltas = {}, {}
    with repo.lock_read():
        for i in range(hist.n):
            facts[i] = fw.rev_facts(repo, hist.revid(i))
            t = repo.revision_tree(hist.revid(i))
            for p in hist.dag[i]:
                deltas[(i, p)] = _changes(t, repo.revision_tree(hist.revid(p)))
        chk = set(fw.check_summary(repo))
    return S, facts, deltas, chk


def make_fallback(T, hist, F, src_repo):
    from mc import world as mw
    fb = mw.make_branch(T.transport("fallback"), "2a")
    for h in hist.heads(F):
        fb.repository.fetch(src_repo, revision_id=hist.revid(h))
    if F:
        fb.generate_revision_history(hist.revid(max(F)))


def new_stacked(T):
    from breezy.branch import Branch
    from mc import world as mw
    b = mw.make_branch(T.transport("t"), "2a")
    b.set_stacked_on_url(T.url + "fallback")
    return Branch.open(T.url + "t")


def do_route(route, S, T, hist, tip):
    from breezy.branch import Branch
    from breezy.transport import get_transport
    from mc import world as mw
    from . import _loopback
    src = Branch.open(S.url + "t")
    rid = hist.revid(tip)
    fb = Branch.open(T.url + "fallback")
    if route == "sprout+pull":
        fb.controldir.sprout(T.url + "t", stacked=True)
        Branch.open(T.url + "t").pull(src, stop_revision=rid, overwrite=True)
    elif route == "push-stacked-on":
        src.create_clone_on_transport(T.transport("t"), revision_id=rid, stacked_on=fb.base)
    elif route == "fetch":
        b = new_stacked(T)
        b.repository.fetch(src.repository, revision_id=rid)
        Branch.open(T.url + "t").generate_revision_history(rid)
    elif route == "commit":
        b = new_stacked(T)
        for p in hist.dag[tip]:
            b.repository.fetch(src.repository, revision_id=hist.revid(p))
        mw.commit_spec(Branch.open(T.url + "t"), rid, hist.parents(tip), fw.tree_of(hist.states[tip], tip),
                       timestamp=1_000_000_000.0 + tip)
    elif route == "smart-push-stacked-on":
        url = _loopback.url_for(T)
        src.create_clone_on_transport(get_transport(url + "t"), revision_id=rid, stacked_on=url + "fallback")
    elif route == "smart-pull":
        fb.controldir.sprout(T.url + "t", stacked=True)
        Branch.open(_loopback.url_for(T) + "t").pull(src, stop_revision=rid, overwrite=True)
    elif route == "smart-fetch":
        new_stacked(T)
        Branch.open(_loopback.url_for(T) + "t").repository.fetch(src.repository, revision_id=rid)
        Branch.open(T.url + "t").generate_revision_history(rid)
    else:
        raise ValueError(route)


def local_invariant(T, hist, view):
    """Check readings A / B for every revision physically in the stacked repository.
    view: revid -> set of text keys referenced by its tree (read with the fallback attached).
    -> list of (what, detail)"""
    from breezy.repository import Repository
    R0 = Repository.open(T.url + "t")
    if R0._fallback_repositories:
        raise HarnessError("a repository opened directly has fallbacks attached")
    problems = []
    index = {hist.revid(i): i for i in range(hist.n)}
    with R0.lock_read():
        local_revs = sorted(k[0] for k in R0.revisions.keys())
        local_invs = {k[0] for k in R0.inventories.keys()}
        local_texts = set(R0.texts.keys())
        for r in local_revs:
            if r not in index:
                problems.append(("unknown-revision-in-stacked-repository", {"revision": r}))
                continue
            i = index[r]
            parents = [hist.revid(p) for p in hist.dag[i]]
            keys = view[r]
            introduced = set(keys)
            for p in parents:
                introduced -= view[p]
            why_not_a = None
            if r not in local_invs:
                why_not_a = ("own-inventory-not-local", {})
            elif any(p not in local_invs for p in parents):
                why_not_a = ("parent-inventory-not-local", {"missing": [p for p in parents if p not in local_invs]})
            elif not introduced <= local_texts:
                why_not_a = ("introduced-text-not-local", {"missing": sorted(introduced - local_texts)})
            else:
                try:
                    t = R0.revision_tree(r)
                    for p in parents:
                        list(t.iter_changes(R0.revision_tree(p)))
                    for rec in R0.texts.get_record_stream(sorted(introduced), "unordered", True):
                        rec.get_bytes_as("fulltext")
                except Exception as e:  # noqa
                    why_not_a = ("local-delta-unreadable:%s" % type(e).__name__, {"error": str(e)[:200],
                                                                                 "where": fw.innermost_repo_frame(e)})
            if why_not_a is None:
                continue
            ok_b = False
            if r in local_invs and keys <= local_texts:
                try:
                    from mc import world as mw
                    mw.dump_tree(R0.revision_tree(r))
                    ok_b = True
                except Exception:  # noqa
                    ok_b = False
            if not ok_b:
                problems.append((why_not_a[0], dict(why_not_a[1], revision=r, local_revisions=local_revs,
                                                    local_inventories=sorted(local_invs), local_texts=sorted(local_texts))))
    return problems, len(local_revs)


def one_case(acc, route, S, T, hist, F, tip, src_facts, src_deltas, src_check):
    from breezy.branch import Branch
    from mc import world as mw
    anc = hist.ancestors(tip)
    detail = {"route": route, "history": hist.describe(), "fallback_content": sorted(F), "tip": tip}
    try:
        do_route(route, S, T, hist, tip)
    except Exception as e:  # noqa
        acc.violation("%s:%s:%s" % (route, type(e).__name__, fw.innermost_repo_frame(e)), dict(detail, error=str(e)[:300]))
        return
    try:
        B = Branch.open(T.url + "t")
        stacked_on = B.get_stacked_on_url()
    except Exception as e:  # noqa
        acc.violation("%s:not-stacked-afterwards:%s" % (route, type(e).__name__), dict(detail, error=str(e)[:300]))
        return
    R = B.repository
    view = {}
    with R.lock_read():
        # with the fallback: everything in the ancestry reads back like the source
        for i in sorted(anc):
            rid = hist.revid(i)
            try:
                got = fw.rev_facts(R, rid)
                t = R.revision_tree(rid)
                for p in hist.dag[i]:
                    d = _changes(t, R.revision_tree(hist.revid(p)))
                    if d != src_deltas[(i, p)]:
                        acc.violation("%s:delta-against-parent-differs" % route, dict(detail, revision=i, parent=p,
                                                                                     source=src_deltas[(i, p)], target=d))
            except Exception as e:  # noqa
                acc.violation("%s:unreadable-with-fallback:%s:%s" % (route, type(e).__name__, fw.innermost_repo_frame(e)),
                              dict(detail, revision=i, error=str(e)[:300]))
                return
            view[rid] = {(r[4], r[5]) for r in got["tree"] + got["root"]}
            for k in ("meta", "tree", "root", "testament", "strict", "strict3", "text_parents", "root_text_parents"):
                if got[k] != src_facts[i][k]:
                    what = k
                    if k in ("tree", "root") and [r[:5] for r in got[k]] == [r[:5] for r in src_facts[i][k]]:
                        what = k + "(last-changed-revision-only)"
                    acc.violation("%s:%s-differs-from-source" % (route, what), dict(detail, revision=i, source=src_facts[i][k],
                                                                                  target=got[k]))
                    break
        try:
            probs = set(fw.check_summary(R))
        except Exception as e:  # noqa
            acc.violation("%s:check:%s:%s" % (route, type(e).__name__, fw.innermost_repo_frame(e)), dict(detail, error=str(e)[:300]))
            probs = set()
        new = sorted(probs - src_check, key=repr)
        if new:
            acc.violation("%s:check-reports:%s" % (route, new[0][0]), dict(detail, reported=new[:4]))
        if B.last_revision() != hist.revid(tip):
            acc.violation("%s:tip-not-the-requested-revision" % route, dict(detail, tip_now=B.last_revision()))
        else:
            want = mw.spec_dump(fw.tree_of(hist.states[tip], tip))
            try:
                got = mw.dump_tree(B.basis_tree())
            except Exception as e:  # noqa
                acc.violation("%s:tip-not-reconstructible:%s:%s" % (route, type(e).__name__, fw.innermost_repo_frame(e)),
                              dict(detail, error=str(e)[:300]))
                got = want
            if got != want:
                acc.violation("%s:tip-tree-wrong" % route, dict(detail, expected=want, got=got))
        # the view of revisions outside the ancestry that may be local (none expected) is not needed
    try:
        problems, nlocal = local_invariant(T, hist, view)
    except KeyError as e:
        acc.violation("%s:local-revision-outside-the-transferred-ancestry" % route, dict(detail, revision=repr(e)))
        return
    acc.count("local_revisions_checked", nlocal)
    if nlocal:
        acc.count("cases_with_local_revisions")
    for what, d in problems:
        acc.violation("%s:stacking-invariant:%s" % (route, what), dict(detail, **d))
    acc.outcomes.add((route, "local=%d" % min(nlocal, 3)))


def check_history(hist, routes, acc):
    from breezy.branch import Branch
    from mc.vfs import new_store
    from . import _loopback
    S, facts, deltas, chk = source_world(hist)
    try:
        src_repo = Branch.open(S.url + "t").repository
        for F in hist.closed_subsets():
            tips = [i for i in range(hist.n) if i not in F]
            if not tips:
                continue
            for route in routes:      # accounting depends on the enumeration only, never on the code under test
                for tip in tips:
                    acc.n += 1
                    acc.count("cases:" + route)
                    anc = hist.ancestors(tip)
                    if F and (set(F) & anc) and not anc <= set(F) and hist.has_merge():
                        acc.nt((route, hist.key(), F, tip))
            T = new_store()
            T.logging = False
            try:
                try:
                    make_fallback(T, hist, F, src_repo)
                except Exception as e:  # noqa
                    acc.violation("fallback-setup:%s:%s" % (type(e).__name__, fw.innermost_repo_frame(e)),
                                  {"route": "-", "history": hist.describe(), "fallback_content": sorted(F), "tip": tips[0],
                                   "error": str(e)[:300]})
                    continue
                snap = T.walk()
                first = True
                for route in routes:
                    for tip in tips:
                        if not first:
                            T.restore(snap)
                        first = False
                        one_case(acc, route, S, T, hist, F, tip, facts, deltas, chk)
            finally:
                _loopback.forget(T)
                T.close()
    finally:
        S.close()


def _work(chunk):
    acc = par.Acc()
    for hist, routes in chunk:
        check_history(hist, routes, acc)
        acc.sample({"history": hist.describe(), "routes": list(routes), "fallback_contents": [sorted(s) for s in hist.closed_subsets()]})
    return acc


def plan(ctx):
    items = []
    alt = {h.key() for h in fw.histories(3, assignments="alt")}
    for h in fw.histories(3):
        items.append((h, LOCAL_ROUTES))
        if h.key() in alt:
            items.append((h, SMART_ROUTES))
    if ctx.thorough:
        for h in fw.histories(4, assignments="alt"):
            items.append((h, LOCAL_ROUTES))
            if h.ghost_at is None and h.states[0] == 0:
                items.append((h, SMART_ROUTES))
    return items


def run(ctx):
    items = plan(ctx)
    a0, a1 = par.Acc(), par.Acc()
    check_history(items[1][0], LOCAL_ROUTES[:2], a0)
    check_history(items[1][0], LOCAL_ROUTES[:2], a1)
    if (a0.n, sorted(s for s, _d in a0.violations), a0.counters) != (a1.n, sorted(s for s, _d in a1.violations), a1.counters):
        raise HarnessError("non-deterministic result")
    acc = par.merge(par.pmap(_work, items, seed=ctx.seed, chunks_per_job=8))
    best = {}
    for sig, d in acc.violations:
        k = (len(d["history"]["dag"]), d["history"]["ghost_parent_at"] is not None, len(d["fallback_content"]),
             repr(d["history"]), d["tip"])
        if sig not in best or k < best[sig][0]:
            best[sig] = (k, d)
    for sig in sorted(best):
        ctx.violation(sig, best[sig][1])
    ctx.assumptions.append("the stacking invariant is accepted in either reading (parent inventories + introduced texts local, "
                           "or all texts of the revision local)")
    cases = {k[6:]: v for k, v in acc.counters.items() if k.startswith("cases:")}
    return {
        "evaluations": acc.n,
        "distinct_nontrivial": len(acc.nontrivial),
        "rule": "one evaluation = one (history, fallback content F, route, tip); non-trivial = the history has a merge and F holds "
                "some but not all of the tip's ancestry (the split lies strictly inside it)",
        "histories": len({h.key() for h, _r in items}),
        "cases_per_route": dict(sorted(cases.items())),
        "counters": {k: v for k, v in sorted(acc.counters.items()) if not k.startswith("cases:")},
        "outcomes": sorted(acc.outcomes),
        "samples": acc.samples[:2],
        "exhaustive": True,
    }


def replay(ctx, data):
    """Re-run the reported (history, fallback content, route) for all tips."""
    d = data["first"]
    h = d["history"]

    class One(fw.History):
        def closed_subsets(self):
            return [frozenset(d["fallback_content"])]
    one = One(h["dag"], h["trees"], h["ghost_parent_at"])
    acc = par.Acc()
    check_history(one, [d["route"]], acc)
    sigs = sorted({s for s, _x in acc.violations})
    print("  signatures on replay:", sigs)
    return data["signature"] not in sigs
