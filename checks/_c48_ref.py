"""Reference ignore-pattern matcher written from `brz help patterns` / `brz help ignore`.

Documented rules used (nothing else):
* trailing slashes on patterns are ignored;
* a pattern that contains a slash or is a regular expression (RE: prefix) is compared to
  the whole path from the branch root, any other pattern to the last component only;
* a leading ./ matches only in the root directory;
* ? = any single character except /, * = 0 or more characters except /,
  **/ (at the start or after a /) = 0 or more directories, [..] = one character of a group
  ([!..] / [^..] negated);
* RE:<python regular expression>, matched against the whole path;
* !pattern = exception (not ignored), !!pattern = ignore with precedence over exceptions.

The matcher is a plain backtracking matcher over tokens (no translation to regular
expressions).  Where the help text is silent (does a negated group match '/'?) both readings
are evaluated and the caller accepts either.
"""
import re


def normalize(pat):
    """Trailing slashes are ignored."""
    if pat.startswith("RE:"):
        return pat.rstrip("/") if len(pat) > 4 else pat
    while len(pat) > 1 and pat.endswith("/"):
        pat = pat[:-1]
    return pat


def tokenize(p):
    """Tokens of a glob (no RE:) after removing a leading ./ ."""
    toks = []
    i = 0
    n = len(p)
    while i < n:
        c = p[i]
        if c == "[":
            j = p.find("]", i + 2)
            if j > 0:
                body = p[i + 1:j]
                neg = body[:1] in ("!", "^")
                if neg:
                    body = body[1:]
                chars = set()
                k = 0
                while k < len(body):
                    if k + 2 < len(body) and body[k + 1] == "-":
                        chars.update(chr(x) for x in range(ord(body[k]), ord(body[k + 2]) + 1))
                        k += 3
                    else:
                        chars.add(body[k])
                        k += 1
                toks.append(("grp", frozenset(chars), neg))
                i = j + 1
                continue
        if c == "*":
            j = i
            while j < n and p[j] == "*":
                j += 1
            if j - i >= 2 and j < n and p[j] == "/" and (i == 0 or p[i - 1] == "/"):
                toks.append(("dirs",))
                i = j + 1
            else:
                toks.append(("star",))
                i = j
            continue
        if c == "?":
            toks.append(("any1",))
        else:
            toks.append(("lit", c))
        i += 1
    return toks


def _m(toks, ti, s, si, negslash, memo):
    key = (ti, si)
    if key in memo:
        return memo[key]
    if ti == len(toks):
        r = si == len(s)
    else:
        t = toks[ti]
        k = t[0]
        if k == "lit":
            r = si < len(s) and s[si] == t[1] and _m(toks, ti + 1, s, si + 1, negslash, memo)
        elif k == "any1":
            r = si < len(s) and s[si] != "/" and _m(toks, ti + 1, s, si + 1, negslash, memo)
        elif k == "grp":
            if si < len(s):
                ch = s[si]
                if t[2]:
                    ok = ch not in t[1] and (ch != "/" or negslash)
                else:
                    ok = ch in t[1]
                r = ok and _m(toks, ti + 1, s, si + 1, negslash, memo)
            else:
                r = False
        elif k == "star":
            r = False
            j = si
            while True:
                if _m(toks, ti + 1, s, j, negslash, memo):
                    r = True
                    break
                if j < len(s) and s[j] != "/":
                    j += 1
                else:
                    break
        elif k == "dirs":
            # zero or more whole directories: empty, or any prefix ending in '/'
            r = _m(toks, ti + 1, s, si, negslash, memo)
            j = si
            while not r:
                j = s.find("/", j)
                if j < 0:
                    break
                j += 1
                r = _m(toks, ti + 1, s, j, negslash, memo)
        else:
            raise AssertionError(t)
    memo[key] = r
    return r


class Invalid(Exception):
    """The pattern is outside the documented language (e.g. not a valid regular expression)."""


_RE_CACHE = {}
_TOK_CACHE = {}


def match1(pat, path, negslash):
    """Does pat match path, under one reading of 'negated group vs /'."""
    p = normalize(pat)
    if p.startswith("RE:"):
        body = p[3:]
        rx = _RE_CACHE.get(body)
        if rx is None:
            if "(?P" in body or re.search(r"\\\d", body):
                raise Invalid(pat)
            try:
                rx = re.compile(body, re.UNICODE)
            except re.error:
                raise Invalid(pat) from None
            _RE_CACHE[body] = rx
        return rx.fullmatch(path) is not None
    ent = _TOK_CACHE.get(p)
    if ent is None:
        whole = "/" in p
        q = p
        if whole:
            while q.startswith("./"):
                q = q[2:]
        toks = tokenize(q)
        ent = _TOK_CACHE[p] = (whole, toks)
    whole, toks = ent
    subject = path if whole else path.rsplit("/", 1)[-1]
    return _m(toks, 0, subject, 0, negslash, {})


def ambiguous(pat, path):
    p = normalize(pat)
    return (not p.startswith("RE:")) and "/" in path and ("[!" in p or "[^" in p)


def matches(pat, path):
    """Set of acceptable answers for 'pat matches path'."""
    if ambiguous(pat, path):
        return {match1(pat, path, False), match1(pat, path, True)}
    return {match1(pat, path, False)}


def split_prefix(pat):
    if pat.startswith("!!"):
        return 2, pat[2:]
    if pat.startswith("!"):
        return 1, pat[1:]
    return 0, pat


def _verdict1(split, path, negslash):
    """ignored  <=>  some !! pattern matches, or (no ! pattern matches and some plain pattern
    matches).  Reported pattern: a matching pattern of the deciding class (with its !! prefix),
    given either verbatim or with trailing slashes removed."""
    hit = {0: [], 1: [], 2: []}
    for c, body in split:
        if match1(body, path, negslash):
            hit[c].append(body)
    if hit[2]:
        return True, {x for b in hit[2] for x in ("!!" + b, "!!" + normalize(b))}
    if hit[1]:
        return False, set()
    if hit[0]:
        return True, {x for b in hit[0] for x in (b, normalize(b))}
    return False, set()


def verdict(patterns, path):
    """[(ignored, reportable patterns)] - one entry per acceptable reading."""
    split = [split_prefix(p) for p in patterns]
    out = [_verdict1(split, path, False)]
    if any(ambiguous(b, path) for _, b in split):
        v = _verdict1(split, path, True)
        if v != out[0]:
            out.append(v)
    return out
