"""C15 - Shelving and unshelving restore exactly the shelved changes.

Real shelf_ui.Shelver / shelf.ShelfCreator / ShelfManager / shelf_ui.Unshelver on
a 2a working tree (/dev/shm).  Enumerated: every working-tree state reachable by an
op sequence up to a depth (write, chmod, add file/dir/symlink, unknown file,
remove, unversion, delete-on-disk, renames of files and directories, into and
out of directories, symlink retarget, kind changes, multi-hunk text edits of a
25-line file) on top of one commit, de-duplicated; a second family crossing every
edit of three separated text regions (replace / insert / delete / untouched per
region) with rename and chmod of the same file; for each state every answer
vector to the Shelver's prompts, i.e. every subset of iter_shelvable() items and,
for text changes, every subset of hunks.  Oracle by file id from the statement:
after shelving, each selected change is gone (entry back to the basis value for
that aspect; selected hunks reverted) and every other aspect of every entry,
every unversioned file and every unselected hunk is as before; subsets whose
result would not be a well-formed tree may be refused without changing anything.
Unshelving onto the unchanged result restores file ids, names, kinds, bytes,
exec bits, symlink targets, unversioned files and iter_changes exactly, with no
conflicts, and removes the shelf.  Shelf ids: all sequences of
shelve/unshelve/keep/delete over three independent changes up to a length
against a set model (new id unused, shelves persist across reopen until deleted);
and, starting from 9, 10 and 11 live shelves, all sequences over {shelve, unshelve
without id, delete oldest} up to a length: ids unique and above all live ids when
assigned, active_shelves() numeric ascending, last_shelf() the newest, every shelf
still holds its own change, unshelving everything restores every change.
"""
import itertools
import os
from io import BytesIO

from mc import par
from mc.evidence import HarnessError

from . import _c01w as W

ID = "C15"
LEVEL = "exploration"
TECHNIQUE = "bounded exhaustive enumeration of tree states x shelvable-item/hunk subsets on the real shelver and unshelver with a by-file-id oracle"

NL = 25
REGIONS = (3, 13, 23)          # 1-based line numbers, more than 2*3 context lines apart
EDITS = ("-", "rep", "ins", "del")


def base_lines():
    return [b"l%d\n" % i for i in range(1, NL + 1)]


def text_for(variant, applied=(True, True, True)):
    """The 25-line text with region edits `variant` (one of EDITS per region) applied where `applied`."""
    out = []
    for i, line in enumerate(base_lines(), 1):
        if i in REGIONS:
            r = REGIONS.index(i)
            e = variant[r] if applied[r] else "-"
            if e == "rep":
                out.append(b"L%d-changed\n" % i)
            elif e == "ins":
                out.append(line)
                out.append(b"l%d-inserted\n" % i)
            elif e == "del":
                pass
            else:
                out.append(line)
        else:
            out.append(line)
    return b"".join(out)


def op_edit(wt, rel, variant):
    p = os.path.join(wt.basedir, rel)
    if not (os.path.isfile(p) and not os.path.islink(p) and wt.is_versioned(rel)):
        raise W.Inapplicable()
    with open(p, "rb") as f:
        if f.read() != text_for(("-", "-", "-")):
            raise W.Inapplicable()
    with open(p, "wb") as f:
        f.write(text_for(variant))


W.OPS["edit"] = op_edit

ALPHABET = [
    ("edit", "a", ("rep", "-", "ins")), ("write", "d/b", b"b2\n"),
    ("chmod", "a"), ("chmod", "x"),
    ("addfile", "n", b"n1\n"), ("adddir", "e"), ("addfile", "e/n", b"n1\n"), ("addlink", "m", "a"),
    ("unknown", "u", b"u1\n"),
    ("remove", "a"), ("remove", "d/b"), ("remove", "l"), ("remove", "d"), ("remove", "x"),
    ("unversion", "d/b"), ("rmdisk", "a"),
    ("rename", "a", "c"), ("rename", "d/b", "b"), ("rename", "a", "d/a"), ("rename", "d", "e"), ("rename", "l", "k"),
    ("rename", "x", "a"),
    ("retarget", "l", "d/b"), ("tolink", "d/b", "x"), ("tofile", "l", b"was-link\n"), ("todir", "x"),
]


class World:
    def __init__(self):
        from mc import boot
        from mc import wt as mwt
        self.root = boot.scratch("c15")
        self.path = os.path.join(self.root, "t")
        tree = mwt.make_tree("bzr", self.path)
        tree.set_root_id(W.ROOT_ID)
        os.mkdir(self.path + "/d")
        for rel, data in (("a", text_for(("-", "-", "-"))), ("d/b", b"b1\n"), ("x", b"x1\n")):
            with open(os.path.join(self.path, rel), "wb") as f:
                f.write(data)
        os.chmod(self.path + "/x", 0o755)
        os.symlink("a", self.path + "/l")
        tree.add(["a", "d", "d/b", "l", "x"], ids=[b"a-id", b"d-id", b"b-id", b"l-id", b"x-id"])
        tree.commit("base", rev_id=b"r1", timestamp=1e9, timezone=0, committer="C <c@example.com>")
        self.base = os.path.join(self.root, "base")
        W.copytree(self.path, self.base)
        self.state = os.path.join(self.root, "state")

    def open(self):
        from breezy.workingtree import WorkingTree
        return WorkingTree.open(self.path)

    def build(self, ops):
        W.copytree(self.base, self.path)
        wt = self.open()
        try:
            W.apply_ops(wt, ops)
        except W.Inapplicable:
            return None
        return wt

    def save_state(self):
        W.copytree(self.path, self.state)

    def restore_state(self):
        W.copytree(self.state, self.path)


_W = None


def world():
    """The world of this process (a forked worker never reuses its parent's directories)."""
    global _W
    if _W is None or _W.pid != os.getpid():
        _W = World()
        _W.pid = os.getpid()
    return _W


def _frame(e):
    import traceback
    from mc import boot
    last = "?"
    for fs in traceback.extract_tb(e.__traceback__):
        if fs.filename.startswith(boot.REPO):
            last = "%s:%s" % (fs.filename[len(boot.REPO) + 1:], fs.name)
    return last


# ---- scripted shelver ------------------------------------------------------------------------

def make_shelver(wt, answers, prompts):
    """A Shelver whose prompts are answered from `answers` (False beyond its end); every prompt is
    appended to `prompts` as ('change', item) or ('hunk', file_id, index)."""
    from breezy import shelf_ui

    class Reporter(shelf_ui.ShelfReporter):
        def prompt_change(self, change):
            self.last_change = change
            return shelf_ui.ShelfReporter.prompt_change(self, change)

        def no_changes(self):
            pass

        def shelved_id(self, shelf_id):
            self.shelf_id = shelf_id

        def selected_changes(self, transform):
            pass

    rep = Reporter()
    rep.last_change = None
    rep.shelf_id = None
    hunk_q = rep.vocab["hunk"]

    class Scripted(shelf_ui.Shelver):
        def handle_modify_text(self, creator, file_id):
            self._cur = file_id
            self._hunk = 0
            return shelf_ui.Shelver.handle_modify_text(self, creator, file_id)

        def prompt_bool(self, question, allow_editor=False):
            if question == hunk_q:
                prompts.append(("hunk", self._cur, self._hunk))
                self._hunk += 1
            elif question == rep.vocab["binary"]:
                prompts.append(("binary", self._cur))
            else:
                prompts.append(("change", rep.last_change))
            i = len(prompts) - 1
            return bool(answers[i]) if i < len(answers) else False

    s = Scripted(wt, wt.basis_tree(), diff_writer=BytesIO(), auto=False, auto_apply=True, reporter=rep)
    return s, rep


def run_shelver(wt, answers):
    prompts = []
    s, rep = make_shelver(wt, answers, prompts)
    try:
        s.run()
    finally:
        s.finalize()
    return prompts, rep.shelf_id


# ---- the oracle ---------------------------------------------------------------------------------

def expected_after_shelve(basis, work, prompts, answers, disk):
    """-> (by-id entries expected after shelving, {fid: alternative contents accepted}, selected count)."""
    by = {}
    for i, p in enumerate(prompts):
        yes = bool(answers[i]) if i < len(answers) else False
        if p[0] == "change":
            by.setdefault(p[1][1], []).append((p[1], yes))
        elif p[0] == "hunk":
            by.setdefault(p[1], []).append((("hunk", p[2]), yes))
        else:
            by.setdefault(p[1], []).append((("binary",), yes))
    exp = dict(work)
    alt = {}
    nsel = 0
    for fid, items in by.items():
        b, w = basis.get(fid), work.get(fid)
        hunks = [(it[1], yes) for it, yes in items if it[0] == "hunk"]
        for it, yes in items:
            if not yes:
                continue
            nsel += 1
            k = it[0]
            if k == "add file":
                exp.pop(fid, None)
            elif k == "delete file":
                exp[fid] = b
                # the path may still exist on disk (unversioned): re-versioned in place with its content
                bp = W.paths_of(basis).get(fid)
                if bp in disk and (w is None):
                    d = disk[bp]
                    if d[0] == "file":
                        alt[fid] = (b[0], b[1], "file", d[1], d[2])
                    elif d[0] == "link":
                        alt[fid] = (b[0], b[1], "symlink", d[1], False)
                    else:
                        alt[fid] = (b[0], b[1], "directory", None, False)
            elif k == "rename":
                e = exp[fid]
                exp[fid] = (b[0], b[1]) + tuple(e[2:])
            elif k == "change kind":
                e = exp[fid]
                exp[fid] = (e[0], e[1], b[2], b[3], b[4])
            elif k == "modify target":
                e = exp[fid]
                exp[fid] = (e[0], e[1], e[2], b[3], e[4])
            elif k == "binary":
                e = exp[fid]
                exp[fid] = (e[0], e[1], e[2], b[3], e[4])
        if hunks:
            e = exp[fid]
            exp[fid] = (e[0], e[1], e[2], ("hunks", tuple(yes for _, yes in sorted(hunks))), e[4])
    return exp, alt, nsel


def shelf_tree(basis, work, prompts, answers):
    """What the shelf holds, as a tree: the basis with exactly the selected changes applied."""
    out = dict(basis)
    for i, p in enumerate(prompts):
        if not (answers[i] if i < len(answers) else False):
            continue
        if p[0] == "change":
            k, fid = p[1][0], p[1][1]
            w = work.get(fid)
            if k == "add file":
                out[fid] = w
            elif k == "delete file":
                out.pop(fid, None)
            elif k == "rename":
                out[fid] = (w[0], w[1]) + tuple(out[fid][2:])
            elif k in ("change kind", "modify target"):
                out[fid] = tuple(out[fid][:2]) + tuple(w[2:])
    return {f: e for f, e in out.items() if e is not None and e[2] is not None}


def structurally_sound(entries):
    seen = set()
    for fid, e in entries.items():
        if e[0] != W.ROOT_ID and (e[0] not in entries or entries[e[0]][2] != "directory"):
            return False
        if (e[0], e[1]) in seen:
            return False
        seen.add((e[0], e[1]))
    return all(p is not None for p in W.paths_of(entries).values())


def moved_unversioned(exp, work, disk_unversioned):
    """{unversioned path before: path after shelving}: an unversioned file lives in a directory and moves
    with it when the directory's rename is shelved; None when its directory would disappear."""
    wpaths = W.paths_of(work)
    by_path = {p: f for f, p in wpaths.items() if p is not None and work[f][2] == "directory"}
    epaths = W.paths_of(exp)
    out = {}
    for u in disk_unversioned:
        d = os.path.dirname(u)
        while d and d not in by_path:
            d = os.path.dirname(d)
        if not d:
            out[u] = u
            continue
        fid = by_path[d]
        if fid not in exp or exp[fid][2] != "directory" or epaths.get(fid) is None:
            return None
        out[u] = epaths[fid] + u[len(d):]
    return out


def well_formed(exp, disk_unversioned, basis, work):
    """Structural validity of by-id entries: parents are directories, names unique, paths not occupied."""
    seen = set()
    for fid, e in exp.items():
        if e is None:
            return False
        par = e[0]
        if par != W.ROOT_ID:
            pe = exp.get(par)
            if pe is None or pe[2] != "directory":
                return False
        if (par, e[1]) in seen:
            return False
        seen.add((par, e[1]))
    paths = W.paths_of(exp)
    if any(p is None for p in paths.values()):
        return False
    wpaths = W.paths_of(work)
    bpaths = W.paths_of(basis)
    moved = moved_unversioned(exp, work, disk_unversioned)
    if moved is None:
        return False
    for fid, p in paths.items():
        # a restored / moved-back entry must not land on an unversioned file or directory
        # (except its own file kept on disk when it was removed from version control)
        if fid not in work and bpaths.get(fid) == p and p in moved.values() and moved.get(p) == p:
            continue
        if wpaths.get(fid) != p and any(p == u or u.startswith(p + "/") or p.startswith(u + "/") for u in moved.values()):
            return False
    return True


def resolve_text(fid, e, variant, basis, work):
    """Replace a ('hunks', flags) content marker by the bytes expected: for the 25-line file from the
    region construction, for the small files (one hunk) the basis or the working bytes."""
    if isinstance(e[3], tuple) and e[3] and e[3][0] == "hunks":
        flags = e[3][1]
        edited = [r for r in range(3) if variant[r] != "-"]
        if fid == b"a-id" and edited:
            if len(flags) != len(edited):
                raise HarnessError("hunks offered %d, regions edited %d" % (len(flags), len(edited)))
            applied = [True, True, True]
            for r, shelved in zip(edited, flags):
                if shelved:
                    applied[r] = False
            return (e[0], e[1], e[2], text_for(variant, applied), e[4])
        if len(flags) != 1:
            raise HarnessError("%d hunks offered for a one-hunk file %r" % (len(flags), fid))
        return (e[0], e[1], e[2], basis[fid][3] if flags[0] else work[fid][3], e[4])
    return e


def variant_of(ops):
    for o in ops:
        if o[0] == "edit":
            return o[2]
    return ("-", "-", "-")


def observe(w):
    from mc import wt as mwt
    wt = w.open()
    with wt.lock_read():
        basis = W.rev_entries(wt.basis_tree())
        work = W.wt_entries(wt)
        disk = mwt.dir_snapshot(w.path)
        unv = sorted(p for p in disk if not wt.is_versioned(p))
        ch = mwt.changes(wt)
        conf = len(wt.conflicts())
        shelves = wt.get_shelf_manager().active_shelves()
    return {"basis": basis, "work": work, "disk": disk, "unversioned": unv, "changes": ch, "conflicts": conf,
            "shelves": shelves}


DEPENDENT = "unshelve:shelf-depends-on-unshelved-change"


def kinds_on(prompts0, answers, fid):
    out = set()
    for i, p in enumerate(prompts0):
        if answers[i] and ((p[0] == "change" and p[1][1] == fid) or (p[0] != "change" and p[1] == fid)):
            out.add(p[1][0] if p[0] == "change" else p[0])
    return "+".join(sorted(out)) or "not-selected"


def same(a, b):
    """Entries equal, a versioned-but-missing file counting as absent."""
    na = None if a is None or a[2] is None else a
    nb = None if b is None or b[2] is None else b
    return na == nb


def check_case(acc, w, st, ops, prompts0, answers):
    case = {"ops": [list(o) for o in ops], "prompts": [repr(p) for p in prompts0], "answers": list(answers)}
    w.restore_state()
    acc.n += 1
    variant = variant_of(ops)
    exp, alt, nsel = expected_after_shelve(st["basis"], st["work"], prompts0, answers, st["disk"])
    try:
        exp = {f: resolve_text(f, e, variant, st["basis"], st["work"]) for f, e in exp.items()}
    except HarnessError:
        raise
    valid = well_formed(exp, st["unversioned"], st["basis"], st["work"])
    # is the shelf self-contained, i.e. a well-formed tree relative to the basis it is stored against?
    shelf_ok = structurally_sound(shelf_tree(st["basis"], st["work"], prompts0, answers))
    kinds = sorted({(p[1][0] if p[0] == "change" else p[0]) for i, p in enumerate(prompts0) if answers[i]})
    if 0 < nsel < len(prompts0):
        acc.nt((ops, tuple(answers)))
    wt = w.open()
    try:
        prompts, shelf_id = run_shelver(wt, answers)
    except Exception as e:  # noqa
        after = observe(w)
        unchanged = (after["work"] == st["work"] and after["disk"] == st["disk"] and after["changes"] == st["changes"])
        if not valid and unchanged:
            acc.outcomes.add(("refused-ill-formed-subset", type(e).__name__))
            acc.count("refused_ill_formed")
            if after["shelves"] != st["shelves"]:
                acc.count("shelf_file_left_by_refused_shelve")
            return
        acc.violation("shelve:%s:%s" % (type(e).__name__, _frame(e)),
                      dict(case, selected=kinds, error=repr(e)[:300], tree_unchanged=unchanged, subset_well_formed=valid))
        return
    if [p[:2] if p[0] != "change" else p for p in prompts] != [p[:2] if p[0] != "change" else p for p in prompts0]:
        raise HarnessError("prompt sequence changed between runs: %r vs %r" % (prompts, prompts0))
    try:
        after = observe(w)
    except Exception as e:  # noqa
        acc.violation("shelve:%stree-unreadable-afterwards:%s" % ("" if valid else "ill-formed-subset-accepted:", type(e).__name__),
                      dict(case, selected=kinds, error=repr(e)[:300], subset_well_formed=valid))
        return
    if nsel == 0:
        if shelf_id is not None or after["work"] != st["work"] or after["disk"] != st["disk"] or after["shelves"] != st["shelves"]:
            acc.violation("shelve:nothing-selected-but-tree-or-shelves-changed", case)
        return
    if shelf_id is None or after["shelves"] != st["shelves"] + [shelf_id] or shelf_id in st["shelves"]:
        acc.violation("shelve:shelf-id-not-new", dict(case, shelf_id=shelf_id, shelves=after["shelves"]))
        return
    if not valid:
        acc.outcomes.add(("ill-formed-subset-accepted",))
        acc.count("ill_formed_accepted")
    else:
        bad = None
        for fid in sorted(set(exp) | set(after["work"])):
            g, e = after["work"].get(fid), exp.get(fid)
            if g == e or (fid in alt and g == alt[fid]):
                continue
            b, wk = st["basis"].get(fid), st["work"].get(fid)
            if e is None:
                what = "shelved-addition-still-versioned"
            elif g is None:
                what = "entry-lost"
            elif g[:2] != e[:2]:
                what = "name-or-parent-wrong"
            elif g[2] != e[2]:
                what = "kind-wrong"
            elif g[3] != e[3]:
                what = "content-wrong"
            else:
                what = "exec-bit-wrong"
            bad = (what, fid, g, e, b, wk)
            break
        if bad:
            ko = kinds_on(prompts0, answers, bad[1])
            if bad[0] == "exec-bit-wrong" and "change kind" in ko:
                ko = "change kind"
            acc.violation("shelve:%s:%s" % (bad[0], ko),
                          dict(case, file_id=bad[1], got=bad[2], expected=bad[3], basis=bad[4], before=bad[5]))
            return
        # unversioned files: untouched, none invented, shelved additions removed from disk
        exp_paths = set(W.paths_of(exp).values())
        moved = moved_unversioned(exp, st["work"], st["unversioned"]) or {}
        for p in st["unversioned"]:
            q = moved.get(p, p)
            if q not in exp_paths and after["disk"].get(q) != st["disk"].get(p) and not any(
                    q.startswith(r + "/") for r in exp_paths if r not in moved.values()):
                acc.violation("shelve:unversioned-file-touched", dict(case, path=p, expected_at=q))
                return
        extra = [p for p in after["unversioned"] if p not in st["unversioned"] and p not in moved.values()]
        if extra:
            acc.violation("shelve:leaves-unversioned-files", dict(case, selected=kinds, paths=extra))
            return
        if after["conflicts"]:
            acc.violation("shelve:conflicts-recorded", case)
            return
    # ---- unshelve onto the unchanged result
    from breezy import shelf_ui
    wt = w.open()
    try:
        u = shelf_ui.Unshelver(wt, wt.get_shelf_manager(), shelf_id, apply_changes=True, delete_shelf=True)
        u.run()
    except Exception as e:  # noqa
        if not shelf_ok:
            acc.violation(DEPENDENT, dict(case, selected=kinds, symptom="unshelve raises %s" % repr(e)[:200]))
            return
        acc.violation("unshelve:%s:%s" % (type(e).__name__, _frame(e)), dict(case, selected=kinds, error=repr(e)[:300]))
        return
    try:
        fin = observe(w)
    except Exception as e:  # noqa
        acc.violation("unshelve:tree-unreadable-afterwards:%s" % type(e).__name__,
                      dict(case, selected=kinds, error=repr(e)[:300]))
        return
    odd = {f for f in alt if alt[f] != st["basis"].get(f)}   # kept on disk with other content than the basis
    if odd:
        acc.outcomes.add(("kept-modified-file-reversioned",))
        acc.count("kept_modified_files")
        return
    if not shelf_ok:
        diff = [f for f in set(fin["work"]) | set(st["work"]) if not same(fin["work"].get(f), st["work"].get(f))]
        if diff or fin["conflicts"] or fin["shelves"] != st["shelves"]:
            acc.violation(DEPENDENT, dict(case, selected=kinds, symptom="not restored: %d entries differ, %d conflicts"
                                          % (len(diff), fin["conflicts"])))
            return
    diff = [f for f in set(fin["work"]) | set(st["work"]) if not same(fin["work"].get(f), st["work"].get(f))]
    if diff:
        f = sorted(diff)[0]
        g, e = fin["work"].get(f), st["work"].get(f)
        what = ("entry-lost" if g is None else "entry-invented" if e is None else "name-or-parent" if g[:2] != e[:2]
                else "kind" if g[2] != e[2] else "content" if g[3] != e[3] else "exec-bit")
        acc.violation("unshelve:not-restored:%s" % (what if what == "exec-bit" else "%s:%s" % (what, kinds_on(prompts0, answers, f))),
                      dict(case, selected=kinds, file_id=f, got=g, expected=e, conflicts=fin["conflicts"]))
        return
    if fin["conflicts"]:
        acc.violation("unshelve:conflicts", dict(case, selected=kinds, conflicts=fin["conflicts"]))
        return
    # files kept on disk after their removal from version control: the statement speaks of the tree's
    # (versioned) content; whether re-applying the removal deletes the kept file is not decided by it
    bpaths = W.paths_of(st["basis"])
    kept = {bpaths[f] for f in st["basis"] if f not in st["work"] and bpaths.get(f) in st["disk"]}
    missing = {f for f, e in st["work"].items() if e[2] is None}
    d = sorted(p for p in set(fin["disk"]) | set(st["disk"]) if fin["disk"].get(p) != st["disk"].get(p)
               and not any(W.inside(p, k) for k in kept))
    if d:
        acc.violation("unshelve:disk-differs", dict(case, selected=kinds, paths=d))
        return
    if fin["changes"] != st["changes"] and not missing and not kept:
        acc.violation("unshelve:iter_changes-differs", dict(case, selected=kinds, got=fin["changes"], expected=st["changes"]))
        return
    if fin["shelves"] != st["shelves"]:
        acc.violation("unshelve:shelf-not-removed", dict(case, shelves=fin["shelves"]))
        return
    acc.outcomes.add(("roundtrip", tuple(kinds)))
    acc.count("roundtrips")


def _state_work(chunk):
    acc = par.Acc()
    w = world()
    for ops in chunk:
        if w.build(ops) is None:
            raise HarnessError("state not applicable %r" % (ops,))
        w.save_state()
        st = observe(w)
        # discover the prompts with all answers "no"
        wt = w.open()
        try:
            prompts0, sid = run_shelver(wt, ())
        except Exception as e:  # noqa
            acc.violation("shelve:prompting:%s:%s" % (type(e).__name__, _frame(e)),
                          {"ops": [list(o) for o in ops], "error": repr(e)[:300]})
            continue
        n = len(prompts0)
        if n > 9:
            raise HarnessError("too many prompts (%d) for %r" % (n, ops))
        # every change of the state must be offered
        acc.count("states")
        acc.count("prompts", n)
        for answers in itertools.product((False, True), repeat=n):
            check_case(acc, w, st, ops, prompts0, answers)
        acc.sample({"ops": [list(o) for o in ops], "prompts": [repr(p) for p in prompts0], "subsets": 2 ** n})
    return acc


def _gen_work(chunk):
    import hashlib
    w = world()
    out = []
    for ops in chunk:
        if w.build(ops) is None:
            continue
        k = hashlib.sha1(repr(W.state_key(w.open())).encode()).hexdigest()
        out.append((ops, k))
    return out


def generate_states(ctx, depth):
    seen = {}
    layer = [()]
    for ops, k in sum(par.pmap(_gen_work, layer, seed=ctx.seed), []):
        seen[k] = ops
    states = []
    raw = 0
    for d in range(1, depth + 1):
        cand = [ops + (op,) for ops in layer for op in ALPHABET]
        raw += len(cand)
        res = sum(par.pmap(_gen_work, cand, seed=ctx.seed), [])
        res.sort(key=lambda r: (len(r[0]), [ALPHABET.index(o) for o in r[0]]))
        layer = []
        for ops, k in res:
            if k in seen:
                continue
            seen[k] = ops
            layer.append(ops)
            states.append(ops)
    return states, raw


def text_states(thorough):
    """Every edit of the three regions, alone and combined with rename / chmod of the same file."""
    out = []
    for v in itertools.product(EDITS, repeat=3):
        if v == ("-", "-", "-"):
            continue
        extras = [(), (("rename", "a", "c"),), (("chmod", "a"),), (("chmod", "a"), ("rename", "a", "d/a"))]
        if not thorough:
            extras = extras[:1] if sum(1 for e in v if e != "-") == 3 else extras[:2]
        for ex in extras:
            out.append((("edit", "a", v),) + ex)
    return out


# ---- shelf ids ---------------------------------------------------------------------------------------

CHANGES = {
    "A": (("write", "d/b", b"b2\n"),),
    "B": (("addfile", "n", b"n1\n"),),
    "C": (("rename", "l", "k"),),
}


def pending(w):
    """Which of the three independent changes are present in the tree."""
    wt = w.open()
    ents = W.wt_entries(wt)
    out = set()
    if ents.get(b"b-id", (None,) * 5)[3] == b"b2\n":
        out.add("A")
    if b"n-new" in ents:
        out.add("B")
    if ents.get(b"l-id", (None, None))[1] == "k":
        out.add("C")
    return out


def shelve_one(w, name):
    from breezy import shelf
    wt = w.open()
    target = {"A": "d/b", "B": "n", "C": "k"}[name]
    with wt.lock_tree_write():
        creator = shelf.ShelfCreator(wt, wt.basis_tree(), [target] if name != "C" else ["k", "l"])
        try:
            n = 0
            for change in creator.iter_shelvable():
                creator.shelve_change(change)
                n += 1
            if n == 0:
                raise HarnessError("nothing shelvable for %s" % name)
            return wt.get_shelf_manager().shelve_changes(creator, "shelf of %s" % name)
        finally:
            creator.finalize()


def _ids_work(chunk):
    from breezy import shelf_ui
    acc = par.Acc()
    w = world()
    for seq in chunk:
        if w.build(CHANGES["A"] + CHANGES["B"] + CHANGES["C"]) is None:
            raise HarnessError("id world not applicable")
        model = {}            # shelf id -> change name
        tree = {"A", "B", "C"}
        ever = set()
        ok = True
        for step, ev in enumerate(seq):
            case = {"sequence": [list(e) for e in seq], "step": step}
            kind = ev[0]
            if kind == "shelve":
                if ev[1] not in tree:
                    ok = False
                    break
                acc.n += 1
                try:
                    sid = shelve_one(w, ev[1])
                except HarnessError:
                    raise
                except Exception as e:  # noqa
                    acc.violation("ids:shelve:%s:%s" % (type(e).__name__, _frame(e)), dict(case, error=repr(e)[:200]))
                    ok = False
                    break
                if sid in model:
                    acc.violation("ids:new-shelf-reuses-active-id", dict(case, shelf_id=sid, active=sorted(model)))
                    ok = False
                    break
                if model and sid <= max(model):
                    acc.violation("ids:new-shelf-id-not-above-active-ids", dict(case, shelf_id=sid, active=sorted(model)))
                    ok = False
                    break
                model[sid] = ev[1]
                tree.discard(ev[1])
            else:
                ids = sorted(model)
                if ev[1] >= len(ids):
                    ok = False
                    break
                sid = ids[ev[1]]
                acc.n += 1
                wt = w.open()
                try:
                    if kind == "unshelve":
                        shelf_ui.Unshelver(wt, wt.get_shelf_manager(), sid, apply_changes=True, delete_shelf=True).run()
                        tree.add(model.pop(sid))
                    elif kind == "keep":
                        if model[sid] in tree:
                            ok = False
                            break
                        shelf_ui.Unshelver(wt, wt.get_shelf_manager(), sid, apply_changes=True, delete_shelf=False).run()
                        tree.add(model[sid])
                    elif kind == "delete":
                        wt.get_shelf_manager().delete_shelf(sid)
                        model.pop(sid)
                except Exception as e:  # noqa
                    acc.violation("ids:%s:%s:%s" % (kind, type(e).__name__, _frame(e)), dict(case, error=repr(e)[:200]))
                    ok = False
                    break
            # observe through fresh objects (reopen)
            wt = w.open()
            mgr = wt.get_shelf_manager()
            act = mgr.active_shelves()
            if act != sorted(model):
                acc.violation("ids:active-shelves-differ-from-model:%s" % kind, dict(case, got=act, expected=sorted(model)))
                ok = False
                break
            if pending(w) != tree:
                acc.violation("ids:tree-changes-differ-from-model:%s" % kind, dict(case, got=sorted(pending(w)), expected=sorted(tree)))
                ok = False
                break
            for sid, name in model.items():
                md = mgr.get_metadata(sid)
                if md.get(b"message") != "shelf of %s" % name or md.get(b"revision_id") != b"r1":
                    acc.violation("ids:shelf-content-changed", dict(case, shelf_id=sid, metadata=repr(md)))
                    ok = False
                    break
            if mgr.last_shelf() != (max(model) if model else None):
                acc.violation("ids:last_shelf-wrong", case)
                ok = False
                break
        if ok and len(seq) > 1:
            acc.nt(("ids", seq))
        if ok:
            acc.outcomes.add(("ids", len(model), len(tree)))
    return acc


def id_sequences(maxlen):
    evs = [("shelve", "A"), ("shelve", "B"), ("shelve", "C"), ("unshelve", 0), ("unshelve", 1), ("keep", 0),
           ("delete", 0), ("delete", 1)]

    def feasible(seq):
        tree = {"A", "B", "C"}
        shelves = []
        for ev in seq:
            if ev[0] == "shelve":
                if ev[1] not in tree:
                    return False
                tree.discard(ev[1])
                shelves.append(ev[1])
            else:
                if ev[1] >= len(shelves):
                    return False
                if ev[0] == "unshelve":
                    tree.add(shelves.pop(ev[1]))
                elif ev[0] == "keep":
                    if shelves[ev[1]] in tree:
                        return False
                    tree.add(shelves[ev[1]])
                else:
                    shelves.pop(ev[1])
        return True
    out = []
    for k in range(1, maxlen + 1):
        for seq in itertools.product(evs, repeat=k):
            if feasible(seq):
                out.append(seq)
    return out


# ---- many live shelves: the 9 -> 10 -> 11 -> 12 boundary ---------------------------------------------

NFILES = 14


class BWorld:
    """A tree with NFILES one-line files, all modified; snapshots with 9, 10 and 11 pre-made shelves."""

    def __init__(self):
        from mc import boot
        from mc import wt as mwt
        self.root = boot.scratch("c15b")
        self.path = os.path.join(self.root, "t")
        tree = mwt.make_tree("bzr", self.path)
        tree.set_root_id(W.ROOT_ID)
        names = [self.fname(i) for i in range(NFILES)]
        for n in names:
            with open(os.path.join(self.path, n), "wb") as f:
                f.write(b"base %s\n" % n.encode())
        tree.add(names, ids=[n.encode() + b"-id" for n in names])
        tree.commit("base", rev_id=b"r1", timestamp=1e9, timezone=0, committer="C <c@example.com>")
        for n in names:
            with open(os.path.join(self.path, n), "wb") as f:
                f.write(b"changed %s\n" % n.encode())
        self.snaps = {}
        for n in range(0, 12):
            if n in (9, 10, 11):
                d = os.path.join(self.root, "pre%d" % n)
                W.copytree(self.path, d)
                self.snaps[n] = d
            sid = self.shelve(n)
            if sid != n + 1:
                # the pre-made shelves themselves are part of the check (reported by the caller)
                self.premade_error = (n, sid)
                break
        else:
            self.premade_error = None

    @staticmethod
    def fname(i):
        return "f%02d" % i

    def open(self):
        from breezy.workingtree import WorkingTree
        return WorkingTree.open(self.path)

    def restore(self, n):
        W.copytree(self.snaps[n], self.path)

    def shelve(self, i):
        """Shelve the change of file i (real ShelfCreator + ShelfManager.shelve_changes)."""
        from breezy import shelf
        wt = self.open()
        with wt.lock_tree_write():
            creator = shelf.ShelfCreator(wt, wt.basis_tree(), [self.fname(i)])
            try:
                if not creator.shelve_all():
                    raise HarnessError("nothing shelvable for file %d" % i)
                return wt.get_shelf_manager().shelve_changes(creator, "shelf of %s" % self.fname(i))
            finally:
                creator.finalize()

    def pending(self):
        out = set()
        for i in range(NFILES):
            with open(os.path.join(self.path, self.fname(i)), "rb") as f:
                data = f.read()
            if data == b"changed %s\n" % self.fname(i).encode():
                out.add(i)
            elif data != b"base %s\n" % self.fname(i).encode():
                out.add(("garbled", i))
        return out


_BW = None


def bworld():
    global _BW
    if _BW is None or _BW.pid != os.getpid():
        _BW = BWorld()
        _BW.pid = os.getpid()
    return _BW


BOUNDARY_EVENTS = ("shelve", "unshelve-last", "delete-first")


def boundary_check(acc, w, model, tree, case, what):
    """Observation through fresh objects against the set model; returns False after a violation."""
    wt = w.open()
    mgr = wt.get_shelf_manager()
    act = mgr.active_shelves()
    if act != sorted(model):
        kind = "not-ascending" if sorted(act) == sorted(model) else "differ-from-model"
        acc.violation("many-shelves:active_shelves-%s" % kind, dict(case, got=act, expected=sorted(model), after=what))
        return False
    if mgr.last_shelf() != (max(model) if model else None):
        acc.violation("many-shelves:last_shelf-not-newest", dict(case, got=mgr.last_shelf(), expected=max(model), after=what))
        return False
    for sid, i in sorted(model.items()):
        md = mgr.get_metadata(sid)
        if md.get(b"message") != "shelf of %s" % w.fname(i):
            acc.violation("many-shelves:shelf-holds-another-change", dict(case, shelf_id=sid, expected=w.fname(i),
                                                                          metadata=repr(md), after=what))
            return False
    if w.pending() != tree:
        acc.violation("many-shelves:tree-changes-differ-from-model", dict(case, got=sorted(map(str, w.pending())),
                                                                          expected=sorted(tree), after=what))
        return False
    return True


def _boundary_work(chunk):
    from breezy import shelf_ui
    acc = par.Acc()
    w = bworld()
    if w.premade_error is not None:
        acc.n += 1
        acc.violation("many-shelves:new-shelf-id-not-next", {"premade_shelves": w.premade_error[0], "got_id": w.premade_error[1]})
        return acc
    for n, seq in chunk:
        w.restore(n)
        model = {i + 1: i for i in range(n)}        # shelf id -> file index
        tree = set(range(n, NFILES))
        case = {"premade_shelves": n, "sequence": list(seq)}
        ok = boundary_check(acc, w, model, tree, case, "start")
        for step, ev in enumerate(seq):
            if not ok:
                break
            acc.n += 1
            try:
                if ev == "shelve":
                    i = min(tree)
                    sid = w.shelve(i)
                    if sid in model:
                        acc.violation("many-shelves:new-shelf-reuses-active-id", dict(case, step=step, shelf_id=sid,
                                                                                      active=sorted(model)))
                        ok = False
                        break
                    if model and sid <= max(model):
                        acc.violation("many-shelves:new-shelf-id-not-above-active-ids", dict(case, step=step, shelf_id=sid))
                        ok = False
                        break
                    model[sid] = i
                    tree.discard(i)
                elif ev == "unshelve-last":
                    if not model:
                        break
                    wt = w.open()
                    mgr = wt.get_shelf_manager()
                    sid = mgr.last_shelf()            # what 'unshelve' without an id uses
                    shelf_ui.Unshelver(wt, mgr, sid, apply_changes=True, delete_shelf=True).run()
                    exp = max(model)
                    if sid != exp:
                        acc.violation("many-shelves:unshelve-without-id-not-newest", dict(case, step=step, got=sid, expected=exp))
                        ok = False
                        break
                    tree.add(model.pop(sid))
                elif ev == "delete-first":
                    if not model:
                        break
                    sid = min(model)
                    w.open().get_shelf_manager().delete_shelf(sid)
                    model.pop(sid)
            except HarnessError:
                raise
            except Exception as e:  # noqa
                acc.violation("many-shelves:%s:%s:%s" % (ev, type(e).__name__, _frame(e)), dict(case, step=step, error=repr(e)[:200]))
                ok = False
                break
            ok = boundary_check(acc, w, model, tree, case, "%d:%s" % (step, ev))
        if not ok:
            continue
        # unshelving everything (newest first) restores every change that was not deleted
        lost = set()
        try:
            for sid in sorted(model, reverse=True):
                wt = w.open()
                shelf_ui.Unshelver(wt, wt.get_shelf_manager(), sid, apply_changes=True, delete_shelf=True).run()
                tree.add(model[sid])
        except Exception as e:  # noqa
            acc.violation("many-shelves:unshelve-all:%s:%s" % (type(e).__name__, _frame(e)), dict(case, error=repr(e)[:200]))
            continue
        if w.pending() != tree or w.open().get_shelf_manager().active_shelves() != []:
            acc.violation("many-shelves:unshelve-all-does-not-restore-every-change",
                          dict(case, got=sorted(map(str, w.pending())), expected=sorted(tree)))
            continue
        acc.nt(("many", n, seq))
        acc.outcomes.add(("many-shelves", n, len(seq)))
    return acc


def boundary_sequences(depth):
    out = []
    for n in (9, 10, 11):
        for k in range(0, depth + 1):
            for seq in itertools.product(BOUNDARY_EVENTS, repeat=k):
                out.append((n, seq))
    return out


# ---- driver --------------------------------------------------------------------------------------------

def run(ctx):
    depth = ctx.q(2, 3)
    states, raw = generate_states(ctx, depth)
    tstates = text_states(ctx.thorough)
    acc1 = par.merge(par.pmap(_state_work, states, seed=ctx.seed, chunks_per_job=8))
    acc2 = par.merge(par.pmap(_state_work, tstates, seed=ctx.seed, chunks_per_job=4))
    seqs = id_sequences(ctx.q(3, 5))
    acc3 = par.merge(par.pmap(_ids_work, seqs, seed=ctx.seed))
    bseqs = boundary_sequences(ctx.q(3, 4))
    acc4 = par.merge(par.pmap(_boundary_work, bseqs, seed=ctx.seed))
    a1 = _state_work(states[3:5])
    a2 = _state_work(states[3:5])
    if (a1.n, sorted(map(repr, a1.outcomes)), a1.violations) != (a2.n, sorted(map(repr, a2.outcomes)), a2.violations):
        raise HarnessError("non-deterministic shelve results")
    total = par.merge([acc1, acc2, acc3, acc4])
    best = {}
    for sig, d in total.violations:
        k = (len(d.get("ops", d.get("sequence", []))), sum(1 for a in d.get("answers", []) if a), len(repr(d)))
        if sig not in best or k < best[sig][0]:
            best[sig] = (k, d)
    for sig in sorted(best):
        ctx.violation(sig, best[sig][1])
    ctx.assumptions += [
        "hunks are made independent by construction: three edited regions more than two context widths apart, so each region is one hunk and the expected text is computed from the construction, not from a diff",
        "a subset whose removal would leave an ill-formed tree (entry without a versioned parent directory, duplicate name, path occupied by an unversioned file) may be refused without changing the tree",
        "when a removed-but-kept file is re-versioned by shelving its deletion, either the basis content or the content still on disk is accepted",
    ]
    return {
        "evaluations": total.n,
        "distinct_nontrivial": len(total.nontrivial),
        "rule": "one evaluation = one (state, answer vector): shelve, compare by file id, unshelve, compare with the original; non-trivial = a proper non-empty subset of the offered items/hunks is shelved; id part: one evaluation = one shelf operation in a sequence, non-trivial = completed sequence of >= 2 operations",
        "max_ops": depth,
        "op_alphabet": len(ALPHABET),
        "sequences_tried": raw,
        "distinct_states": len(states),
        "text_states": len(tstates),
        "prompts_total": total.counters.get("prompts", 0),
        "roundtrips": total.counters.get("roundtrips", 0),
        "refused_ill_formed_subsets": total.counters.get("refused_ill_formed", 0),
        "ill_formed_subsets_accepted": total.counters.get("ill_formed_accepted", 0),
        "shelf_file_left_by_refused_shelve": total.counters.get("shelf_file_left_by_refused_shelve", 0),
        "id_sequences": len(seqs),
        "id_operations": acc3.n,
        "many_shelves_sequences": len(bseqs),
        "many_shelves_operations": acc4.n,
        "many_shelves_start_counts": [9, 10, 11],
        "distinct_outcomes": len(total.outcomes),
        "samples": acc1.samples[:2] + acc2.samples[:1],
        "exhaustive": True,
    }


def replay(ctx, data):
    d = data["first"]
    if "premade_shelves" in d:
        a = _boundary_work([(d["premade_shelves"], tuple(d.get("sequence", ())))])
        for sig, det in a.violations:
            print("  ", sig, det)
        return not a.violations
    if "sequence" in d:
        a = _ids_work([tuple(tuple(e) for e in d["sequence"])])
        for sig, det in a.violations:
            print("  ", sig, det)
        return not a.violations
    w = world()

    def fix(o):
        o = list(o)
        if o[0] == "edit":
            o[2] = tuple(o[2])
        elif o[0] in ("write", "addfile", "unknown", "tofile") and isinstance(o[-1], str):
            o[-1] = o[-1].encode()
        return tuple(o)
    ops = tuple(fix(o) for o in d["ops"])
    if w.build(ops) is None:
        print("  state not applicable")
        return True
    w.save_state()
    st = observe(w)
    prompts0, _ = run_shelver(w.open(), ())
    acc = par.Acc()
    check_case(acc, w, st, ops, prompts0, tuple(d["answers"]))
    for sig, det in acc.violations:
        print("  ", sig, det)
    return not acc.violations
